#!/bin/bash
# Offline setup: nothing is built or fetched; verify the interpreter and that cryocat resolves into /repo.
set -e
cd "$(dirname "$0")"
mkdir -p evidence replays
test -x /venv/bin/python
PYTHONPATH=/repo /venv/bin/python -W ignore -c "import cryocat, os; p=os.path.realpath(cryocat.__file__); assert p.startswith('/repo/'), p; print('cryocat from', p)"
echo setup ok
