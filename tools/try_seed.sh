#!/bin/bash
# usage: tools/try_seed.sh <patch.diff> <PROP> [tier]   – apply a seeded change to a scratch worktree of /repo HEAD,
# run the check against it (VERIF_REPO), print the verdict, remove the worktree.
set -u
patch="$(realpath "$1")"; prop="$2"; tier="${3:-quick}"
wt="/root/scratch/try_$$"
git -C /repo worktree add -q --detach "$wt" HEAD || exit 2
if ! git -C "$wt" apply "$patch"; then echo "PATCH-DOES-NOT-APPLY"; git -C /repo worktree remove --force "$wt"; exit 2; fi
cd /verif
VERIF_REPO="$wt" ./check "$prop" "$tier" > "/root/scratch/try_$$.log" 2>&1
rc=$?
grep -E "VIOLATION|KNOWN-FINDING|HARNESS-ERROR|OK tier|site=" "/root/scratch/try_$$.log" | head -12
echo "exit=$rc  (1 = detected)"
git -C /repo worktree remove --force "$wt"
rm -f "/root/scratch/try_$$.log"
exit $rc
