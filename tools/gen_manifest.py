#!/usr/bin/env python3
"""Regenerate MANIFEST.json from the table below (kept in one place so it is always valid)."""
import json, os, sys
V = os.path.dirname(os.path.dirname(os.path.abspath(__file__)))
sys.path.insert(0, V)
from tools.manifest_table import CHECKS, NOT_APPLICABLE

props = [json.loads(l) for l in open(os.path.join(V, "properties.jsonl"))]
ids = [p["id"] for p in props]
checks = []
for pid in ids:
    if pid not in CHECKS:
        continue
    c = CHECKS[pid]
    checks.append({
        "property_id": pid,
        "quick_cmd": f"./check {pid} quick",
        "thorough_cmd": f"./check {pid} thorough",
        "evidence_file": f"evidence/{pid}.json",
        "replay_cmd_template": f"./check {pid} --replay {{path}}",
        "engine": c.get("engine", "mc/explore"),
        "level_claimed": {"category": "model_checking", "text": c["text"], "design_ref": c.get("design_ref", f"DESIGN.md section 3, {pid}")},
        "level_note": c["note"],
        "technique": c["technique"],
    })
na = [{"property_id": pid, "reason": NOT_APPLICABLE.get(pid, "check not built yet in this round (work in progress); no claim is made")} for pid in ids if pid not in CHECKS]
m = {
    "version": 1,
    "setup_cmd": "./setup.sh",
    "hooks": {
        "guard": "CRYOCAT_VERIF",
        "enable": "no source hooks exist: the checks import /repo/cryocat as it is (PYTHONPATH=/repo) and own all nondeterminism from outside; CRYOCAT_VERIF=1 is exported by ./check but read by nothing in /repo",
        "baseline_off_cmd": "cd /repo && /venv/bin/python -m pytest -ra -q -p no:cacheprovider --timeout=900 --continue-on-collection-errors",
        "source_commits": [],
        "add_only": True,
    },
    "engines": [
        {"name": "mc/explore", "path": "mc/engine.py", "serves_properties": [p for p in ids if p in CHECKS and CHECKS[p].get("engine", "mc/explore") == "mc/explore"],
         "kind_free_text": "bounded-exhaustive small-scope explorer: every index of a finite, analytically counted input/configuration space is executed on the real cryoCAT code and judged by an independent reference model"},
        {"name": "mc/bfs", "path": "mc/bfs.py", "serves_properties": [p for p in ids if p in CHECKS and CHECKS[p].get("engine") == "mc/bfs"],
         "kind_free_text": "explicit-state breadth-first search over operation histories on live cryoCAT objects, de-duplicated by a canonical key of the implementation state, lock-step with a pure-Python reference model"},
    ],
    "checks": checks,
    "not_applicable": na,
    "notes": "All checks drive /repo's working tree directly (no build step). known_findings.json lists recorded defects; replays/ holds violation artefacts.",
}
json.dump(m, open(os.path.join(V, "MANIFEST.json"), "w"), indent=1)
print("checks:", [c["property_id"] for c in checks], "not_applicable:", [n["property_id"] for n in na])
