#!/venv/bin/python
"""Statement coverage of the anchored functions by a property's explored cases (a gap finder, not a deciding step).

usage: /venv/bin/python tools/anchor_cov.py Cnn [tier] [per_family]

properties.jsonl anchors name line ranges of the *pinned* commit.  They are mapped to the functions enclosing them there
(AST of `git show <base>:file`), the same qualified names are looked up in /repo's working tree, and an evenly strided
sample of every family is executed under sys.settrace.  Output: per function executable lines, lines executed, and the
source text of the statements never executed -> notes/anchor_cov/Cnn.txt
"""
import ast
import json
import os
import re
import subprocess
import sys

V = os.path.dirname(os.path.dirname(os.path.abspath(__file__)))
sys.path.insert(0, V)
REPO = os.environ.get("VERIF_REPO", "/repo")
BASE = "cd243a3"


def qualnames(tree):
    out = []

    def walk(node, prefix):
        for ch in ast.iter_child_nodes(node):
            if isinstance(ch, (ast.FunctionDef, ast.AsyncFunctionDef, ast.ClassDef)):
                q = prefix + ch.name
                out.append((q, ch.lineno, ch.end_lineno, isinstance(ch, ast.ClassDef)))
                walk(ch, q + ".")
    walk(tree, "")
    return out


def anchored_functions(pid):
    """{file: set(qualname)} of functions (innermost def) overlapping an anchored range at the pinned commit."""
    res = {}
    for line in open(os.path.join(V, "properties.jsonl")):
        p = json.loads(line)
        if p["id"] != pid:
            continue
        for m in p["anchors"]["mechanism"]:
            mo = re.match(r"([^:]+):(.+)$", m["where"])
            if not mo:
                continue
            f = mo.group(1)
            src = subprocess.run(["git", "-C", "/repo", "show", f"{BASE}:{f}"], capture_output=True, text=True).stdout
            qs = [q for q in qualnames(ast.parse(src)) if not q[3]]
            for part in mo.group(2).split(","):
                a, _, b = part.partition("-")
                a, b = int(a), int(b or a)
                for q, lo, hi, _ in qs:
                    if lo <= b and hi >= a and (min(hi, b) - max(lo, a) + 1) >= 3:
                        res.setdefault(f, set()).add(q)
    return res


def executable_lines(code):
    lines = set()
    for _, _, ln in code.co_lines():
        if ln is not None:
            lines.add(ln)
    for c in code.co_consts:
        if hasattr(c, "co_lines"):
            lines |= executable_lines(c)
    return lines


def main():
    pid = sys.argv[1]
    tier = sys.argv[2] if len(sys.argv) > 2 else "quick"
    per_family = int(sys.argv[3]) if len(sys.argv) > 3 else 400
    os.environ.setdefault("VERIF_REPO", REPO)
    sys.path.insert(0, REPO)
    import importlib
    import pickle
    import tempfile

    os.chdir(tempfile.mkdtemp(prefix="mcw_anchorcov_"))
    from mc.engine import Obs
    mod = importlib.import_module(f"mc.props.{pid}")
    fams = mod.families(tier, 0)
    funcs = anchored_functions(pid)
    targets = {}   # realpath -> {qualname: (lo, hi, exec_lines)}
    for f, qs in funcs.items():
        path = os.path.realpath(os.path.join(REPO, f))
        src = open(path).read()
        tree = ast.parse(src)
        code = compile(src, path, "exec")
        allexec = executable_lines(code)
        here = {q: (lo, hi) for q, lo, hi, c in qualnames(tree) if not c}
        for q in sorted(qs):
            if q not in here:
                print(f"[anchor_cov] {f}:{q} no longer exists at HEAD")
                continue
            lo, hi = here[q]
            # drop the def line and docstring
            node = [n for n in ast.walk(tree) if isinstance(n, (ast.FunctionDef, ast.AsyncFunctionDef)) and n.lineno == lo][0]
            body0 = node.body[0]
            start = node.body[1].lineno if (isinstance(body0, ast.Expr) and isinstance(getattr(body0, "value", None), ast.Constant) and isinstance(body0.value.value, str) and len(node.body) > 1) else body0.lineno
            targets.setdefault(path, {})[q] = (lo, hi, {l for l in allexec if start <= l <= hi}, src.splitlines())
    hit = {p: set() for p in targets}
    known = {}

    def tracer(frame, event, arg):
        fn = frame.f_code.co_filename
        tgt = known.get(fn, 0)
        if tgt == 0:
            rp = os.path.realpath(fn)
            tgt = rp if rp in hit else None
            known[fn] = tgt
        if tgt is None:
            return None
        lines = hit[tgt]

        def local(frame, event, arg):
            if event == "line":
                lines.add(frame.f_lineno)
            return local
        lines.add(frame.f_lineno)
        return local

    import threading
    sys.settrace(tracer)
    threading.settrace(tracer)
    n_cases = 0
    n_exc = 0
    try:
        for fam in fams:
            if fam.kind == "bfs":
                frontier = [st for _, st in fam.spec.initial()]
                for depth in range(2):
                    nxt = []
                    for st in frontier[:40]:
                        for op in fam.spec.ops(st):
                            try:
                                s2 = fam.spec.step(pickle.loads(pickle.dumps(st)), op, Obs())
                                n_cases += 1
                                if s2 is not None:
                                    nxt.append(s2)
                            except Exception:  # noqa: BLE001
                                pass
                    frontier = nxt
                continue
            n = len(fam)
            step = max(1, n // per_family)
            for i in range(0, n, step):
                try:
                    fam.execute(fam.space[i], Obs())
                except Exception:  # noqa: BLE001
                    n_exc += 1
                n_cases += 1
    finally:
        sys.settrace(None)
        threading.settrace(None)
    outdir = os.path.join(V, "notes", "anchor_cov")
    os.makedirs(outdir, exist_ok=True)
    tot_e = tot_h = 0
    dump = {}
    for path, qs in targets.items():
        for q, (lo, hi, ex, lines) in qs.items():
            dump.setdefault(os.path.relpath(path, REPO), {})[q] = {"lines": [lo, hi], "executable": sorted(ex), "hit": sorted(ex & hit[path])}
    with open(os.path.join(outdir, f"{pid}.json"), "w") as jf:
        json.dump(dump, jf)
    with open(os.path.join(outdir, f"{pid}.txt"), "w") as out:
        out.write(f"# {pid}: statement coverage of anchored functions by a strided sample ({n_cases} cases, tier {tier}) of the check's families\n")
        for path, qs in targets.items():
            for q, (lo, hi, ex, lines) in sorted(qs.items(), key=lambda kv: kv[1][0]):
                h = ex & hit[path]
                tot_e += len(ex)
                tot_h += len(h)
                out.write(f"\n## {os.path.relpath(path, REPO)}:{q} (lines {lo}-{hi}): {len(h)}/{len(ex)} executable lines executed\n")
                for l in sorted(ex - h):
                    out.write(f"  - {l}: {lines[l - 1].strip()[:150]}\n")
        out.write(f"\nTOTAL {tot_h}/{tot_e}\n")
    print(f"[anchor_cov] {pid}: {tot_h}/{tot_e} executable lines of anchored functions executed ({n_cases} cases, {n_exc} raised) -> notes/anchor_cov/{pid}.txt")


if __name__ == "__main__":
    main()
