#!/usr/bin/env python3
"""Write /verif/SEEDS.md from seeded/*/meta.json and tools/seed_notes.json."""
import glob, json, os
V = os.path.dirname(os.path.dirname(os.path.abspath(__file__)))
notes = json.load(open(os.path.join(V, "tools", "seed_notes.json")))
rows = []
for d in sorted(glob.glob(os.path.join(V, "seeded", "*"))):
    mp = os.path.join(d, "meta.json")
    if not os.path.exists(mp):
        continue
    m = json.load(open(mp))
    first = (m.get("needs_to_manifest") or "").strip().splitlines()
    what = " ".join(l.strip("# -*").strip() for l in first[:3])[:260]
    sig = "; ".join(s.split("::")[0].strip() for s in m.get("check_signatures", [])[:2])
    rows.append((m["seed_id"], m["property"], what, "yes" if m.get("detected_by_check") else "NO", sig[:200], notes.get(m["seed_id"], "")))
with open(os.path.join(V, "SEEDS.md"), "w") as f:
    f.write("# Seeded property-breaking changes (written by independent sub-agents from the property text only)\n\n")
    f.write("Each change was confirmed in a scratch worktree of /repo: its demo passes without and fails with the change, the pinned\n"
            "suite still passes with it (tools/baseline.py), and the property's quick check was run against it (tools/confirm_seed.py;\n"
            "details in seeded/<id>/meta.json).  'detected' is the verdict of the *current* check; the last column says when an\n"
            "earlier version of the check missed it and what was strengthened.\n\n")
    f.write(f"{len(rows)} seeds, {sum(1 for r in rows if r[3]=='yes')} detected by the current checks.\n\n")
    f.write("| seed | what it changes / needs | detected | first signatures | history |\n|---|---|---|---|---|\n")
    for sid, pid, what, det, sig, note in rows:
        f.write(f"| {sid} | {what.replace('|', '/')} | {det} | `{sig.replace('|', '/')}` | {note} |\n")
print(len(rows), "seeds")
