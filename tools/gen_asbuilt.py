#!/usr/bin/env python3
"""Write /verif/ASBUILT.md: per property, the families actually explored by the last quick run on /repo (from evidence/*.json)."""
import glob, json, os
V = os.path.dirname(os.path.dirname(os.path.abspath(__file__)))
out = ["# As-built exploration sizes (quick tier, from evidence/*.json of the last run against /repo)\n",
       "Every number is measured by the run that wrote the evidence file.  `space` = analytic cardinality of the family, `executed` = cases run,",
       "`transitions` = real cryoCAT calls compared with the oracle, `outcomes` = distinct canonical outcomes/states.\n",
       "| property | family | kind | space | executed | exhaustive | transitions | outcomes/states | violating | wall s |", "|---|---|---|---|---|---|---|---|---|---|"]
tot = [0, 0]
for f in sorted(glob.glob(os.path.join(V, "evidence", "C*.json"))):
    e = json.load(open(f))
    for fam in e["coverage"].get("families", []):
        out.append(f"| {e['property_id']} ({e['tier']}, seed {e['seed']}) | {fam['family']} | {fam['kind']} | {fam['space_size']} | {fam['executed']} | {fam['exhaustive']} | "
                   f"{fam['transitions']} | {fam['distinct_outcomes']} | {fam['violating_cases']} | {fam['wall_s']} |")
        tot[0] += fam["executed"]; tot[1] += fam["transitions"]
out.append(f"\nTotal: {tot[0]} cases, {tot[1]} library calls.\n")
open(os.path.join(V, "ASBUILT.md"), "w").write("\n".join(out) + "\n")
print("cases", tot[0], "calls", tot[1])
