CHECKS = {
    "C01": {
        "text": "Complete enumeration of a deviation-bounded neighbourhood of column orders (all orders within 1 (quick) / 2 (thorough) transpositions of the canonical order, all rotations, the reversal) x N x NaN-hole patterns x 6 construction paths x 2 write paths; every case runs write -> independent byte-level parse -> load -> write -> load on the real code. Exhaustive within the stated bound, nothing sampled.",
        "note": "Trusted: mc/oracles/emfmt.py (40-line EM parser written from the format description), numpy float32 rounding. Value palette is finite; lists longer than 5 rows are not explored.",
        "technique": "bounded-exhaustive small-scope enumeration of inputs on the implementation with an independent byte-level oracle",
    },
}
NOT_APPLICABLE = {}
