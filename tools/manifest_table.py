CHECKS = {
    "C01": {
        "text": "Complete enumeration of a deviation-bounded neighbourhood of column orders (all orders within 1 (quick) / 2 (thorough) transpositions of the canonical order, all rotations, the reversal) x N x NaN-hole patterns x 6 construction paths x 2 write paths; every case runs write -> independent byte-level parse -> load -> write -> load on the real code. Exhaustive within the stated bound, nothing sampled.",
        "note": "Trusted: mc/oracles/emfmt.py (40-line EM parser written from the format description), numpy float32 rounding. Value palette is finite; lists longer than 5 rows are not explored.",
        "technique": "bounded-exhaustive small-scope enumeration of inputs on the implementation with an independent byte-level oracle",
    },
    "C05": {
        "engine": "mc/bfs",
        "text": "Explicit-state BFS over operation histories on a live 4-particle Motl: 12 operation instances (update_coordinates, scale x2, shift x2, rotate x2, flip x4 forms, canonicalise), every history up to depth 4 (quick) / 6 (thorough), de-duplicated on the complete DataFrame state; after every transition positions (x+shift) and rotation matrices are compared with a reference model, so the composition laws are facts about the explored graph.",
        "note": "Trusted: mc/oracles/so3.py (explicit zxz matrices), numpy. Four particle kinds (generic, both gimbal locks, out-of-range angles, half-integer ties), two tomograms; tolerances 1e-8 / 1e-9.",
        "technique": "explicit-state BFS over operation histories on the real objects, lock-step reference model",
    },
    "C08": {
        "engine": "mc/bfs",
        "text": "Explicit-state BFS on live Motl objects: family A explores the 29 merge-free operation instances from 5 initial lists level by level (to the fixpoint in the thorough tier, depth-bounded in the quick tier), family B explores histories with a bounded number of merges (the deviation that grows lists). States are keyed on the complete observable DataFrame state (cells, row order, index labels, column order, dtypes); every transition is compared with a pure-Python row-set model and the 20-field / payload-unchanged invariant is evaluated in every state.",
        "note": "Trusted: the row-set model in mc/props/C08.py (lists of tuples), numpy. Lists of at most 12 rows; NaN == 0.0 for payload comparison; operations on a feature column with a missing value are not enabled.",
        "technique": "explicit-state BFS with canonical state hashing over the implementation, lock-step reference model",
    },
    "C11": {
        "text": "Complete enumeration of shapes {1,2,3,5}^3 (thorough {1,2,3,5,7,48}^3) x 4 dtypes x mrc/rec/em x data_type x transpose; every file is parsed by an independent byte-level MRC/EM parser (header dims, mode, x-fastest offsets) and re-read; files written by the independent writers are read by cryoCAT; em2mrc/mrc2em over directions x invert x names x overwrite situations.",
        "note": "Trusted: mc/oracles/mrcfmt.py and emfmt.py (written from the format descriptions). Voxel codes are injective per shape; sizes above 48 are not explored.",
        "technique": "bounded-exhaustive small-scope enumeration of configurations on the implementation with independent byte-level oracles",
    },
    "C15": {
        "text": "Depth 1: every operation argument (all orderings, all proper index subsets, every crop size, every bin factor, every flip list) x stack sizes x dtypes x 16 order/input/output variants, judged against plain numpy indexing; depth 2 (quick) / 3 (thorough): every enabled operation sequence chained through the written MRC files; written files parsed independently.",
        "note": "Trusted: numpy indexing reference, mc/oracles/mrcfmt.py. Stacks of 2..6 tilts (one 25-tilt stack in thorough); flip letters judged only up to the x/y naming convention.",
        "technique": "bounded-exhaustive enumeration of operation arguments and of operation sequences through files on the implementation",
    },
    "C16": {
        "text": "Every lattice frequency of every image size {4..7}^2 as a cosine and a sine plane wave x pixel sizes x cyclic dose assignments x order variants is filtered by the real code and compared with the Grant-Grigorieff gain computed independently; full-DFT comparison on stacks of 1..10 images; linearity, composition and monotonicity on dose pairs; single-image inputs.",
        "note": "Trusted: mc/oracles/fourier.py (the documented formula), numpy FFT. int16 stacks excluded; sizes above 9 only on three elongated shapes in the thorough tier.",
        "technique": "bounded-exhaustive enumeration of the Fourier basis and configurations on the implementation against an independent gain table",
    },
    "C12": {
        "text": "Every integer frequency of the half-lattice of boxes 8^3, 9^3, (8,10,12), (9,8,11) (thorough adds 12^3, (12,9,10), 16^3) as a cosine and a sine plane wave x every cutoff x sigma in {0,.5,1,2,3,4} is filtered by the real lowpass/highpass/bandpass and compared with the documented gain (exact integer arithmetic at sigma=0, 1e-3 plateaus and lattice-ray monotonicity otherwise); complete transfer tables from deltas at every shift; linearity on wave pairs; complement and band-pass identities, also through the resolution/pixel-size parameters; exact round(N*px/res).",
        "note": "Trusted: mc/oracles/fourier3.py (half-lattice, exact radius classes, exact rounding), numpy FFT. Boxes up to 16^3; monotonicity only along the 13 lattice rays (a voxelised ball is not isotropic).",
        "technique": "bounded-exhaustive enumeration of the Fourier basis and parameter grid on the implementation against an independent gain oracle",
    },
    "C13": {
        "text": "Every voxel as centre x every radius/height (to beyond the box) for spheres, cylinders, ellipsoids and shells on all boxes {6,7,9}^3 (thorough {6,7,8,9,12}^3 plus 48-boxes), judged against exact integer/rational inequalities; every mask name of the generator grammar; soft edges; complete truth tables (2^k voxels, k <= 5) for union/intersection/subtraction/difference over 8 operand kinds with inputs and file bytes checked unmodified.",
        "note": "Trusted: mc/oracles/shapes.py (int64 arithmetic), numpy. Ellipsoidal shells only for even thickness (the statement does not fix the odd case); soft masks judged on range and outward core only.",
        "technique": "bounded-exhaustive enumeration of mask parameters and complete truth tables on the implementation against exact analytic oracles",
    },
    "C14": {
        "text": "All 64 right-angle zxz triples x every interior voxel of 5^3 and 6^3 boxes (thorough 7^3, 8^3) as deltas and as whole code volumes (exact permutation c+R(v-c)); the convention link rotate <-> Motl.get_rotations <-> shift_positions on a 30-degree (thorough 15-degree) Euler lattice of blobs; place_object for 24 cube poses x 29 positions (inside/clipped/outside) x colour fields x (x,shift) splits x forms against an independent stamping routine, all 2- and 3-particle overlapping lists; every integer and half-integer window centre of a (5,6,7) volume; symmetrisation for n = 2..12.",
        "note": "Trusted: mc/oracles/so3.py, an independent 15-line stamping routine, numpy. Interpolated (non-right-angle) poses only through centre-of-mass / L2 claims (2.6); non-right-angle poses and odd templates in place_object are not judged.",
        "technique": "bounded-exhaustive enumeration of rotations x voxels / poses x positions / window centres on the implementation against explicit-matrix and indexing oracles",
    },
    "C20": {
        "text": "Every scene built from subsets (<= 3) of 3 source sites with every assignment of 5 normal kinds x subsets (<= 3) of 5 target sites (thorough: 4 and 6 sites) x 4 cone angles x 7 (thickness, voxel) settings x presentations (direction, labelling, index layout, decoy point); the whole scene under the 24 cube rotations + generic rotations with translation; voxel scaling; direction swap; the numba candidate kernel against the same admissibility predicate. Genericity (no angle within 1e-3 deg of a cone limit, no distance within 1e-6 of the range, no distance ties) is proven by brute force whenever the palette is built.",
        "note": "Trusted: the admissibility predicate and greedy-stability clauses in mc/props/C20.py (numpy), mc/oracles/so3.py. Scenes of at most 3+3 points; the CUDA kernel cannot run here; the 25-candidate cap is outside the quantifier.",
        "technique": "bounded-exhaustive enumeration of small point scenes and configurations on the implementation against an independent admissibility/stability oracle",
    },
    "C17": {
        "engine": "mc/bfs",
        "text": "Mdoc: explicit-state BFS (14 operation instances: sort, sort+reset, remove by position with/without kept_only, reset, write/re-read with and without removed images, module-level remove/sort through files) from two documents to depth 4 (quick) / 6 (thorough) in lock-step with a list-of-dicts model, the written text tokenised independently; plus every document of a small grammar (value kinds x titles x image counts x angle orders) read, written and re-read. Loaders: every file layout of a small alphabet (number spellings, final newline, sorted/unsorted, gctf with/without phase shift and extra columns, ctffind4, mdoc dose). Wedge lists: every combination of 1..3 tomograms x 1..3 tilts x dimension form x z-shift form x ctf x dose; written STOPGAP/EM files parsed independently.",
        "note": "Trusted: the mdoc writer/tokenizer and models in mc/props/C17.py, mc/oracles/startok.py, mc/oracles/emfmt.py. Mdoc floats restricted to positional repr; an int coming back as the equal float is not judged.",
        "technique": "explicit-state BFS over Mdoc operation histories plus bounded-exhaustive enumeration of file layouts/configurations, on the implementation",
    },
    "C02": {
        "text": "Write->read: every table of rows 0..3 x column-kind tuples over {int,float,text,mixed} (length <= 3; thorough <= 4 plus 30-column and 200-row tables) x block names x numbering, and all two-/three-block lists over 25 name pairs; each case writes, tokenises the file independently, reads, writes again and reads again. Hand-built texts: the complete product of a slot grammar (lines before a block, label suffix, lines after labels, between blocks, separator, row lead/trail whitespace, LF/CRLF, final newline) over small tables, read by Starfile.read and compared with the independent tokenizer.",
        "note": "Trusted: mc/oracles/startok.py (line-oriented tokenizer/writer, re only). Excluded as the quantifier says: NaN/inf, tokens with whitespace or '#', purely numeric text columns.",
        "technique": "bounded-exhaustive enumeration of tables and of a STAR layout grammar on the implementation against an independent tokenizer",
    },
    "C04": {
        "text": "Every ordered selection of 1..4 subtomogram ids (thorough 1..5, plus a 300-row list) x 6 index kinds (default, offset, gaps, reversed, after remove_feature, split_by_feature piece) x reset on/off for the in-memory export; import of independently built STOPGAP frames/files in 4 column orders x layouts x 5 entry points; export via file through 3 writers x 7 input/history variants x update_coord x reset_index x 3 loaders, the written file tokenised independently.",
        "note": "Trusted: the module's own copy of the 14-pair renaming table, mc/oracles/startok.py. Exported column order and the non-shared fields are not judged.",
        "technique": "bounded-exhaustive enumeration of lists, index histories and configurations on the implementation against an independent renaming table",
    },
    "C09": {
        "text": "Lists are all sequences (length <= 4, thorough <= 5) over an alphabet of particle kinds (inside; below/beyond each face; inside only by shift; inside another tomogram's dimensions only; on zero/one voxels; outside the mask volume incl. negative coordinates) x boundary type x box x dimension forms (Nx4 array/DataFrame/file in three row orders, 1x3 forms); every 5^3 trimming coordinate; reference point sets x radii; masks of constant 3^3 blocks in four mask modes; inplace on/off. Exact inside-set oracle on complete positions and the particle's own tomogram; survivors compared as tagged rows.",
        "note": "Trusted: the inside-set model in mc/props/C09.py, mc/oracles/emfmt.py/mrcfmt.py for mask files. Boundary values on which readings of 'inside' differ are not in the palette. One recorded finding (C09-K1, lower faces).",
        "technique": "bounded-exhaustive enumeration of particle-kind sequences and configurations on the implementation against an exact inside-set oracle",
    },
    "C10": {
        "text": "Every n in 1..64 in all four spellings (int, float, 'Cn', 'cn') x 15 particle lists (gimbal locks, half-integer ties, negative positions, non-zero shifts, non-sequential ids) x 4 subunit offsets (incl. on-axis and zero); thorough adds 64 right-angle and 36 lattice poses, more offsets and 100-particle lists. Rows matched by (parent, subunit index) and judged against explicit so3 matrices: R*Rz(360k/n), centre + R*Rz(360k/n)*s.",
        "note": "Trusted: mc/oracles/so3.py, numpy. Tolerances 1e-8 (matrices) / 1e-9 (positions).",
        "technique": "bounded-exhaustive enumeration of symmetry orders, spellings, poses and offsets on the implementation against an explicit-matrix oracle",
    },
    "C06": {
        "text": "A rotation set G (24 cube rotations, 45-degree Euler lattice, gimbal families incl. out-of-range and equal-but-differently-written triples, epsilon-neighbours of identity and of half-turns, generic rotations; 369 quick / 1333 thorough): all ordered pairs through the batch interface in three input modes plus a per-pair-call core, all triples of a 60/100-element core (triangle inequality), two-sided invariance under the cube group and generic rotations; euler_angles_to_normals for every batch size 1..12 (thorough ..500) at every start; normals_to_euler_angles for 44 directions x lengths x batch sizes x orders x input kinds.",
        "note": "Trusted: mc/oracles/so3.py (explicit matrices, atan2-conditioned rotation angle). Tolerances 2e-5 degrees, 1e-4 slack on the triangle inequality.",
        "technique": "bounded-exhaustive enumeration of rotation pairs/triples/batches on the implementation against explicit SO(3) matrices",
    },
    "C07": {
        "text": "clean_by_distance: every subset (<= 4, thorough <= 5) of a jittered 6-site line and 3x3 grid x every score ranking (plus one-tie rankings) x every assignment to <= 2 (3) groups x grouping field x metric field x radii x direction x shifts; oracle: separation, domination, group independence (differential: group cleaned alone), equality with the unique greedy solution. tmana peak extraction: every ranking (720) of five 6-voxel volume shapes (thorough: 40 320 rankings of 2x2x2) x thresholds x diameters x angle-list numbering x zxz/zzx x array/file lists.",
        "note": "Trusted: mc/oracles/suppress.py (greedy model, numpy). Distance ties are excluded and the exclusion is proven by brute force on every palette; groups containing a score tie are exempt from the model clause.",
        "technique": "bounded-exhaustive enumeration of point configurations x rankings x groupings on the implementation against a greedy reference model and the statement's invariants",
    },
    "C18": {
        "text": "A universe of 6 (thorough 7) jittered sites over 2 (3) tomograms with fixed orientations (generic, both gimbal locks, half-turn, two equal) and non-zero shifts: every query subset x every neighbour subset x k x pixel size against a brute-force k-nearest-neighbour oracle (ids, distances, offsets in tomogram and particle frame, angular distance, relative orientation); every subset pair with a common tomogram under 26/28 per-tomogram rigid motions (24 cube rotations + generic, with translations) for invariance. Genericity (distance gaps >= 1e-3, shifts matter) proven by brute force.",
        "note": "Trusted: brute-force oracle in mc/props/C18.py, mc/oracles/so3.py. rotation_type='all' is outside the statement and not explored; fully disjoint tomogram sets are executed but not judged.",
        "technique": "bounded-exhaustive enumeration of particle-list pairs and rigid motions on the implementation against a brute-force oracle",
    },
    "C19": {
        "text": "Every ordered selection (the algorithm is order dependent) of n = 2..4 particles from a jittered 6-site line x every assignment of exit displacements x threshold pairs, n = 5 and n = 6 on reduced alphabets (n = 6 is the smallest scope that reaches the tail-cut branch), two interleaved tomograms, shifted sites (thorough: n = 5 complete, grid, n = 6 with two displacements). Oracle: invariants only (every particle once, order numbers 1..k per chain, consecutive links within (min,max] and equal to the recorded distance, no chain across tomograms); a sys.monitoring probe requires the suffix / prefix / prefix-with-cut / both-sides / tail-cut branches to be entered.",
        "note": "Trusted: mc/oracles/chains.py (numpy). No entry-exit distance within 1e-3 of a threshold. Lists longer than 6 are not explored.",
        "technique": "bounded-exhaustive enumeration of ordered particle configurations on the implementation against the statement's invariants, with branch-reachability guards",
    },
    "C03": {
        "text": "1052 orientations (30-degree Euler lattice, gimbal and near-gimbal, out-of-range triples) x all 9^3 sign combinations of positions/shifts ride through lists of 1, 2 and <= 300 rows for every configuration of version {3.0,3.1,4.0} x pixel size x name format x optics on/off: export in memory and to file (parsed by an independent tokenizer), import from independently written STAR files/tables (pixel size from argument, rlnPixelSize, optics block, two optics groups in and out of numeric order in the optics table; every single deviation in name style, half-set style, column order), export->import round trips, the four helper functions; arguments given at construction or at the call. The oracle states the convention independently: Rz(rot)Ry(tilt)Rz(psi) * Rz(psi)Rx(theta)Rz(phi) = I, so symmetric sign errors that cancel in a round trip are caught.",
        "note": "Trusted: mc/oracles/so3.py, the private STAR tokenizer/writer in mc/props/C03.py. Not covered: use_original_entries=True, RELION 5, binning != 1; a file whose rlnRandomSubset holds a single value is not judged for parity. Two recorded findings (C03-K1, C03-K2).",
        "technique": "bounded-exhaustive enumeration of orientation/position lattices x conversion configurations on the implementation against explicit-matrix convention oracles",
    },
}
NOT_APPLICABLE = {}


# Families added after the red-team waves / the anchor statement-coverage listing (DESIGN sections 9 and 11); the bounds of
# every family are reported by each run in evidence/<id>.json (coverage.families).
ADDED = {
    "C01": "Added: N colliding with the field count (19..21), non-default row labels, rows whose optional fields are all missing, values at the end of the float32 range, holes punched into the live list after construction.",
    "C02": "Added: exponent spellings, quote characters, text outside ASCII, blocks read by name, label lines ordered by their '#n' numbers with trailing descriptions, tables with reversed / gapped row labels.",
    "C03": "Added: single deviations of the row labels on import; export and round trip from tables with gapped / reversed row labels.",
    "C04": "Added: tables with reversed / rotated column order, lists whose shifts are all zero under update_coord.",
    "C05": "Now 16 operation instances (shift with inplace=False, flips with persistent caller-owned dimension tables, unsorted tables) from four initial lists (default labels; permuted and gapped labels; tomogram 2 only; reordered columns); get_coordinates per tomogram.",
    "C06": "Added: array memory layouts, per-point colour values, get_axis_from_rotation and angle_between_vectors (incl. parallel / antiparallel directions).",
    "C07": "Added: map memory layouts and files, diameters equal to lattice distances, repeated row labels, coincident particles, threshold 0.0 and sigma thresholds, dense clusters of 33..100 (thorough 400) particles, angle lists with > 32 767 rows.",
    "C08": "Now 35 merge-free operation instances and 7 merges; object numbers after merge_and_drop_duplicates; intersection against second lists of 1..40 (thorough 200) ids.",
    "C09": "Added: caller's arguments unchanged, reference points sharing coordinates, (centre, box) option interaction, all-zero masks, a particle beyond the y edge of a mask, particles exactly at the radius (integer offsets with integer norms).",
    "C11": "Added: one axis of 17..47 voxels on every axis position, array memory layouts, invert_contrast (values, file, file type), a double just below an integer.",
    "C12": "Added: box (13,8,8), cutoffs to the long-axis Nyquist, array memory layouts, exact .5 quotients of box*px/res judged with round-half-even.",
    "C13": "Added: every radius on 48-boxes, re-call after the caller edited a result, odd explicit mask sizes, documented default radius / height / radii / centre, array memory layouts for the algebra.",
    "C14": "Added: re-call after in-place edits, row-label and memory-layout variants, enforce_shape windows and pad, maps that are non-zero at their faces under generic rotations (no density without source), grey-valued templates (even edges) at generic orientations.",
    "C15": "Added: caller-owned argument objects shared across calls, merge of 1..13 (thorough 25) numbered part files, one centre definition across all crops of an image.",
    "C16": "Added: sizes 13 / 17, array memory layouts, int16 stacks (arrays and files, within one count), csv / text dose files, the written file holds the result.",
    "C17": "Added: long decimals, acquisition-order wedge lists, repeated tilt, array index lists, gctf columns in another order, gctf micrograph names that are not in text order, csv dose tables, mdoc.get_tilt_angles.",
    "C18": "Added: row-label variants, subtomogram numbers that restart per tomogram, the same list objects moved in place and analysed again.",
    "C19": "Added: row-label variants, a second tomogram holding a single particle.",
    "C20": "Added: 42 targets in the ball at every insertion position, array memory layouts, two lattice sheets of 10..300 points per surface (sparse and dense) in three labelling orders and both directions.",
}
NOTE_FIX = {
    "C16": ("int16 stacks excluded; ", ""),
    "C20": ("Scenes of at most 3+3 points; ", "Palette scenes of at most 3+3 points, lattice sheets up to 300+307 points; "),
    "C14": ("non-right-angle poses and odd templates in place_object are not judged.", "odd templates in place_object are not judged (windows are quantified over even boxes only); at non-right-angle poses the stamp is judged against the thresholded output of cryomap.rotate."),
    "C07": ("groups containing a score tie are exempt from the model clause.", "groups containing a score tie are exempt from the model clause; a sigma threshold is judged only where both usual definitions of the standard deviation select the same voxels."),
}
for _k, _t in ADDED.items():
    CHECKS[_k]["text"] = CHECKS[_k]["text"].rstrip() + " " + _t
for _k, (_a, _b) in NOTE_FIX.items():
    assert _a in CHECKS[_k]["note"], _k
    CHECKS[_k]["note"] = CHECKS[_k]["note"].replace(_a, _b)
