#!/usr/bin/env python3
"""confirm_seed.py <src_dir with patch.diff demo.py notes.md> <PROP> <seed-id> [note]

Confirms a seeded change in a scratch worktree of /repo HEAD (demo passes without / fails with the change, the pinned
suite still passes with it), runs the property's quick check against it, and files it under /verif/seeded/<seed-id>/.
"""
import json, os, shutil, subprocess, sys, time

src, prop, sid = sys.argv[1], sys.argv[2], sys.argv[3]
note = sys.argv[4] if len(sys.argv) > 4 else ""
wt = f"/root/scratch/confirm_{os.getpid()}"
run = lambda *a, **k: subprocess.run(*a, capture_output=True, text=True, **k)
head = run(["git", "-C", "/repo", "rev-parse", "--short", "HEAD"]).stdout.strip()
assert run(["git", "-C", "/repo", "worktree", "add", "-q", "--detach", wt, "HEAD"]).returncode == 0
res = {"property": prop, "seed_id": sid, "repo_commit": head}
try:
    env = dict(os.environ, PYTHONPATH=wt, MPLBACKEND="Agg")
    demo = os.path.abspath(os.path.join(src, "demo.py"))
    tmpd = f"/root/scratch/confirm_cwd_{os.getpid()}"
    os.makedirs(tmpd, exist_ok=True)
    r0 = run(["/venv/bin/python", "-W", "ignore", demo], env=env, cwd=tmpd)
    res["demo_without_change_exit"] = r0.returncode
    ap = run(["git", "-C", wt, "apply", os.path.abspath(os.path.join(src, "patch.diff"))])
    res["patch_applies"] = ap.returncode == 0
    r1 = run(["/venv/bin/python", "-W", "ignore", demo], env=env, cwd=tmpd)
    res["demo_with_change_exit"] = r1.returncode
    res["demo_with_change_tail"] = (r1.stdout + r1.stderr)[-400:]
    b = run(["python3", "/verif/tools/baseline.py", wt])
    res["baseline_with_change"] = b.stdout.strip().splitlines()[0] if b.stdout.strip() else b.stderr[-300:]
    res["baseline_exit"] = b.returncode
    t = time.time()
    c = run(["./check", prop, "quick"], cwd="/verif", env=dict(os.environ, VERIF_REPO=wt))
    res["check_cmd"] = f"VERIF_REPO=<worktree with patch> ./check {prop} quick"
    res["check_exit"] = c.returncode
    res["check_wall_s"] = round(time.time() - t, 1)
    res["check_signatures"] = [l.strip()[:300] for l in c.stdout.splitlines() if l.strip().startswith("site=")][:6]
    shutil.rmtree(tmpd, ignore_errors=True)
finally:
    run(["git", "-C", "/repo", "worktree", "remove", "--force", wt])
ok = res.get("patch_applies") and res["demo_without_change_exit"] == 0 and res["demo_with_change_exit"] != 0 and res["baseline_exit"] == 0
res["confirmed"] = bool(ok)
res["detected_by_check"] = res.get("check_exit") == 1
res["note"] = note
notes = open(os.path.join(src, "notes.md")).read() if os.path.exists(os.path.join(src, "notes.md")) else ""
res["needs_to_manifest"] = notes.strip()[:1500]
if ok:
    dst = f"/verif/seeded/{sid}"
    os.makedirs(dst, exist_ok=True)
    for f in ("patch.diff", "demo.py", "notes.md"):
        if os.path.exists(os.path.join(src, f)):
            shutil.copy(os.path.join(src, f), dst)
    json.dump(res, open(os.path.join(dst, "meta.json"), "w"), indent=1)
print(json.dumps({k: res[k] for k in ("seed_id", "confirmed", "detected_by_check", "demo_without_change_exit", "demo_with_change_exit", "baseline_exit", "check_exit")}))
