#!/usr/bin/env python3
"""Run the pinned test suite of the repository (guard OFF) and compare with /root/.vp/BASELINE.json.

usage: baseline.py [repo_dir]      exit 0 iff every stable-pass test still passes.
"""
import json
import os
import subprocess
import sys
import tempfile
import xml.etree.ElementTree as ET

repo = sys.argv[1] if len(sys.argv) > 1 else "/repo"
base = json.load(open("/root/.vp/BASELINE.json"))
stable = set(base["stable_pass"])
fd, junit = tempfile.mkstemp(suffix=".xml", dir="/root")
os.close(fd)
env = dict(os.environ)
env.pop("CRYOCAT_VERIF", None)
env["PYTHONPATH"] = repo
cmd = ["/venv/bin/python", "-m", "pytest", "-q", "-p", "no:cacheprovider", "--timeout=900", "--continue-on-collection-errors", "-x" if False else "-q", f"--junitxml={junit}"]
subprocess.run(cmd, cwd=repo, env=env, stdout=subprocess.DEVNULL, stderr=subprocess.DEVNULL)
passed = set()
allt = set()
for tc in ET.parse(junit).getroot().iter("testcase"):
    name = f"{tc.get('classname')}::{tc.get('name')}".replace(os.path.realpath(repo), "/repo")
    allt.add(name)
    if not any(ch.tag in ("failure", "error", "skipped") for ch in tc):
        passed.add(name)
os.unlink(junit)
for junk in ("band.em",):
    p = os.path.join(repo, junk)
    if os.path.exists(p) and repo == "/repo":
        os.unlink(p)
missing = sorted(stable - passed)
print(f"passed={len(passed)} total={len(allt)} stable={len(stable)} stable_now_failing={len(missing)} newly_passing={len(passed - stable)}")
for m in missing[:40]:
    print("  LOST:", m)
sys.exit(1 if missing else 0)
