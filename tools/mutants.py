#!/venv/bin/python
"""Mechanical mutants of the anchored functions: a measurement of the checks' detection power (NOT a deciding step).

  tools/mutants.py gen Cnn [N]          list N mutants (deterministic stratified pick) of the anchored functions' executed lines
  tools/mutants.py run Cnn [N] [NPROC]  run the quick check against each mutant in a scratch worktree of /repo HEAD; survivors are
                                        then run against the pinned test-suite (tools/baseline.py) to see whether the tests notice

Needs notes/anchor_cov/Cnn.json (tools/anchor_cov.py).  Results: notes/mutants/Cnn.json (one record per mutant).
Operators: comparison boundary / negation, + <-> -, * <-> /, and <-> or, not-removal, True <-> False, integer constant +1,
float constant perturbation, statement deletion (augmented assignment / expression statement / plain assignment -> pass).
"""
import ast
import warnings
warnings.simplefilter("ignore")
import hashlib
import json
import os
import re
import subprocess
import sys

V = os.path.dirname(os.path.dirname(os.path.abspath(__file__)))
REPO = "/repo"

CMP = {ast.Lt: "<=", ast.LtE: "<", ast.Gt: ">=", ast.GtE: ">", ast.Eq: "!=", ast.NotEq: "=="}
CMP_TXT = {ast.Lt: "<", ast.LtE: "<=", ast.Gt: ">", ast.GtE: ">=", ast.Eq: "==", ast.NotEq: "!="}
BIN = {ast.Add: ("+", "-"), ast.Sub: ("-", "+"), ast.Mult: ("*", "/"), ast.Div: ("/", "*"), ast.FloorDiv: ("//", "/")}


def offsets(src):
    starts = [0]
    for line in src.splitlines(keepends=True):
        starts.append(starts[-1] + len(line.encode("utf-8")))
    return starts


def mutants_of(src, lo, hi, hit):
    """-> list of (lineno, kind, start_byte, end_byte, replacement_text)"""
    tree = ast.parse(src)
    b = src.encode("utf-8")
    st = offsets(src)

    def pos(node, end=False):
        return st[(node.end_lineno if end else node.lineno) - 1] + (node.end_col_offset if end else node.col_offset)

    out = []
    docstrings = set()
    for n in ast.walk(tree):
        if isinstance(n, (ast.FunctionDef, ast.ClassDef, ast.Module)) and n.body and isinstance(n.body[0], ast.Expr) and isinstance(getattr(n.body[0], "value", None), ast.Constant) and isinstance(n.body[0].value.value, str):
            docstrings.add(id(n.body[0].value))
    for n in ast.walk(tree):
        ln = getattr(n, "lineno", None)
        if ln is None or not (lo <= ln <= hi) or ln not in hit:
            continue
        if isinstance(n, ast.Compare) and len(n.ops) == 1 and type(n.ops[0]) in CMP:
            a, c = pos(n.left, True), pos(n.comparators[0])
            seg = b[a:c].decode()
            t = CMP_TXT[type(n.ops[0])]
            k = seg.find(t)
            if k >= 0:
                out.append((ln, f"cmp {t}->{CMP[type(n.ops[0])]}", a + k, a + k + len(t), CMP[type(n.ops[0])]))
        elif isinstance(n, ast.BinOp) and type(n.op) in BIN:
            a, c = pos(n.left, True), pos(n.right)
            seg = b[a:c].decode()
            t, r = BIN[type(n.op)]
            m = re.search(re.escape(t), seg)
            if m and "(" not in seg and ")" not in seg or (m and seg.strip() == t):
                if isinstance(n.op, ast.Add) and (isinstance(n.left, ast.Constant) and isinstance(n.left.value, str) or isinstance(n.right, ast.Constant) and isinstance(n.right.value, str)):
                    continue
                out.append((ln, f"binop {t}->{r}", a + m.start(), a + m.end(), r))
        elif isinstance(n, ast.BoolOp):
            a, c = pos(n.values[0], True), pos(n.values[1])
            seg = b[a:c].decode()
            t, r = ("and", "or") if isinstance(n.op, ast.And) else ("or", "and")
            m = re.search(r"\b" + t + r"\b", seg)
            if m:
                out.append((ln, f"bool {t}->{r}", a + m.start(), a + m.end(), r))
        elif isinstance(n, ast.UnaryOp) and isinstance(n.op, ast.Not):
            a = pos(n)
            c = pos(n.operand)
            out.append((ln, "not-removed", a, c, ""))
        elif isinstance(n, ast.Constant) and id(n) not in docstrings:
            a, c = pos(n), pos(n, True)
            if n.value is True or n.value is False:
                out.append((ln, f"const {n.value}->{not n.value}", a, c, str(not n.value)))
            elif isinstance(n.value, int) and not isinstance(n.value, bool) and abs(n.value) <= 1000:
                out.append((ln, f"int {n.value}->{n.value + 1}", a, c, str(n.value + 1)))
            elif isinstance(n.value, float):
                nv = n.value * 1.5 if n.value != 0 else 0.5
                out.append((ln, f"float {n.value}->{nv}", a, c, repr(nv)))
        elif isinstance(n, (ast.AugAssign, ast.Expr, ast.Assign)) and n.lineno == n.end_lineno:
            if isinstance(n, ast.Expr) and (isinstance(n.value, ast.Constant) or (isinstance(n.value, ast.Call) and getattr(n.value.func, "id", "") in ("print",)) or
                                           (isinstance(n.value, ast.Call) and isinstance(n.value.func, ast.Attribute) and n.value.func.attr in ("warn", "info", "debug", "warning"))):
                continue
            if isinstance(n, ast.Assign):
                # deleting a plain assignment mostly gives NameError; keep only re-assignments of subscripts / attributes
                if not all(isinstance(t, (ast.Subscript, ast.Attribute)) for t in n.targets):
                    continue
            out.append((ln, "stmt-deleted", pos(n), pos(n, True), "pass"))
    return out


def gen(pid, n_want):
    cov = json.load(open(os.path.join(V, "notes", "anchor_cov", f"{pid}.json")))
    allm = []
    for f, funcs in cov.items():
        src = open(os.path.join(REPO, f)).read()
        for q, d in funcs.items():
            lo, hi = d["lines"]
            for (ln, kind, a, c, rep) in mutants_of(src, lo, hi, set(d["hit"])):
                line = src.splitlines()[ln - 1].strip()
                allm.append({"file": f, "func": q, "line": ln, "kind": kind, "start": a, "end": c, "rep": rep, "source": line[:160]})
    # deterministic stratified pick: order by a hash, round-robin over (function, operator class)
    for m in allm:
        m["h"] = hashlib.sha1(f"{m['file']}:{m['line']}:{m['start']}:{m['kind']}".encode()).hexdigest()
    groups = {}
    for m in sorted(allm, key=lambda m: m["h"]):
        groups.setdefault((m["func"], m["kind"].split()[0]), []).append(m)
    pick = []
    keys = sorted(groups, key=lambda k: hashlib.sha1(repr(k).encode()).hexdigest())
    i = 0
    while len(pick) < n_want and any(groups.values()):
        k = keys[i % len(keys)]
        if groups[k]:
            pick.append(groups[k].pop(0))
        i += 1
    return allm, pick


def apply(m, root):
    p = os.path.join(root, m["file"])
    b = open(os.path.join(REPO, m["file"]), "rb").read()
    nb = b[:m["start"]] + m["rep"].encode() + b[m["end"]:]
    try:
        ast.parse(nb.decode())
    except SyntaxError:
        return False
    open(p, "wb").write(nb)
    return True


def run(pid, n_want, nproc):
    allm, pick = gen(pid, n_want)
    outp = os.path.join(V, "notes", "mutants", f"{pid}.json")
    os.makedirs(os.path.dirname(outp), exist_ok=True)
    done = {}
    if os.path.exists(outp):
        done = {r["h"]: r for r in json.load(open(outp))["mutants"]}
    wt = f"/root/scratch/mut_{pid}"
    subprocess.run(["git", "-C", REPO, "worktree", "remove", "--force", wt], capture_output=True)
    subprocess.run(["git", "-C", REPO, "worktree", "add", "-q", "--detach", wt, "HEAD"], check=True)
    res = []
    try:
        for m in pick:
            if m["h"] in done:
                res.append(done[m["h"]])
                continue
            if not apply(m, wt):
                continue
            env = dict(os.environ, VERIF_REPO=wt, VERIF_NPROC=str(nproc), VERIF_NO_CONFIRM="1", VERIF_NO_ANCHORS="1")
            try:
                r = subprocess.run([os.path.join(V, "check"), pid, "quick"], env=env, capture_output=True, text=True, timeout=1500)
                rc = r.returncode
                first = next((l.strip()[:200] for l in r.stdout.splitlines() if "site=" in l), "")
                if rc not in (0, 1):
                    first = next((l.strip()[:200] for l in (r.stdout + r.stderr).splitlines() if "HARNESS" in l or "Error" in l or "VACU" in l), "")[:200]
            except subprocess.TimeoutExpired:
                rc, first = 124, "timeout"
            rec = dict(m, check_exit=rc, verdict={0: "SURVIVED", 1: "killed"}.get(rc, "noticed-as-broken"), first=first)
            if rc == 0:
                b = subprocess.run(["python3", os.path.join(V, "tools", "baseline.py"), wt], capture_output=True, text=True)
                mo = re.search(r"stable_now_failing=(\d+)", b.stdout + b.stderr)
                rec["tests_failing"] = int(mo.group(1)) if mo else None
            res.append(rec)
            subprocess.run(["git", "-C", wt, "checkout", "-q", "--", "."], check=True)
            print(f"[mutants] {pid} {m['file']}:{m['line']} {m['kind']:22s} {rec['verdict']:10s} {rec.get('tests_failing', '')} | {m['source'][:90]}", flush=True)
            json.dump({"property": pid, "candidates": len(allm), "mutants": res}, open(outp, "w"), indent=1)
    finally:
        subprocess.run(["git", "-C", REPO, "worktree", "remove", "--force", wt], capture_output=True)
    k = sum(1 for r in res if r["verdict"] == "killed")
    s = [r for r in res if r["verdict"] == "SURVIVED"]
    print(f"[mutants] {pid}: {len(res)} run of {len(allm)} candidates: {k} killed, {len(s)} survived ({sum(1 for r in s if r.get('tests_failing') == 0)} of them also pass the pinned tests), "
          f"{len(res) - k - len(s)} noticed as broken")


if __name__ == "__main__":
    cmd, pid = sys.argv[1], sys.argv[2]
    n = int(sys.argv[3]) if len(sys.argv) > 3 else 24
    if cmd == "gen":
        allm, pick = gen(pid, n)
        print(len(allm), "candidates")
        for m in pick:
            print(f"{m['file']}:{m['line']} {m['func']} {m['kind']} | {m['source']}")
    else:
        run(pid, n, int(sys.argv[4]) if len(sys.argv) > 4 else 4)
