"""C18 — nearest-neighbour analysis equals brute force and is invariant under rigid motion of a tomogram.

Drives cryocat.nnana.get_nn_stats on every pair of sub-lists of a small universe of particles and judges every row of
the returned table against a brute-force search over explicit positions and 3x3 matrices (mc.oracles.so3).
"""
import hashlib
import itertools

import numpy as np

from ..engine import Family, HarnessError, LibError
from ..space import Listed, Product, subsets
from ..motlgen import frame
from ..oracles import so3

RULE = (
    "universe = jittered sites in 2 (thorough: 3) tomograms, each with a fixed orientation (generic, gimbal, half-turn, "
    "equal to another site's) and a non-zero shift that changes the neighbour ranking; table rows interleave the "
    "tomograms and subtomogram ids are unrelated to row positions.  Cases = every query subset x every neighbour "
    "subset (incl. the same subset, partially and fully disjoint tomogram sets) x k x pixel size; rigid = the same "
    "x every Q in cube group + generic, a different (Q,t) per tomogram, both lists moved, library called before and "
    "after.  All pairwise distances differ by >= 1e-3 (verified by brute force for the generated universe).  "
    "Non-trivial = some query has at least two candidates in its tomogram (a choice exists) and one row is reported; "
    "distinct = distinct case descriptions.  Lists without a common tomogram are executed but not judged."
)
BOUNDS = {
    "quick": "6 sites (4+2); query subsets of size 1..3 (41) x neighbour subsets of size 1..4 (56) x k in {1,2,3} x "
             "pixel size in {1,2.5}; rotation_type='all' on subsets of size <= 2; rigid motions: 26 Q x (all subset pairs "
             "with |query| <= 2 and |neighbours| = 3, and all coincident lists of size 1..3) (k=2, px=2.5)",
    "thorough": "7 sites (4+2+1); query subsets 1..3 (63) x neighbour subsets 1..4 (98) x k in {1,2,3,5} x pixel size in "
                "{1,2.5,0.37}; rigid motions: 28 Q (cube group + 4 generic) x (every subset pair with |query| <= 2 and a common tomogram, "
                "and coincident lists of size 3..4) (k=2, px=2.5)",
}
ASSUMPTIONS = [
    "distance ties excluded by construction (all pairwise distances and all their differences >= 1e-3 pixel; "
    "re-verified by brute force, exit 2 otherwise)",
    "when fewer than k candidates exist in the tomogram, all of them are expected (min(k, available)); a query without "
    "any candidate in its tomogram must not be reported",
    "tolerances: lengths/offsets/matrices 1e-9, angular distance 2e-5 degrees (acos, DESIGN 2.6)",
    "rotation_type='all' cannot be stored in the single angular_distance column: only its crash or the other columns are judged",
    "two lists without any common tomogram: get_nn_distances raises from np.vstack([]) - undefined by the statement, executed but not judged",
]
BUDGET_S = {"quick": 900, "thorough": 3600}

LEN_TOL = 1e-9
ANG_TOL = 2e-5
TIE_MARGIN = 1e-3

# ------------------------------------------------------------------------------------------------
# the universe

# (tomo_id, subtomo_id, integer position, shift, (phi, theta, psi)); row order interleaves tomograms on purpose
BASE_SITES = [
    (3.0, 41.0, (20, 22, 18), (0.40, -0.30, 0.20), (12.3, 77.7, -133.1)),     # generic
    (7.0, 13.0, (60, 15, 33), (-0.25, 0.45, 0.10), (201.9, 33.3, 58.2)),      # tomogram 7
    (3.0, 7.0, (25, 22, 18), (0.45, 0.35, -0.15), (30.0, 0.0, 45.0)),         # gimbal theta = 0; nearer to site 41 by x,y,z alone ...
    (3.0, 58.0, (20, 27, 19), (0.30, -0.45, 0.45), (0.0, 180.0, 0.0)),        # ... half-turn about x; nearer by complete position
    (7.0, 2.0, (66, 21, 30), (0.15, -0.35, -0.45), (201.9, 33.3, 58.2)),      # same orientation as the other tomogram-7 site
    (3.0, 26.0, (14, 18, 25), (0.05, 0.25, -0.40), (-75.0, 180.0, 20.0)),     # gimbal theta = 180
    (11.0, 90.0, (5, 6, 7), (0.2, 0.1, -0.3), (45.0, 90.0, -45.0)),           # thorough only: third tomogram
]
JITTER0 = [(0.013, -0.027, 0.041), (-0.036, 0.019, 0.008), (0.022, 0.031, -0.017), (-0.009, -0.043, 0.026),
           (0.038, 0.004, -0.032), (-0.021, 0.036, 0.015), (0.007, -0.012, 0.029)]


def universe(tier, seed):
    """-> list of row dicts (float64 table rows).  The seed changes only the jitter added to the shifts."""
    n = 6 if tier == "quick" else 7
    rng = np.random.RandomState(181800 + seed)
    for attempt in range(200):
        jit = JITTER0 if (seed == 0 and attempt == 0) else [tuple(np.round(rng.uniform(-0.04, 0.04, 3), 4)) for _ in range(7)]
        rows = []
        for (tomo, sid, pos, sh, ang), j in zip(BASE_SITES[:n], jit):
            rows.append(dict(tomo_id=tomo, subtomo_id=sid, x=pos[0], y=pos[1], z=pos[2],
                             shift_x=sh[0] + j[0], shift_y=sh[1] + j[1], shift_z=sh[2] + j[2],
                             phi=ang[0], theta=ang[1], psi=ang[2], object_id=1.0, score=0.5, geom1=1.0))
        why = generic(rows) or sensitivity(rows)
        if why is None:
            return rows
        if seed == 0 and attempt == 0:
            raise HarnessError(f"C18: the hand-written universe violates its preconditions: {why}")
    raise HarnessError("C18: could not draw a generic universe")


def positions(rows):
    return np.array([[r["x"] + r["shift_x"], r["y"] + r["shift_y"], r["z"] + r["shift_z"]] for r in rows], dtype=float)


def generic(rows, same_tomogram_only=False):
    """Brute-force verification of the genericity precondition.  None if fine, else a message.

    For the universe every pair of sites is required to be generic (stronger than needed); for a moved configuration,
    where different tomograms moved differently, only candidates of the query's own tomogram compete."""
    P = positions(rows)
    n = len(P)
    D = np.linalg.norm(P[:, None, :] - P[None, :, :], axis=2)
    for q in range(n):
        ds = sorted(D[q][c] for c in range(n) if not same_tomogram_only or rows[c]["tomo_id"] == rows[q]["tomo_id"])
        if len(ds) < 2:  # ds includes 0 (the particle itself when the lists coincide)
            continue
        gaps = np.diff(ds)
        if gaps.min() < TIE_MARGIN:
            return f"site {q}: two candidate distances differ by {gaps.min():.3g} < {TIE_MARGIN}"
    if any(abs(r[f]) < 1e-3 for r in rows for f in ("shift_x", "shift_y", "shift_z")):
        return "a shift component is (almost) zero"
    return None


def sensitivity(rows):
    """The universe must distinguish the readings a wrong implementation would use (harness self-test).
    None if fine, else a message."""
    P = positions(rows)
    P0 = np.array([[r["x"], r["y"], r["z"]] for r in rows], dtype=float)
    tomo = np.array([r["tomo_id"] for r in rows])
    flips = cross = 0
    for q in range(len(rows)):
        same = [c for c in range(len(rows)) if tomo[c] == tomo[q] and c != q]
        if len(same) >= 2:
            a = sorted(same, key=lambda c: np.linalg.norm(P[c] - P[q]))
            b = sorted(same, key=lambda c: np.linalg.norm(P0[c] - P0[q]))
            flips += a != b
    if not flips:
        return "ignoring the shifts never changes a neighbour ranking in this universe"
    return None


# ------------------------------------------------------------------------------------------------
# oracle


def expected(rowsA, rowsB, k, px):
    """Brute force.  -> dict query subtomo id -> list (ascending) of dicts, for queries that have candidates."""
    out = {}
    PA, PB = positions(rowsA), positions(rowsB)
    RB = [so3.zxz(r["phi"], r["theta"], r["psi"]) for r in rowsB]
    for i, a in enumerate(rowsA):
        cand = [j for j, b in enumerate(rowsB) if b["tomo_id"] == a["tomo_id"]]
        if not cand:
            continue
        cand.sort(key=lambda j: float(np.linalg.norm(PB[j] - PA[i])))
        Ra = so3.zxz(a["phi"], a["theta"], a["psi"])
        lst = []
        for j in cand[:k]:
            delta = (PB[j] - PA[i]) * px
            rel = Ra.T @ RB[j]
            lst.append(dict(nn=rowsB[j]["subtomo_id"], dist=float(np.linalg.norm(PB[j] - PA[i]) * px), off=delta,
                            off_p=Ra.T @ delta, ang=so3.angle_deg(rel), rel=rel, n_cand=len(cand)))
        out[a["subtomo_id"]] = lst
    return out


COLS = ["distance", "coord_x", "coord_y", "coord_z", "coord_rx", "coord_ry", "coord_rz", "angular_distance",
        "rot_x", "rot_y", "rot_z", "phi", "theta", "psi", "subtomo_idx", "subtomo_nn_idx"]


def table_rows(obs, tab):
    """Returned table -> dict query id -> list of row dicts in order of appearance (None after a shape violation)."""
    cols = list(getattr(tab, "columns", []))
    if not obs.check(all(c in cols for c in COLS), "get_nn_stats", "table-columns", lambda: f"columns {cols}"):
        return None
    vals = tab[COLS].to_numpy(dtype=float)
    out = {}
    for r in vals:
        d = dict(zip(COLS, r))
        out.setdefault(float(d["subtomo_idx"]), []).append(d)
    return out


def call(obs, rowsA, rowsB, k, px, rtype):
    from cryocat import cryomotl, nnana

    ma = obs.lib("Motl.__init__", cryomotl.Motl, frame(rowsA))
    mb = obs.lib("Motl.__init__", cryomotl.Motl, frame(rowsB))
    return obs.lib("get_nn_stats", nnana.get_nn_stats, ma, mb, pixel_size=px, nn_number=k, rotation_type=rtype)


def judge(obs, got, want, rowsA, k, px, rtype):
    """Brute-force clauses on one returned table."""
    site = "get_nn_stats"
    ids_a = {r["subtomo_id"] for r in rowsA}
    extra = sorted(set(got) - ids_a)
    obs.check(not extra, site, "query-ids-from-first-list", lambda: f"rows reported for subtomo_idx {extra}, first list has {sorted(ids_a)}")
    nocand = sorted(q for q in got if q in ids_a and q not in want)
    obs.check(not nocand, site, "no-row-without-same-tomogram-candidate",
              lambda: f"query {nocand} has no particle of the second list in its tomogram but rows were reported")
    for q, lst in want.items():
        rows = got.get(q, [])
        ncls = "k>available" if k > lst[0]["n_cand"] else "k<=available"
        if not obs.check(len(rows) == len(lst), site, "neighbour-count",
                         lambda: f"query {q}: {len(rows)} rows reported, expected min(k={k}, {lst[0]['n_cand']} candidates in the tomogram) = {len(lst)}", cls=ncls):
            continue
        dists = [r["distance"] for r in rows]
        obs.check(all(dists[i] <= dists[i + 1] for i in range(len(dists) - 1)), site, "ascending", lambda: f"query {q}: distances in order of appearance {dists}")
        for rank, (r, w) in enumerate(zip(rows, lst)):
            if not obs.check(r["subtomo_nn_idx"] == w["nn"], site, "neighbour-id",
                             lambda: f"query {q} rank {rank}: reported neighbour {r['subtomo_nn_idx']} at {r['distance']!r}, brute force: {w['nn']} at {w['dist']!r}"):
                continue
            obs.check(abs(r["distance"] - w["dist"]) <= LEN_TOL, site, "distance-value",
                      lambda: f"query {q} -> {w['nn']}: distance {r['distance']!r}, expected |delta|*{px} = {w['dist']!r}", cls=f"px={px}")
            off = np.array([r["coord_x"], r["coord_y"], r["coord_z"]])
            obs.check(np.abs(off - w["off"]).max() <= LEN_TOL, site, "offset-tomogram-frame",
                      lambda: f"query {q} -> {w['nn']}: offset {off.tolist()}, expected {w['off'].tolist()}", cls=f"px={px}")
            offp = np.array([r["coord_rx"], r["coord_ry"], r["coord_rz"]])
            obs.check(np.abs(offp - w["off_p"]).max() <= LEN_TOL, site, "offset-particle-frame",
                      lambda: f"query {q} -> {w['nn']}: particle-frame offset {offp.tolist()}, expected R^T delta = {w['off_p'].tolist()}")
            if rtype == "angular_distance":
                # a non-finite value is a defect of its own (geom.angular_distance: acos of |q1.q2| > 1), kept apart from a wrong value
                if obs.check(bool(np.isfinite(r["angular_distance"])), site, "angular-distance-finite",
                             lambda: f"query {q} -> {w['nn']}: angular distance {r['angular_distance']!r}, rotation angle of R^T R_nn = {w['ang']!r}",
                             cls="equal-orientations" if w["ang"] <= 1e-9 else "different-orientations"):
                    obs.check(abs(r["angular_distance"] - w["ang"]) <= ANG_TOL, site, "angular-distance",
                              lambda: f"query {q} -> {w['nn']}: angular distance {r['angular_distance']!r}, rotation angle of R^T R_nn = {w['ang']!r}")
            eul = np.array([r["phi"], r["theta"], r["psi"]])
            M = so3.zxz(*eul) if np.isfinite(eul).all() else np.full((3, 3), np.nan)
            obs.check(bool(np.abs(M - w["rel"]).max() <= LEN_TOL), site, "relative-orientation-matrix",
                      lambda: f"query {q} -> {w['nn']}: reported zxz {eul.tolist()} is not R^T R_nn (max deviation {np.abs(M - w['rel']).max():.3g})")
            zax = np.array([r["rot_x"], r["rot_y"], r["rot_z"]])
            obs.check(bool(np.abs(zax - w["rel"][:, 2]).max() <= LEN_TOL), site, "relative-orientation-zaxis",
                      lambda: f"query {q} -> {w['nn']}: rot_xyz {zax.tolist()}, z-axis of R^T R_nn = {w['rel'][:, 2].tolist()}")


def digest(got):
    h = hashlib.blake2b(digest_size=8)
    for q in sorted(got):
        for r in got[q]:
            a = np.array([r[c] for c in COLS if c not in ("phi", "theta", "psi")], dtype=float)
            h.update(np.where(np.isfinite(a), np.round(a, 6) + 0.0, -1.0).tobytes())
    return h.hexdigest()


def common_tomogram(rowsA, rowsB):
    return bool({r["tomo_id"] for r in rowsA} & {r["tomo_id"] for r in rowsB})


def choice_exists(rowsA, rowsB):
    for a in rowsA:
        if sum(1 for b in rowsB if b["tomo_id"] == a["tomo_id"]) >= 2:
            return True
    return False


# ------------------------------------------------------------------------------------------------
# rigid motion


def move(rows, motions):
    """Apply the per-tomogram rigid motion (Q, t) to complete positions and orientations; shifts stay non-zero."""
    out = []
    for r in rows:
        Q, t = motions[r["tomo_id"]]
        p = Q @ np.array([r["x"] + r["shift_x"], r["y"] + r["shift_y"], r["z"] + r["shift_z"]]) + t
        base = np.floor(p)
        sh = p - base
        sh = np.where(sh < 1e-3, sh + 1.0, sh)      # keep every shift component non-zero
        base = p - sh
        M = Q @ so3.zxz(r["phi"], r["theta"], r["psi"])
        ang = so3.mat_to_zxz(M)
        if np.abs(so3.zxz(*ang) - M).max() > 1e-12:
            raise HarnessError("C18: mat_to_zxz did not reproduce a moved orientation")
        out.append(dict(r, x=base[0], y=base[1], z=base[2], shift_x=sh[0], shift_y=sh[1], shift_z=sh[2], phi=ang[0], theta=ang[1], psi=ang[2]))
    return out


def q_set(tier, seed):
    qs = [np.array(m, dtype=float) for m in so3.cube_group()]
    fixed = [(-73.9, 52.1, 164.4), (141.2, 108.6, -27.5), (12.3, 77.7, -133.1), (95.2, 8.4, -171.3), (-148.8, 163.2, 99.9),
             (33.3, 66.6, 111.1), (-5.5, 91.7, 179.2), (170.1, 45.9, -44.4), (-100.6, 140.2, -12.8), (64.7, 19.3, 143.0)]
    if seed != 0:
        rng = np.random.RandomState(181900 + seed)
        fixed = [(round(float(rng.uniform(-180, 180)), 3), round(float(rng.uniform(5, 175)), 3), round(float(rng.uniform(-180, 180)), 3)) for _ in range(10)]
    for t in fixed[: (2 if tier == "quick" else 4)]:
        qs.append(so3.zxz(*t))
    return qs


TRANSLATIONS = [np.array([37.25, -12.5, 8.125]), np.array([-5.75, 101.375, 40.5]), np.array([0.0, 0.0, 0.0]), np.array([250.5, 3.25, -77.875])]

# ------------------------------------------------------------------------------------------------
# families


def families(tier, seed):
    U = universe(tier, seed)
    why = generic(U) or sensitivity(U)
    if why is not None:
        raise HarnessError(f"C18: universe precondition failed: {why}")
    n = len(U)
    tomos = sorted({r["tomo_id"] for r in U})
    Q = q_set(tier, seed)
    for qm in Q:
        if not so3.is_rotation(qm, 1e-12):
            raise HarnessError("C18: a rigid-motion matrix is not a rotation")
    qsub = subsets(range(n), 1, 3)
    nsub = subsets(range(n), 1, 4)
    ks = [1, 2, 3] if tier == "quick" else [1, 2, 3, 5]
    pxs = [1.0, 2.5] if tier == "quick" else [1.0, 2.5, 0.37]

    def pick(idx):
        return [dict(U[i]) for i in idx]

    def describe_lists(qa, qb):
        return {"query_list": [{f: U[i][f] for f in ("tomo_id", "subtomo_id", "x", "y", "z", "shift_x", "shift_y", "shift_z", "phi", "theta", "psi")} for i in qa],
                "neighbour_list_subtomo_ids": [U[i]["subtomo_id"] for i in qb]}

    # --- brute force -----------------------------------------------------------------------------
    def exec_brute(case, obs):
        qa, qb, k, px, rtype = case
        A, B = pick(qa), pick(qb)
        if rtype.endswith("|ids-restart"):
            # subtomogram numbers that restart in every tomogram: in the second list the tomogram-7 particles carry numbers that
            # also occur in tomogram 3 (the first list keeps unique numbers, they key the reported rows)
            rtype = rtype.split("|")[0]
            B = [dict(r, subtomo_id={13.0: 7.0, 2.0: 41.0}.get(r["subtomo_id"], r["subtomo_id"])) for r in B]
        if not common_tomogram(A, B):
            obs.skipped = True
            obs.fire("disjoint-not-judged")
            try:
                call(obs, A, B, k, px, rtype)
                obs.outcome = ("disjoint", "returned")
            except Exception as e:  # noqa: BLE001 - undefined by the statement: observed, not judged
                obs.outcome = ("disjoint", type(getattr(e, "exc", e)).__name__)
            return
        if rtype == "all":
            # one stable signature for the documented-but-unusable option, whatever line raises first
            try:
                tab = call(obs, A, B, k, px, rtype)
            except LibError as le:
                obs.fail("get_nn_stats", f"exception:{type(le.exc).__name__}", f"{le}", cls="rotation_type=all")
                obs.outcome = ("exc", type(le.exc).__name__)
                return
        else:
            tab = call(obs, A, B, k, px, rtype)
        got = table_rows(obs, tab)
        if got is None:
            obs.outcome = ("bad-table",)
            return
        want = expected(A, B, k, px)
        judge(obs, got, want, A, k, px, rtype)
        obs.nontrivial = choice_exists(A, B) and bool(got)
        obs.outcome = digest(got)

    def describe_brute(case):
        qa, qb, k, px, rtype = case
        return dict(describe_lists(qa, qb), k=k, pixel_size=px, rotation_type=rtype)

    brute = Family("brute-force", Product(qsub, nsub, ks, pxs, ["angular_distance"]), exec_brute, describe=describe_brute,
                   expect=("neighbour-count", "ascending", "neighbour-id", "distance-value", "offset-tomogram-frame", "offset-particle-frame",
                           "angular-distance-finite", "angular-distance", "relative-orientation-matrix", "relative-orientation-zaxis",
                           "no-row-without-same-tomogram-candidate", "disjoint-not-judged"))

    small = subsets(range(n), 1, 2)
    rt_all = Family("rotation-type-all", Product(small, small, [1, 2, 3], [1.0], ["all"]), exec_brute, describe=describe_brute,
                    expect=("disjoint-not-judged",), min_outcomes=1,
                    note="documented option rotation_type='all'; the single angular_distance column cannot hold three values, so only the "
                         "remaining columns (or the crash) are judged")

    # --- rigid motion ----------------------------------------------------------------------------
    if tier == "quick":
        pairs = [(a, b) for a in subsets(range(n), 1, 2) for b in subsets(range(n), 3, 3)]
        pairs += [(a, a) for a in subsets(range(n), 1, 3)]       # coincident lists
    else:
        pairs = [(a, b) for a in subsets(range(n), 1, 2) for b in nsub]
        pairs += [(a, a) for a in subsets(range(n), 3, 4)]        # larger coincident lists
    pairs = [(a, b) for (a, b) in pairs if common_tomogram(pick(a), pick(b))]

    def motions_for(qi):
        return {t: (Q[(qi + 7 * j) % len(Q)], TRANSLATIONS[(qi + j) % len(TRANSLATIONS)]) for j, t in enumerate(tomos)}

    def exec_rigid(case, obs):
        (qa, qb), qi = case
        k, px, rtype = 2, 2.5, "angular_distance"
        A, B = pick(qa), pick(qb)
        mot = motions_for(qi)
        A2, B2 = move(A, mot), move(B, mot)
        msg = generic(A2 + [b for b in B2 if b["subtomo_id"] not in {a["subtomo_id"] for a in A2}], same_tomogram_only=True)
        if msg is not None:
            raise HarnessError(f"C18: moved configuration lost genericity: {msg}")
        got1 = table_rows(obs, call(obs, A, B, k, px, rtype))
        got2 = table_rows(obs, call(obs, A2, B2, k, px, rtype))
        if got1 is None or got2 is None:
            obs.outcome = ("bad-table",)
            return
        # both tables are judged against brute force on their own inputs ...
        judge(obs, got1, expected(A, B, k, px), A, k, px, rtype)
        judge(obs, got2, expected(A2, B2, k, px), A2, k, px, rtype)
        # ... and against each other: the statement's invariance claim
        site = "get_nn_stats"
        same_shape = set(got1) == set(got2) and all(len(got1[q]) == len(got2[q]) for q in got1)
        obs.check(same_shape, site, "rigid-same-rows", lambda: f"rows per query before {[(q, len(v)) for q, v in got1.items()]}, after {[(q, len(v)) for q, v in got2.items()]}")
        if same_shape:
            for q in got1:
                for rank, (r1, r2) in enumerate(zip(got1[q], got2[q])):
                    obs.check(r1["subtomo_nn_idx"] == r2["subtomo_nn_idx"], site, "rigid-same-neighbour", lambda: f"query {q} rank {rank}: neighbour {r1['subtomo_nn_idx']} before, {r2['subtomo_nn_idx']} after")
                    obs.check(abs(r1["distance"] - r2["distance"]) <= LEN_TOL, site, "rigid-distance-unchanged", lambda: f"query {q} rank {rank}: distance {r1['distance']!r} -> {r2['distance']!r}")
                    p1 = np.array([r1["coord_rx"], r1["coord_ry"], r1["coord_rz"]])
                    p2 = np.array([r2["coord_rx"], r2["coord_ry"], r2["coord_rz"]])
                    obs.check(bool(np.abs(p1 - p2).max() <= LEN_TOL), site, "rigid-particle-frame-offset-unchanged", lambda: f"query {q} rank {rank}: {p1.tolist()} -> {p2.tolist()}")
                    if np.isfinite(r1["angular_distance"]) and np.isfinite(r2["angular_distance"]):  # non-finite: reported by angular-distance-finite
                        obs.check(bool(abs(r1["angular_distance"] - r2["angular_distance"]) <= ANG_TOL), site, "rigid-angular-distance-unchanged",
                                  lambda: f"query {q} rank {rank}: {r1['angular_distance']!r} -> {r2['angular_distance']!r}")
                    M1 = so3.zxz(r1["phi"], r1["theta"], r1["psi"])
                    M2 = so3.zxz(r2["phi"], r2["theta"], r2["psi"])
                    z1 = np.array([r1["rot_x"], r1["rot_y"], r1["rot_z"]])
                    z2 = np.array([r2["rot_x"], r2["rot_y"], r2["rot_z"]])
                    obs.check(bool(np.abs(M1 - M2).max() <= LEN_TOL and np.abs(z1 - z2).max() <= LEN_TOL), site, "rigid-relative-orientation-unchanged",
                              lambda: f"query {q} rank {rank}: zxz {[r1['phi'], r1['theta'], r1['psi']]} -> {[r2['phi'], r2['theta'], r2['psi']]}")
        obs.nontrivial = qi != 0 and choice_exists(A, B) and bool(got1)
        obs.outcome = (digest(got1), digest(got2))

    def exec_rigid_inplace(case, obs):
        """Non-initial state: the SAME two list objects are analysed, moved rigidly IN PLACE (column assignment: same
        object, same number of rows) and analysed again - the second analysis must see the moved lists."""
        from cryocat import cryomotl, nnana

        (qa, qb), qi = case
        k, px, rtype = 2, 2.5, "angular_distance"
        A, B = pick(qa), pick(qb)
        mot = motions_for(qi)
        A2, B2 = move(A, mot), move(B, mot)
        if generic(A2 + [b for b in B2 if b["subtomo_id"] not in {a["subtomo_id"] for a in A2}], same_tomogram_only=True) is not None:
            raise HarnessError("C18: moved configuration lost genericity")
        ma = obs.lib("Motl.__init__", cryomotl.Motl, frame(A))
        mb = obs.lib("Motl.__init__", cryomotl.Motl, frame(B))
        got1 = table_rows(obs, obs.lib("get_nn_stats", nnana.get_nn_stats, ma, mb, pixel_size=px, nn_number=k, rotation_type=rtype))
        pose = ["x", "y", "z", "shift_x", "shift_y", "shift_z", "phi", "theta", "psi"]
        for m_, moved in ((ma, A2), (mb, B2)):
            for c in pose:
                m_.df.loc[:, c] = np.array([r[c] for r in moved], dtype=float)
        got2 = table_rows(obs, obs.lib("get_nn_stats", nnana.get_nn_stats, ma, mb, pixel_size=px, nn_number=k, rotation_type=rtype))
        if got1 is None or got2 is None:
            obs.outcome = ("bad-table",)
            return
        judge(obs, got1, expected(A, B, k, px), A, k, px, rtype)
        n_before = len(obs.violations)
        judge(obs, got2, expected(A2, B2, k, px), A2, k, px, rtype)
        obs.check(len(obs.violations) == n_before, "get_nn_stats", "analysis-follows-in-place-edit",
                  "after the two lists were moved in place the second analysis does not match brute force on the moved lists", "same-objects-reanalysed")
        obs.nontrivial = qi != 0 and choice_exists(A, B) and bool(got1)
        obs.outcome = (digest(got1), digest(got2))

    def describe_rigid(case):
        (qa, qb), qi = case
        mot = motions_for(qi)
        return dict(describe_lists(qa, qb), k=2, pixel_size=2.5,
                    motion_per_tomogram={str(t): {"Q": np.round(m[0], 12).tolist(), "t": m[1].tolist()} for t, m in mot.items()})

    rigid = Family("rigid-motion", Product(pairs, list(range(len(Q)))), exec_rigid, describe=describe_rigid,
                   expect=("rigid-same-rows", "rigid-same-neighbour", "rigid-distance-unchanged", "rigid-particle-frame-offset-unchanged",
                           "rigid-angular-distance-unchanged", "rigid-relative-orientation-unchanged", "offset-particle-frame"))
    # rotation_type="all" is a documented option but the statement (and its quantifier: k, pixel size, rigid motion) says
    # nothing about it; on the current tree it raises (compare_rotations returns a 3-tuple that get_nn_distances cannot
    # concatenate).  Judging it would demand more than the property states, so the family is built but NOT explored
    # (see DESIGN section 10, "not judged").  Set VERIF_C18_ROTATION_ALL=1 to run it.
    import os
    if os.environ.get("VERIF_C18_ROTATION_ALL") == "1":
        return [rt_all, brute, rigid]  # (row-index variants are not needed for this diagnostic family)
    ids_restart = Family("neighbour-numbers-restart-per-tomogram", Product(subsets(range(n), 1, 2), nsub, [2], [1.0], ["angular_distance|ids-restart"]),
                         exec_brute, describe=describe_brute, expect=("neighbour-id", "relative-orientation-matrix", "angular-distance"))
    from ..motlgen import with_row_index_kinds
    brute_idx = with_row_index_kinds(brute, select=lambda c: c[2] == 2 and c[3] == 1.0, kinds=("gapped", "reversed", "repeated"), expect=("neighbour-id", "distance-value", "offset-particle-frame", "angular-distance"))
    rigid_inplace = Family("rigid-motion-in-place", Product([p for p in pairs if p[0] != p[1]][::3], [1, 2]), exec_rigid_inplace, describe=describe_rigid,
                           expect=("analysis-follows-in-place-edit", "neighbour-id", "distance-value"))
    return [brute, brute_idx, ids_restart, rigid, rigid_inplace]
