"""C04 — STOPGAP <-> cryoCAT conversion is a lossless renaming with parity half-sets.

Families: export in memory (static convert_to_sg_motl, also on frames with a non-default index), import in memory
(STOPGAP-form frames built here), export through a .star file (three writers x three loaders x update_coord x
reset_index x list history), import from STOPGAP files written by the independent writer of mc/oracles/startok.py.
"""
import hashlib

import numpy as np
import pandas as pd

from ..engine import Family, HarnessError
from ..space import Listed, ordered_selections
from ..motlgen import COLS, PALETTE, frame
from ..oracles import emfmt, startok

RULE = (
    "cases = subtomogram-id sequence (every ordered selection of 1..4 ids from a non-sequential palette of both "
    "parities; thorough also 5 ids and 300 rows) x configuration (index kind | writer x history x update_coord x "
    "reset_index x loader | column order x token format x loader); every cell of the list holds a palette value that "
    "encodes (row, field), so any swap of fields or rows is visible.  Non-trivial = more than one row, or a non-default "
    "index / permuted column order / update_coord / reset_index / non-plain input or token style is involved.  Distinct = distinct case "
    "descriptions; outcome = digest of what the library produced (frame values / file bytes)."
)
BOUNDS = {
    "quick": "N in 1..4 (64 ordered id selections from {7,2,10,3}); export-in-memory: 6 index kinds (default, offset, gaps, reversed, after remove_feature, piece of split_by_feature) x reset on/off; import-in-memory: 4 column "
             "orders x 2 index kinds x 5 entry points; via-file: 3 writers (7 input/history variants) x update_coord x reset_index x 3 loaders; "
             "own-file: 4 column orders x 4 token/layout styles x 5 loaders",
    "thorough": "N in 1..5 (325 ordered id selections from {7,2,10,3,16}) plus 300-row lists with a non-sequential id permutation; same configuration products",
}
ASSUMPTIONS = [
    "float64 tables with finite values inside the float32 range (lists also travel through EM files); subtomogram numbers are positive integers (parity defined)",
    "the 14 shared fields and their STOPGAP names are my own copy of the documented table (not StopgapMotl.pairs)",
    "STAR precision: |file or re-loaded value - list value| <= 0.5e-6 (+4 ulp); in-memory copies must be exactly equal",
    "update_coord=True is judged as C05 states it: x,y,z integral, |shift| <= 0.5, x+shift preserved; the direction of half-integer ties is not judged",
    "column order of the exported STOPGAP table, the six non-shared fields and the halfset of imported lists are not pinned by the statement and not judged",
]
BUDGET_S = {"quick": 400, "thorough": 3000}

EPS = float(np.finfo(np.float64).eps)

# independent copy of the documented renaming (cryoCAT field, STOPGAP field) and of STOPGAP's column order
PAIRS = [
    ("subtomo_id", "subtomo_num"), ("tomo_id", "tomo_num"), ("object_id", "object"),
    ("x", "orig_x"), ("y", "orig_y"), ("z", "orig_z"), ("score", "score"),
    ("shift_x", "x_shift"), ("shift_y", "y_shift"), ("shift_z", "z_shift"),
    ("phi", "phi"), ("psi", "psi"), ("theta", "the"), ("class", "class"),
]
EM2SG = dict(PAIRS)
FIELDS = [p[0] for p in PAIRS]
SG_ORDER = ["motl_idx", "tomo_num", "object", "subtomo_num", "halfset", "orig_x", "orig_y", "orig_z", "score",
            "x_shift", "y_shift", "z_shift", "phi", "psi", "the", "class"]
POSF = ["x", "y", "z", "shift_x", "shift_y", "shift_z"]
AXES = [("x", "shift_x"), ("y", "shift_y"), ("z", "shift_z")]

POS = [10.0, 7.25, -3.5, 123456.789012345, 2.5, -0.5, 1e16 + 2, 0.49999999999999994, -11.5, 0.0]
SHIFT = [0.3, -0.4, 0.0, 0.5, -0.5, 1.75, -2.25, 1e-7, 0.26]
REMOVE_CLASS = 99.0


def cell_value(r, c, seed):
    k = r * 20 + c
    p = PALETTE[(k + 7 * seed) % len(PALETTE)]
    if abs(p) > 1e30:
        return p * (1.0 + (k % 400) / 4096.0)  # stays inside the float32 range (lists also travel through EM files)
    return p * (1.0 + (k % 4093) / 1024.0) if p != 0 else p


def make_row(r, sid, seed):
    row = {f: cell_value(r, c, seed) for c, f in enumerate(COLS)}
    jit = 1.0 + 0.0137 * seed
    for a, (xf, sf) in enumerate(AXES):
        row[xf] = POS[(3 * r + a + seed) % len(POS)] * jit
        row[sf] = SHIFT[(5 * r + 2 * a + seed) % len(SHIFT)] * jit
    row["subtomo_id"] = float(sid)
    return row


def make_rows(ids, seed):
    return [make_row(r, sid, seed) for r, sid in enumerate(ids)]


def want_of(rows, f32=False):
    """field -> float64 array of what the list holds (after float32 rounding if it travelled through an EM file)."""
    out = {}
    for f in FIELDS:
        a = np.array([r[f] for r in rows], dtype=np.float64)
        out[f] = a.astype(np.float32).astype(np.float64) if f32 else a
    return out


def tol6(a, k=1):
    return k * 0.5e-6 * (1.0 + 1e-6) + 4.0 * EPS * np.abs(a)


def group(fields):
    """Stable name of a set of differing fields (part of the violation signature)."""
    return "many" if len(fields) > 2 else ",".join(fields)


def judge_fields(obs, site, stage, cls, got, want, fields, approx):
    """got/want: field -> array.  approx: None (exact copy) or k (STAR precision, k rounded quantities)."""
    nanf = [f for f in fields if np.isnan(got[f]).any()]
    obs.fire(f"{stage}-field-nan", f"{stage}-field-value")
    if nanf:
        obs.fail(site, f"{stage}-field-nan:{group(nanf)}", f"NaN in {nanf}: e.g. {nanf[0]} = {got[nanf[0]].tolist()[:4]}, list holds {want[nanf[0]].tolist()[:4]}", cls)
    bad = []
    for f in fields:
        if f in nanf:
            continue
        g, w = got[f], want[f]
        ok = np.array_equal(g, w) if approx is None else bool(np.all(np.abs(g - w) <= tol6(w, approx)))
        if not ok:
            bad.append(f)
    if bad:
        f = bad[0]
        obs.fail(site, f"{stage}-field-value:{group(bad)}", f"{f}: got {got[f].tolist()[:4]}, list holds {want[f].tolist()[:4]} (fields differing: {bad})", cls)
    return not nanf and not bad


def judge_updated(obs, site, stage, cls, got, want, file_precision):
    """update_coordinates as C05 states it (tie direction not judged)."""
    n0 = len(obs.violations)
    _judge_updated(obs, site, stage, cls, got, want, file_precision)
    return len(obs.violations) == n0


def _judge_updated(obs, site, stage, cls, got, want, file_precision):
    for xf, sf in AXES:
        x1, s1, x0, s0 = got[xf], got[sf], want[xf], want[sf]
        if np.isnan(x1).any() or np.isnan(s1).any():
            obs.fail(site, f"{stage}-field-nan:{xf},{sf}", f"NaN in updated {xf}/{sf}", cls)
            continue
        obs.check(bool(np.all(x1 == np.rint(x1))), site, f"{stage}-updated-integral", lambda: f"{xf} = {x1.tolist()[:4]} after update_coord", cls)
        slack = 0.5e-6 if file_precision else 0.0
        obs.check(bool(np.all(np.abs(s1) <= 0.5 + slack)), site, f"{stage}-updated-shift-half", lambda: f"{sf} = {s1.tolist()[:4]} after update_coord", cls)
        c0 = x0 + s0
        tol = 4.0 * EPS * np.maximum(np.maximum(np.abs(x0), np.abs(s0)), 1.0) + (tol6(c0, 2) if file_precision else 0.0)
        obs.check(bool(np.all(np.abs((x1 + s1) - c0) <= tol)), site, f"{stage}-updated-complete-position",
                  lambda: f"{xf}+{sf}: {(x1 + s1).tolist()[:4]} after update_coord, list holds {c0.tolist()[:4]}", cls)


def em_fields(df):
    """cryoCAT-form frame -> field -> float array (by NAME), or None if a shared field is missing."""
    if any(f not in df.columns for f in FIELDS):
        return None
    return {f: np.asarray(df[f], dtype=np.float64) for f in FIELDS}


def sg_fields(df):
    if any(s not in df.columns for s in EM2SG.values()):
        return None
    return {f: np.asarray(df[s], dtype=np.float64) for f, s in PAIRS}


def halfsets(ids):
    return ["A" if int(i) % 2 == 0 else "B" for i in ids]


# ----------------------------------------------------------------------------------------------------------
# family 1: export in memory


INDEX_KINDS = ["default", "offset", "gaps", "reversed", "filtered", "split-piece", "columns-reversed", "columns-rotated"]


def indexed_frame(rows, kind, obs):
    """A cryoCAT table holding `rows` in order, with the index a previous operation would leave behind."""
    n = len(rows)
    if kind == "filtered":
        from cryocat import cryomotl as cm

        extra = make_row(50, 1000, 0)
        extra["class"] = REMOVE_CLASS
        m = obs.lib("Motl.__init__", cm.Motl, frame([extra] + rows))
        obs.lib("Motl.remove_feature", m.remove_feature, "class", REMOVE_CLASS)
        return m.df
    if kind == "split-piece":
        from cryocat import cryomotl as cm

        # the list interleaved with foreign particles, then split by a non-shared field: the piece keeps labels 1,3,5,..
        mixed = []
        for r, row in enumerate(rows):
            other = make_row(60 + r, 2000 + r, 0)
            other["geom1"] = 2.0
            mixed += [other, dict(row, geom1=1.0)]
        m = obs.lib("Motl.__init__", cm.Motl, frame(mixed))
        pieces = obs.lib("Motl.split_by_feature", m.split_by_feature, "geom1")
        mine = [p for p in pieces if len(p.df) and float(p.df["geom1"].iloc[0]) == 1.0]
        if len(mine) != 1:
            raise HarnessError(f"split_by_feature returned {len(pieces)} pieces, {len(mine)} with the marker")
        return mine[0].df
    df = frame(rows)
    if kind == "columns-reversed":      # a valid particle table holds the 20 fields in ANY column order
        return df[list(df.columns[::-1])]
    if kind == "columns-rotated":
        return df[list(df.columns[7:]) + list(df.columns[:7])]
    if kind == "offset":
        df.index = list(range(1, n + 1))
    elif kind == "gaps":
        df.index = [2 * i + 1 for i in range(n)]
    elif kind == "reversed":
        df.index = list(range(n - 1, -1, -1))
    return df


def judge_sg_frame(obs, site, cls, sg, rows, ids, reset, stage="export"):
    want = want_of(rows)
    n = len(rows)
    if not obs.check(isinstance(sg, pd.DataFrame) and len(sg) == n, site, f"{stage}-rows", lambda: f"{len(sg)} rows for {n} particles", cls):
        return False
    got = sg_fields(sg)
    if not obs.check(got is not None and "halfset" in sg.columns and "motl_idx" in sg.columns, site, f"{stage}-columns",
                     lambda: f"columns {list(sg.columns)}", cls):
        return False
    judge_fields(obs, site, stage, cls, got, want, FIELDS, None)
    if not np.array_equal(got["subtomo_id"], want["subtomo_id"]):
        return False  # reported above; halfset and motl_idx are functions of a number that did not arrive
    hs = [str(h) for h in sg["halfset"].tolist()]
    obs.check(hs == halfsets(ids), site, f"{stage}-halfset", lambda: f"halfset {hs} for subtomogram numbers {list(ids)}", cls)
    mi = np.asarray(sg["motl_idx"], dtype=np.float64)
    wmi = np.arange(1, n + 1, dtype=np.float64) if reset else np.array(ids, dtype=np.float64)
    obs.check(np.array_equal(mi, wmi), site, f"{stage}-motl-idx", lambda: f"motl_idx {mi.tolist()}, expected {wmi.tolist()} (reset_index={reset})",
              cls + ("|reset" if reset else ""))
    return True


def execute_export(case, obs):
    from cryocat import cryomotl as cm

    ids, kind, reset, seed = case
    rows = make_rows(ids, seed)
    df = indexed_frame(rows, kind, obs)
    nondefault = list(df.index) != list(range(len(df)))
    cls = "non-default-index" if nondefault else "default-index"
    obs.nontrivial = len(ids) > 1 or nondefault or reset
    site = "StopgapMotl.convert_to_sg_motl"
    sg = obs.lib(site, cm.StopgapMotl.convert_to_sg_motl, df, reset)
    judge_sg_frame(obs, site, cls, sg, rows, ids, reset)
    obs.outcome = digest_frame(sg)


def digest_frame(df):
    h = hashlib.blake2b(digest_size=8)
    h.update(repr(list(df.columns)).encode())
    for c in df.columns:
        h.update(repr(df[c].tolist()).encode())
    return h.hexdigest()


# ----------------------------------------------------------------------------------------------------------
# family 2: import in memory (STOPGAP-form frame built here)


def sg_order(kind):
    if kind == "documented":
        return list(SG_ORDER)
    if kind == "reversed":
        return list(reversed(SG_ORDER))
    if kind == "rotated":
        return SG_ORDER[5:] + SG_ORDER[:5]
    if kind == "halfset-first":
        return ["halfset"] + [c for c in SG_ORDER if c != "halfset"]
    raise ValueError(kind)


ORDERS = ["documented", "reversed", "rotated", "halfset-first"]
IMPORT_API = ["StopgapMotl(sg_df)", "Motl.load(sg_df,'stopgap')", "stopgap2emmotl(sg_df)", "StopgapMotl(StopgapMotl)", "stopgap2emmotl(StopgapMotl)"]


def make_sg_frame(rows, ids, order, index_kind):
    data = {}
    for col in order:
        if col == "halfset":
            data[col] = pd.Series(halfsets(ids), dtype="str")
        elif col == "motl_idx":
            data[col] = np.arange(1, len(rows) + 1, dtype=np.int64)
        else:
            f = next(e for e, s in PAIRS if s == col)
            data[col] = np.array([r[f] for r in rows], dtype=np.float64)
    df = pd.DataFrame(data, columns=order)
    if index_kind == "gaps":
        df.index = [2 * i + 1 for i in range(len(rows))]
    return df


def execute_import(case, obs):
    from cryocat import cryomotl as cm

    ids, order, index_kind, api, seed = case
    rows = make_rows(ids, seed)
    sg = make_sg_frame(rows, ids, sg_order(order), index_kind)
    cls = "non-default-index" if index_kind != "default" else "default-index"
    obs.nontrivial = len(ids) > 1 or order != "documented" or index_kind != "default"
    site = api
    if api == "StopgapMotl(sg_df)":
        m = obs.lib(site, cm.StopgapMotl, sg)
    elif api == "Motl.load(sg_df,'stopgap')":
        m = obs.lib(site, cm.Motl.load, sg, "stopgap")
    elif api == "stopgap2emmotl(sg_df)":
        m = obs.lib(site, cm.stopgap2emmotl, sg)
    elif api == "StopgapMotl(StopgapMotl)":
        m = obs.lib(site, cm.StopgapMotl, obs.lib("StopgapMotl(sg_df)", cm.StopgapMotl, sg))
    else:
        m = obs.lib(site, cm.stopgap2emmotl, obs.lib("StopgapMotl(sg_df)", cm.StopgapMotl, sg))
    judge_motl(obs, site, "import", cls, m, rows, None, False)
    obs.outcome = digest_frame(m.df[FIELDS]) if em_fields(m.df) is not None else ("bad",)


def judge_motl(obs, site, stage, cls, m, rows, approx, updated, f32=False):
    want = want_of(rows, f32)
    n = len(rows)
    df = getattr(m, "df", None)
    if not obs.check(isinstance(df, pd.DataFrame) and len(df) == n, site, f"{stage}-rows",
                     lambda: f"{None if df is None else len(df)} rows for {n} particles", cls):
        return False
    got = em_fields(df)
    if not obs.check(got is not None, site, f"{stage}-columns", lambda: f"columns {list(df.columns)}", cls):
        return False
    if updated:
        ok = judge_fields(obs, site, stage, cls, got, want, [f for f in FIELDS if f not in POSF], approx)
        ok = ok and judge_updated(obs, site, stage, cls, got, want, bool(approx))
    else:
        ok = judge_fields(obs, site, stage, cls, got, want, FIELDS, approx)
    return ok


# ----------------------------------------------------------------------------------------------------------
# family 3: export through a file


WRITERS = [  # (writer, input / history variant)
    ("StopgapMotl.write_out", "none"), ("StopgapMotl.write_out", "rm-first"), ("StopgapMotl.write_out", "rm-middle"),
    ("StopgapMotl.write_out", "rm-last"), ("StopgapMotl.write_out", "columns-rotated"), ("StopgapMotl.write_out", "zero-shifts"),
    ("emmotl2stopgap", "df-zero-shifts"), ("emmotl2stopgap", "df"), ("emmotl2stopgap", "EmMotl"), ("emmotl2stopgap", "em-file"),
    ("Motl.write_out(stopgap)", "none"),
]
LOADERS = ["StopgapMotl(path)", "Motl.load(path,'stopgap')", "stopgap2emmotl(path)"]


def em_bytes(rows):
    a = np.zeros((20, len(rows), 1), dtype=np.float32)
    for r, row in enumerate(rows):
        for c, f in enumerate(COLS):
            a[c, r, 0] = np.float32(row[f])
    return emfmt.build(a)


def judge_sg_file(obs, site, cls, text, rows, ids, reset, updated, f32):
    """Independent reading of the exported .star text.  -> True if its structure is the expected one."""
    n = len(rows)
    try:
        blocks = startok.parse(text)
    except startok.StarError as e:
        obs.fail(site, "file-parses", str(e), cls)
        return False
    obs.fire("file-parses")
    if not obs.check(len(blocks) == 1 and blocks[0]["name"] == "data_stopgap_motivelist" and blocks[0]["loop"], site, "file-block",
                     lambda: f"blocks {[b['name'] for b in blocks]}", cls):
        return False
    b = blocks[0]
    obs.check(all(x is None for x in b["numbers"]), site, "file-labels-unnumbered", lambda: f"label numbers {b['numbers']}", cls)
    labs = b["labels"]
    if not obs.check(sorted(labs) == sorted(SG_ORDER), site, "file-columns", lambda: f"labels {labs}", cls):
        return False
    if not obs.check(len(b["rows"]) == n and all(len(r) == len(labs) for r in b["rows"]), site, "file-rows",
                     lambda: f"{len(b['rows'])} rows of widths {sorted(set(map(len, b['rows'])))} for {n} particles", cls):
        return False
    col = {lab: [r[j] for r in b["rows"]] for j, lab in enumerate(labs)}
    nonnum = [s for _, s in PAIRS if not all(startok.is_numeric(t) for t in col[s])]
    if not obs.check(not nonnum, site, "file-numeric-tokens", lambda: f"non-numeric tokens in {nonnum}: {col[nonnum[0]][:4]}", cls):
        return False
    got = {f: np.array([float(t) for t in col[s]], dtype=np.float64) for f, s in PAIRS}
    want = want_of(rows, f32)
    if updated:
        okf = judge_fields(obs, site, "file", cls, got, want, [f for f in FIELDS if f not in POSF], 1)
        if okf:
            okf = judge_updated(obs, site, "file", cls, got, want, True)
    else:
        okf = judge_fields(obs, site, "file", cls, got, want, FIELDS, 1)
    if not okf:
        return False  # reported; halfset/motl_idx and the re-load would only repeat it
    obs.check(col["halfset"] == halfsets(ids), site, "file-halfset", lambda: f"halfset {col['halfset']} for subtomogram numbers {list(ids)}", cls)
    wmi = list(range(1, n + 1)) if reset else [int(i) for i in ids]
    okmi = all(startok.is_numeric(t) for t in col["motl_idx"]) and [float(t) for t in col["motl_idx"]] == [float(v) for v in wmi]
    okmi = obs.check(okmi, site, "file-motl-idx", lambda: f"motl_idx {col['motl_idx']}, expected {wmi} (reset_index={reset})", cls + ("|reset" if reset else ""))
    return okmi


def execute_file(case, obs):
    from cryocat import cryomotl as cm

    ids, (writer, variant), update, reset, loader, seed = case
    rows = make_rows(ids, seed)
    if variant.endswith("zero-shifts"):
        # fractional positions with all three shifts exactly 0 on every particle: update_coord must still round them
        for row in rows:
            for _xf, sf in AXES:
                row[sf] = 0.0
    n = len(rows)
    f32 = variant == "em-file"
    cls = "default-index"
    path = "c04_out.star"
    obs.nontrivial = n > 1 or update or reset or variant not in ("none", "df")
    if writer == "StopgapMotl.write_out":
        if variant in ("none", "zero-shifts"):
            m = obs.lib("StopgapMotl(df)", cm.StopgapMotl, frame(rows))
        elif variant == "columns-rotated":
            df0 = frame(rows)
            m = obs.lib("StopgapMotl(df)", cm.StopgapMotl, df0[list(df0.columns[7:]) + list(df0.columns[:7])])
        else:
            pos = {"rm-first": 0, "rm-middle": (n + 1) // 2, "rm-last": n}[variant]
            extra = make_row(50, 1000, seed)
            extra["class"] = REMOVE_CLASS
            m = obs.lib("StopgapMotl(df)", cm.StopgapMotl, frame(rows[:pos] + [extra] + rows[pos:]))
            obs.lib("Motl.remove_feature", m.remove_feature, "class", REMOVE_CLASS)
            if list(m.df.index) != list(range(len(m.df))):
                cls = "non-default-index"
        obs.lib(writer, m.write_out, path, update_coord=update, reset_index=reset)
    elif writer == "Motl.write_out(stopgap)":
        m = obs.lib("Motl.__init__", cm.Motl, frame(rows))
        obs.lib(writer, m.write_out, path, "stopgap")
    else:
        if variant in ("df", "df-zero-shifts"):
            src = frame(rows)
        elif variant == "EmMotl":
            src = obs.lib("EmMotl.__init__", cm.EmMotl, frame(rows))
        else:
            with open("c04_in.em", "wb") as f:
                f.write(em_bytes(rows))
            src = "c04_in.em"
        ret = obs.lib(writer, cm.emmotl2stopgap, src, path, update_coordinates=update, reset_index=reset)
        # the returned object is the (possibly updated) list itself
        judge_motl(obs, writer, "helper-return", cls, ret, rows, None, update, f32)
    try:
        with open(path, "rb") as f:
            raw = f.read()
    except OSError:
        obs.fail(writer, "file-written", "no file was written", cls)
        return
    obs.outcome = hashlib.blake2b(raw, digest_size=8).hexdigest()
    if not judge_sg_file(obs, writer, cls, raw.decode("utf-8", errors="replace"), rows, ids, reset, update, f32):
        return
    if loader == "StopgapMotl(path)":
        back = obs.lib(loader, cm.StopgapMotl, path)
    elif loader == "Motl.load(path,'stopgap')":
        back = obs.lib(loader, cm.Motl.load, path, "stopgap")
    else:
        back = obs.lib(loader, cm.stopgap2emmotl, path)
    # write -> load reproduces the 14 fields of the list to STAR precision (the writer's own deviations were judged above)
    judge_motl(obs, f"{writer}->{loader}", "load", cls, back, rows, 1, update, f32)


# ----------------------------------------------------------------------------------------------------------
# family 4: import from STOPGAP files written by the independent writer


def fmt_token(v, style):
    v = float(v)
    if style == "repr":
        return repr(v)
    if style == "fixed6":
        return f"{v:.6f}" if abs(v) < 1e15 else repr(v)
    if style == "sci":
        return f"{v:.10e}"
    if style == "int-where-integral":
        return str(int(v)) if v == int(v) and abs(v) < 1e15 else repr(v)
    raise ValueError(style)


STYLES = [  # (token format, layout of the text)
    ("repr", dict(post_labels=("",), sep="\t")),  # what STOPGAP/cryoCAT write
    ("fixed6", dict(post_labels=(), sep="   ", row_lead=" ", row_trail="  ")),
    ("sci", dict(pre=("# stopgap motivelist", ""), post_labels=("",), sep=" \t", eol="\r\n", final_newline=False)),
    ("int-where-integral", dict(name_gap=(), post_labels=("# particles",), sep=" ")),
]
OWN_LOADERS = ["StopgapMotl(path)", "Motl.load(path,'stopgap')", "stopgap2emmotl(path)", "stopgap2emmotl(path,update)", "stopgap2emmotl(path,out.em)"]


def execute_own(case, obs):
    from cryocat import cryomotl as cm

    ids, order, style, loader, seed = case
    fmt, layout = STYLES[style]
    rows = make_rows(ids, seed)
    n = len(rows)
    labels = sg_order(order)
    hs = halfsets(ids)
    trows = []
    for r, row in enumerate(rows):
        toks = []
        for lab in labels:
            if lab == "halfset":
                toks.append(hs[r])
            elif lab == "motl_idx":
                toks.append(str(r + 1))
            else:
                toks.append(fmt_token(row[next(e for e, s in PAIRS if s == lab)], fmt))
        trows.append(toks)
    text = startok.build([{"name": "data_stopgap_motivelist", "labels": labels, "rows": trows}], numbered=False, **layout)
    with open("c04_in.star", "wb") as f:
        f.write(text.encode("utf-8"))
    # the list the file describes = the values of its tokens
    frows = [dict({e: float(trows[r][labels.index(s)]) for e, s in PAIRS}) for r in range(n)]
    obs.nontrivial = n > 1 or order != "documented" or style != 0
    cls = f"{order}-order"
    site = loader
    updated = False
    if loader == "StopgapMotl(path)":
        m = obs.lib(site, cm.StopgapMotl, "c04_in.star")
    elif loader == "Motl.load(path,'stopgap')":
        m = obs.lib(site, cm.Motl.load, "c04_in.star", "stopgap")
    elif loader == "stopgap2emmotl(path)":
        m = obs.lib(site, cm.stopgap2emmotl, "c04_in.star")
    elif loader == "stopgap2emmotl(path,update)":
        m = obs.lib(site, cm.stopgap2emmotl, "c04_in.star", None, True)
        updated = True
    else:
        m = obs.lib(site, cm.stopgap2emmotl, "c04_in.star", "c04_out.em")
    # parsed floats may differ from the token's correctly rounded value by a few ulp: approx = 0 rounded quantities
    judge_motl(obs, site, "own-file", cls, m, frows, 0, updated)
    if loader == "stopgap2emmotl(path,out.em)":
        try:
            em = emfmt.parse("c04_out.em")
        except (OSError, emfmt.EMError) as e:
            obs.fail(site, "em-out-valid", str(e), cls)
            em = None
        if em is not None and obs.check((em["nx"], em["ny"], em["nz"]) == (20, n, 1) and em["code"] == 5, site, "em-out-header",
                                        lambda: f"type {em['code']} dims {(em['nx'], em['ny'], em['nz'])}", cls):
            disk = np.asarray(em["flat"], dtype=np.float64).reshape(n, 20)
            want = want_of(frows, f32=True)
            # float32 of a value parsed within a few ulp: allow one float32 ulp
            bad = [f for f in FIELDS if not np.all(np.abs(disk[:, COLS.index(f)] - want[f]) <= np.abs(want[f]) * 2.0 ** -23)]
            obs.fire("em-out-values")
            if bad:
                obs.fail(site, "em-out-values:" + group(bad), f"fields {bad} differ in the EM file", cls)
    obs.outcome = digest_frame(m.df[FIELDS]) if em_fields(m.df) is not None else ("bad",)


# ----------------------------------------------------------------------------------------------------------


def id_sequences(tier):
    pal = [7, 2, 10, 3] if tier == "quick" else [7, 2, 10, 3, 16]
    seqs = list(ordered_selections(pal, 1, len(pal)))
    if tier == "thorough":
        seqs.append(tuple(((k * 7) % 303) + 1 for k in range(300)))  # 300 distinct non-sequential numbers from 1..303
    return seqs


def families(tier, seed):
    seqs = id_sequences(tier)
    big = [s for s in seqs if len(s) > 10]
    small = [s for s in seqs if len(s) <= 10]

    exp = [(ids, kind, reset, seed) for ids in seqs for kind in INDEX_KINDS for reset in (False, True)]
    imp = [(ids, order, ik, api, seed) for ids in seqs for order in ORDERS for ik in ("default", "gaps") for api in IMPORT_API]
    fil = []
    for ids in seqs:
        for w in WRITERS:
            if w[1] == "rm-middle" and len(ids) < 2:
                continue
            opts = [(False, False)] if w[0] == "Motl.write_out(stopgap)" else [(u, r) for u in (False, True) for r in (False, True)]
            for (u, r) in opts:
                for loader in LOADERS:
                    fil.append((ids, w, u, r, loader, seed))
    own = [(ids, order, st, loader, seed) for ids in small for order in ORDERS for st in range(len(STYLES)) for loader in OWN_LOADERS]
    own += [(ids, order, st, loader, seed) for ids in big for order in ("documented", "reversed") for st in (0, 2) for loader in OWN_LOADERS]

    def d_exp(c):
        return {"subtomo_ids": short(c[0]), "index": c[1], "reset_index": c[2]}

    def d_imp(c):
        return {"subtomo_ids": short(c[0]), "column_order": c[1], "index": c[2], "entry": c[3]}

    def d_fil(c):
        return {"subtomo_ids": short(c[0]), "writer": c[1][0], "input_or_history": c[1][1], "update_coord": c[2], "reset_index": c[3], "loader": c[4]}

    def d_own(c):
        return {"subtomo_ids": short(c[0]), "column_order": c[1], "token_format": STYLES[c[2]][0], "layout": {k: (list(v) if isinstance(v, tuple) else v) for k, v in STYLES[c[2]][1].items()}, "loader": c[3]}

    return [
        Family("export-in-memory", Listed(exp), execute_export, describe=d_exp,
               expect=("export-rows", "export-columns", "export-field-nan", "export-field-value", "export-halfset", "export-motl-idx")),
        Family("import-in-memory", Listed(imp), execute_import, describe=d_imp,
               expect=("import-rows", "import-columns", "import-field-nan", "import-field-value")),
        Family("export-via-file", Listed(fil), execute_file, describe=d_fil,
               expect=("file-parses", "file-block", "file-labels-unnumbered", "file-columns", "file-rows", "file-numeric-tokens", "file-field-value",
                       "file-halfset", "file-motl-idx", "file-updated-integral", "file-updated-shift-half", "file-updated-complete-position",
                       "load-rows", "load-field-value", "load-updated-complete-position", "helper-return-field-value")),
        Family("import-own-file", Listed(own), execute_own, describe=d_own,
               expect=("own-file-rows", "own-file-field-value", "own-file-updated-integral", "own-file-updated-complete-position", "em-out-header", "em-out-values")),
    ]


def short(ids):
    ids = list(ids)
    return ids if len(ids) <= 10 else {"n": len(ids), "first": ids[:5], "rule": "((k*7) % 303)+1"}
