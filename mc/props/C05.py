"""C05 — pose bookkeeping: position x+shift and orientation transform rigidly (history property, BFS)."""
import numpy as np

from ..bfs import BFSFamily, BFSSpec
from ..motlgen import COLS, frame, df_key
from ..oracles import so3

RULE = (
    "explicit-state BFS over operation histories on a live 4-particle Motl; after every transition the complete "
    "position (x+shift) and the rotation matrix (independent zxz matrices) of every particle are compared with a "
    "reference model (p <- f*p; p <- p + R*s; R <- R*Q; p_z <- D_z+1-p_z and R <- M R M; identity) and the non-pose "
    "fields must be bit-identical.  Non-trivial transition = the DataFrame state changed."
)
BOUNDS = {
    "quick": "16 operation instances, every history of depth <= 4 from four initial lists (default labels; permuted and gapped labels; tomogram 2 only; reordered columns), de-duplicated on the complete state (list table + the caller's persistent dimension tables)",
    "thorough": "16 operation instances, every history of depth <= 6 from the default and the permuted-gapped list, of depth <= 5 from the tomogram-2-only and the reordered-columns list",
}
ASSUMPTIONS = [
    "positions compared with absolute tolerance 1e-8, rotation matrices with 1e-9 (analytic error of as_euler/from_euler round trips is ~1e-13 per step)",
    "particles: generic, theta=0 gimbal lock with half-integer coordinates, out-of-range angles with shifts of both signs, theta=180 gimbal lock; two tomograms",
]
BUDGET_S = {"quick": 300, "thorough": 3600}

POSE = ["x", "y", "z", "shift_x", "shift_y", "shift_z", "phi", "psi", "theta"]
OTHER = [c for c in COLS if c not in POSE]
M = np.diag([1.0, 1.0, -1.0])


def particles(seed):
    j = 0.013 * seed
    rows = [
        dict(subtomo_id=5, tomo_id=1, object_id=1, x=10, y=20, z=30, shift_x=0.3 + j, shift_y=-0.2, shift_z=0.4, phi=30 + j, theta=50, psi=-70, score=0.5, geom1=1.5, geom3=3, geom4=4, geom5=5, geom2=2, subtomo_mean=0.25),
        dict(subtomo_id=2, tomo_id=1, object_id=2, x=2.5, y=-3.5, z=0.5, shift_x=0, shift_y=0, shift_z=0, phi=40, theta=0, psi=25 + j, score=0.25, geom1=-1, geom3=33, geom4=44, geom5=55, geom2=22, subtomo_mean=0.5),
        dict(subtomo_id=9, tomo_id=2, object_id=1, x=-4, y=7, z=12, shift_x=0.5, shift_y=-0.5, shift_z=1.75 + j, phi=-200, theta=200, psi=400, score=0.75, geom1=7, geom3=1, geom4=2, geom5=3, geom2=4, subtomo_mean=0.75),
        dict(subtomo_id=4, tomo_id=2, object_id=3, x=6, y=1, z=9, shift_x=-0.25, shift_y=0.125, shift_z=-0.4, phi=10, theta=180, psi=20, score=0.1, geom1=8, geom3=9, geom4=10, geom5=11, geom2=12, subtomo_mean=1.0),
    ]
    for r in rows:
        r["class"] = 1 + (r["subtomo_id"] % 2)
    return rows


def generic_Q(seed):
    return so3.zxz(33.0 + 7 * seed, 71.0, -112.0 - 3 * seed)


OPS = [
    ("update_coordinates",),
    ("scale", 2.0), ("scale", 0.5),
    ("shift", (1.0, 0.0, 0.0)), ("shift", (0.0, -2.5, 1.0)), ("shift-copy", (0.5, 1.0, -2.0)),
    ("rotate", "Rz90"), ("rotate", "generic"),
    ("flip", "none"), ("flip", "single"), ("flip", "single-array"), ("flip", "table"), ("flip", "single-df"), ("flip", "table-df"), ("flip", "table-unsorted"),
    ("canonical",),
]
DIM_SINGLE = [40.0, 50.0, 60.0]
DIM_TABLE = np.array([[1.0, 40.0, 50.0, 60.0], [2.0, 44.0, 55.0, 66.0]])


def pose_of(df):
    """complete positions and rotation matrices computed independently from the table."""
    a = {c: np.asarray(df[c], dtype=float) for c in POSE}
    p = np.stack([a["x"] + a["shift_x"], a["y"] + a["shift_y"], a["z"] + a["shift_z"]], axis=1)
    R = np.stack([so3.zxz(a["phi"][i], a["theta"][i], a["psi"][i]) for i in range(len(df))])
    return p, R


class Spec(BFSSpec):
    def __init__(self, seed, lists=None):
        self.seed = seed
        self.lists = lists   # indices of the initial lists to start from (None = all four)
        self.rows = particles(seed)
        self.Q = {"Rz90": so3.Rz(90.0), "generic": generic_Q(seed)}

    def initial(self):
        from cryocat import cryomotl as cm

        import pandas as pd

        out = []
        PER_AXIS = ["score", "x", "shift_x", "phi", "y", "shift_y", "theta", "z", "shift_z", "psi", "geom1", "geom2", "subtomo_id", "tomo_id",
                    "object_id", "subtomo_mean", "geom3", "geom4", "geom5", "class"]
        for name, order, labels, cols in (("list4", [0, 1, 2, 3], [0, 1, 2, 3], None),
                                          ("list4-permuted-gapped-index", [2, 0, 3, 1], [7, 0, 12, 3], None),
                                          ("list2-tomogram-2-only", [2, 3], [0, 1], None),           # one tomogram, not the table's first row
                                          ("list4-per-axis-column-order", [0, 1, 2, 3], [0, 1, 2, 3], PER_AXIS)):
            df = frame([self.rows[i] for i in order], columns=cols)
            df.index = labels  # what sort_values / remove_feature / reset_index=False leave behind
            m = cm.Motl(df)
            p, R = pose_of(m.df)
            # the caller's own dimension tables live as long as the list and are passed again and again
            dims = {"single-df": pd.DataFrame([DIM_SINGLE], columns=["x", "y", "z"]),
                    "table-df": pd.DataFrame(DIM_TABLE.copy(), columns=["tomo_id", "x", "y", "z"])}
            out.append((name, {"m": m, "p": p, "R": R, "dims": dims}))
        if self.lists is not None:
            out = [out[i] for i in self.lists]
        return out

    def ops(self, st):
        return OPS

    def key(self, st):
        return type(st["m"]).__name__ + "|" + df_key(st["m"].df) + "|" + "|".join(df_key(st["dims"][k]) for k in sorted(st["dims"]))

    def mkey(self, st):
        return (np.round(st["p"], 6).tobytes(), np.round(st["R"], 6).tobytes())

    def step(self, st, op, obs):
        from scipy.spatial.transform import Rotation as SR

        m = st["m"]
        df0 = m.df.copy()
        p, R = st["p"].copy(), st["R"].copy()
        kind = op[0]
        tomo = np.asarray(df0["tomo_id"], dtype=float)
        pre_shift_z = np.asarray(df0["shift_z"], dtype=float)
        if kind == "update_coordinates":
            site = "update_coordinates"
            obs.lib(site, m.update_coordinates)
        elif kind == "scale":
            site = "scale_coordinates"
            obs.lib(site, m.scale_coordinates, op[1])
            p = p * op[1]
        elif kind == "shift":
            site = "shift_positions"
            s = np.array(op[1], dtype=float)
            obs.lib(site, m.shift_positions, s)
            p = p + np.einsum("nij,j->ni", R, s)
        elif kind == "shift-copy":
            # inplace=False: the shifted list is a new object and the list it came from keeps its poses
            site = "shift_positions"
            s = np.array(op[1], dtype=float)
            key0 = df_key(m.df)
            new = obs.lib(site, m.shift_positions, s, inplace=False)
            obs.check(df_key(m.df) == key0, site, "inplace-false-original-unchanged", "shift_positions(inplace=False) changed the list it was called on")
            if not obs.check(new is not None and new is not m and hasattr(new, "df"), site, "inplace-false-returns-new-list", f"returned {type(new).__name__}"):
                return None
            m = new
            p = p + np.einsum("nij,j->ni", R, s)
        elif kind == "rotate":
            site = "apply_rotation"
            Q = self.Q[op[1]]
            obs.lib(site, m.apply_rotation, SR.from_matrix(Q))
            R = np.einsum("nij,jk->nik", R, Q)
        elif kind == "flip":
            site = "flip_handedness"
            if op[1] == "none":
                obs.lib(site, m.flip_handedness)
            elif op[1] == "single":
                obs.lib(site, m.flip_handedness, list(DIM_SINGLE))
                p[:, 2] = DIM_SINGLE[2] + 1 - p[:, 2]
            elif op[1] == "single-array":
                obs.lib(site, m.flip_handedness, np.array(DIM_SINGLE))
                p[:, 2] = DIM_SINGLE[2] + 1 - p[:, 2]
            elif op[1] == "single-df":
                obs.lib(site, m.flip_handedness, st["dims"]["single-df"])
                p[:, 2] = DIM_SINGLE[2] + 1 - p[:, 2]
            else:
                # "table-unsorted": the same per-tomogram table with its rows not in ascending tomo_id order
                arg = {"table": DIM_TABLE.copy(), "table-unsorted": DIM_TABLE[::-1].copy()}.get(op[1])
                obs.lib(site, m.flip_handedness, arg if arg is not None else st["dims"]["table-df"])
                for t, _, _, dz in DIM_TABLE:
                    sel = tomo == t
                    p[sel, 2] = dz + 1 - p[sel, 2]
            R = np.einsum("ij,njk,kl->nil", M, R, M)
        elif kind == "canonical":
            site = "make_angles_canonical"
            obs.lib(site, m.make_angles_canonical)
        else:
            raise ValueError(op)
        df1 = m.df
        okshape = sorted(df1.columns) == sorted(COLS) and len(df1) == len(df0)
        if okshape and list(df1.columns) != list(df0.columns):
            df1 = df1[list(df0.columns)]
        obs.check(okshape, site, "table-shape", lambda: f"columns {list(df1.columns)} rows {len(df1)}")
        if not okshape:
            return None
        gp, gR = pose_of(df1)
        # library accessors must agree with the independent reading of the table
        lc = obs.lib("get_coordinates", m.get_coordinates)
        lr = obs.lib("get_rotations", m.get_rotations)
        obs.check(np.allclose(lc, gp, atol=1e-10, rtol=0), "get_coordinates", "accessor-x-plus-shift", "get_coordinates() != x+shift")
        tomo1 = np.asarray(df1["tomo_id"], dtype=float)
        for t in (1, 2):
            lct = np.asarray(obs.lib("get_coordinates", m.get_coordinates, t), dtype=float).reshape(-1, 3)
            obs.check(lct.shape == gp[tomo1 == t].shape and np.allclose(lct, gp[tomo1 == t], atol=1e-10, rtol=0), "get_coordinates", "accessor-x-plus-shift",
                      lambda: f"get_coordinates({t}) != x+shift of the particles of tomogram {t}", cls="one-tomogram")
        obs.check(np.allclose(lr.as_matrix(), gR, atol=1e-9, rtol=0), "get_rotations", "accessor-zxz-matrix", "get_rotations() differs from Rz(psi)Rx(theta)Rz(phi)")
        dpos = np.abs(gp - p).max(axis=1)
        bad = dpos > 1e-8
        cls = ""
        if kind == "flip" and bad.any():
            if (pre_shift_z[bad] != 0).all() and not bad[pre_shift_z == 0].any():
                cls = "nonzero-shift_z"
        obs.check(not bad.any(), site, "complete-position", lambda: f"{op}: |dp| per particle {dpos.tolist()}; got {gp.tolist()} want {p.tolist()}", cls=cls)
        drot = np.abs(gR - R).reshape(len(R), -1).max(axis=1)
        obs.check((drot <= 1e-9).all(), site, "orientation", lambda: f"{op}: max |dR| per particle {drot.tolist()}")
        same_other = all(np.array_equal(np.asarray(df1[c], dtype=float), np.asarray(df0[c], dtype=float), equal_nan=True) for c in OTHER)
        obs.check(same_other, site, "non-pose-fields-unchanged", "a field other than x,y,z,shift_*,phi,psi,theta changed (or rows were reordered)")
        if kind == "update_coordinates":
            xyz = df1[["x", "y", "z"]].to_numpy(dtype=float)
            sh = df1[["shift_x", "shift_y", "shift_z"]].to_numpy(dtype=float)
            obs.check(np.array_equal(xyz, np.round(xyz)), site, "xyz-integral", lambda: f"x,y,z {xyz.tolist()}")
            obs.check((np.abs(sh) <= 0.5 + 1e-9).all(), site, "shift-within-half", lambda: f"shifts {sh.tolist()}")
        if kind in ("scale", "shift", "rotate", "canonical") or (kind == "flip"):
            # operations that must not touch the other half of the pose
            if kind in ("shift", "scale", "update_coordinates"):
                pass
        obs.nontrivial = df_key(df1) != df_key(df0)
        if kind == "flip" and op[1].endswith("-df"):
            d = st["dims"][op[1]]
            want = DIM_SINGLE if op[1] == "single-df" else DIM_TABLE
            obs.check(np.array_equal(d.to_numpy(dtype=float).reshape(np.shape(want)), np.asarray(want, dtype=float)), site, "caller-dimension-table-unmodified",
                      lambda: f"the caller's dimension table now reads {d.to_numpy().tolist()}")
        return {"m": m, "p": p, "R": R, "dims": st["dims"]}


def families(tier, seed):
    exp = ("complete-position", "orientation", "non-pose-fields-unchanged", "xyz-integral", "shift-within-half",
           "accessor-x-plus-shift", "accessor-zxz-matrix")
    if tier == "quick":
        return [BFSFamily("pose-histories", Spec(seed), max_depth=4, expect=exp)]
    # thorough: depth 6 from the two four-particle lists (default and permuted / gapped labels), depth 5 from the two other
    # representations (measured: depth 6 from all four lists is 6.3e6 transitions and does not finish inside the budget)
    return [BFSFamily("pose-histories", Spec(seed, lists=(0, 1)), max_depth=6, expect=exp),
            BFSFamily("pose-histories-other-representations", Spec(seed, lists=(2, 3)), max_depth=5, expect=exp)]
