"""C13 — masks: analytic shapes and voxel-wise set algebra.

Every family drives the real `cryocat.cryomask` functions and compares the returned array with the integer oracle
`mc.oracles.shapes`.  Exceptions of the library on in-domain inputs are violations whose `cls` names the INPUT CLASS
(which z face the requested cylinder crosses, dtype class of the first operand ...) so that different defects get
different signatures.
"""
import math
import zlib

import numpy as np

from ..engine import Family
from ..oracles import emfmt, mrcfmt, shapes
from ..space import Listed, Product, Union

RULE = (
    "shape families: cases = box x EVERY voxel of the box as centre x every radius / height / thickness / radius "
    "triple of the bound (hard edge), name-based generator = every name of the bound x mask_size, soft edge = "
    "sub-lattice of centres x sizes x sigma x edge mode; algebra families: cases = operation x number of masks k x "
    "operand kind tuple (array dtype or file format), each run on ONE volume that contains every combination of "
    "operand values exactly once (complete truth table).  Non-trivial = the expected mask has voxels inside AND "
    "outside (shapes), the soft mask has a value strictly between 0 and 1 (soft), k >= 2 (algebra); distinct = "
    "distinct case descriptions.  Outcome = crc of the returned array."
)
BOUNDS = {
    "quick": (
        "sphere: 27 boxes {6,7,9}^3, every centre, r=1..max+2; cylinder: 5 boxes, every centre, r=1..max(sx,sy)+2, "
        "h=1..sz+3; ellipsoid: 8 even boxes {6,8}^3, every centre, radii {1,2,3,5}^3; spherical shells: 2 boxes, every "
        "centre, every (r,t) with 0<=r-t/2; ellipsoid shells: 2 even boxes, every centre, radii {2,3,5}^3, t in {2,4}; "
        "names: r<=6,h<=8,s<=4, mask_size None/12/16; soft: sigma {0.5,1,2,3} x 2 modes on 27-centre lattices; "
        "algebra: k=1..5, all 8-kind operand tuples for k<=3, complete truth tables; soft algebra 4^k voxels, k<=4"
    ),
    "thorough": (
        "as quick plus: sphere 125 boxes {6,7,8,9,12}^3; cylinder all 27 boxes {6,7,9}^3 + 3 boxes with 8/12; "
        "ellipsoid 27 even boxes {6,8,12}^3 with radii {1,2,3,5,7}^3; shells on 5 / 4 boxes; 48-voxel boxes on a "
        "5x5x5 centre lattice; names r<=8,h<=10; soft on 4 boxes"
    ),
}
ASSUMPTIONS = [
    "centres are integer voxel indices inside the box; radii, heights and thicknesses are positive integers",
    "ellipsoids and ellipsoid shells only on boxes with even sizes (statement); ellipsoid shells only with even "
    "thickness and inner radii >= 1; spherical shells only with inner radius r - t/2 >= 0",
    "generate_mask is judged against the analytic solid centred at size//2 of whatever cubic box it returns "
    "(documented default centre); the returned box must equal mask_size when given (except s_shell, which documents "
    "an enlargement)",
    "soft masks: only range [0,1] (+-1e-9) and, blurred outwards, core >= 1-1e-3 are demanded (DESIGN 2.6)",
    "set algebra on soft masks: only range and input preservation are demanded; k=1 'difference' is executed but its "
    "value is not judged (XOR of one operand is not defined by the statement)",
    "file operands are written by the independent EM/MRC writers of mc.oracles (x fastest)",
]
BUDGET_S = {"quick": 400, "thorough": 2400}

SOFT_TOL = 1e-3
RANGE_TOL = 1e-9


# ---------------------------------------------------------------------------------------------
# plumbing

def _pubname(e):
    for c in type(e).__mro__:
        if not c.__name__.startswith("_"):
            return c.__name__
    return type(e).__name__


def _call(obs, site, cls, fn, *a, **k):
    """Call the library; an exception is a violation at `site` whose cls is the input class."""
    obs.transitions += 1
    try:
        return True, fn(*a, **k)
    except Exception as e:  # noqa: BLE001
        obs.fail(site, f"exception:{_pubname(e)}", f"{type(e).__name__}: {e}", cls=cls)
        obs.outcome = ("exc", site, _pubname(e), cls)
        return False, None


def _digest(m):
    a = np.asarray(m)
    if a.dtype == bool or np.issubdtype(a.dtype, np.integer):
        body = np.packbits(a != 0).tobytes()
    else:
        body = np.ascontiguousarray(np.round(a.astype(np.float64), 9)).tobytes()
    return (tuple(a.shape), zlib.crc32(body))


def _form(v, sel):
    """Same value in the three documented container forms."""
    t = tuple(int(x) for x in v)
    if sel % 3 == 0:
        return t
    if sel % 3 == 1:
        return list(t)
    return np.array(t)


def _first(mask):
    idx = np.argwhere(mask)
    return tuple(int(x) for x in idx[0]) if len(idx) else None


def _judge_hard(obs, site, prefix, got, exp, missing_classes, extra_classes, cls="", what=""):
    """Compare a returned hard mask with the expected boolean solid, clause by voxel class.

    missing_classes / extra_classes: ordered [(clause suffix, boolean array[, cls override])] - a voxel is attributed to
    the first class that contains it.  A clause fires only if the class is populated for this case.
    """
    g = np.asarray(got)
    if not obs.check(tuple(g.shape) == tuple(exp.shape), site, f"{prefix}-box-shape",
                     lambda: f"{what}: returned shape {g.shape}, expected {exp.shape}", cls):
        return False
    gf = g.astype(np.float64)
    ok = obs.check(bool(np.all((gf == 0) | (gf == 1))), site, f"{prefix}-values-binary",
                   lambda: f"{what}: values other than 0/1 in a hard mask: {np.unique(gf)[:6]}", cls)
    gb = gf != 0
    todo = exp.copy()
    for entry in missing_classes:
        suffix, cm = entry[:2]
        sel = todo & cm
        todo &= ~cm
        if sel.any():
            bad = sel & ~gb
            ok &= obs.check(not bad.any(), site, f"{prefix}-{suffix}",
                            lambda: f"{what}: {int(bad.sum())} of {int(sel.sum())} voxels missing, first {_first(bad)}",
                            entry[2] if len(entry) > 2 else cls)
    todo = ~exp
    for entry in extra_classes:
        suffix, cm = entry[:2]
        sel = todo & cm
        todo &= ~cm
        if sel.any():
            bad = sel & gb
            ok &= obs.check(not bad.any(), site, f"{prefix}-{suffix}",
                            lambda: f"{what}: {int(bad.sum())} of {int(sel.sum())} voxels wrongly set, first {_first(bad)}",
                            entry[2] if len(entry) > 2 else cls)
    return ok


def _judge_soft(obs, site, prefix, got, shape, core, outwards, cls="", what=""):
    g = np.asarray(got, dtype=np.float64)
    if not obs.check(tuple(g.shape) == tuple(shape), site, f"{prefix}-box-shape",
                     lambda: f"{what}: returned shape {g.shape}, expected {tuple(shape)}", cls):
        return
    fin = bool(np.all(np.isfinite(g)))
    obs.check(fin and g.min() >= -RANGE_TOL and g.max() <= 1 + RANGE_TOL, site, f"{prefix}-soft-range",
              lambda: f"{what}: values span [{g.min()!r}, {g.max()!r}]", cls)
    if outwards and core.any():
        lo = float(g[core].min())
        obs.check(lo >= 1 - SOFT_TOL, site, f"{prefix}-soft-core-at-one",
                  lambda: f"{what}: requested core drops to {lo!r} at {_first(core & (g < 1 - SOFT_TOL))}", cls)
    obs.nontrivial = bool(np.any((g > 1e-6) & (g < 1 - 1e-6)))


def _true(shape):
    return np.ones(tuple(shape), dtype=bool)


# ---------------------------------------------------------------------------------------------
# hard solids

def ex_sphere(case, obs):
    from cryocat import cryomask as cm

    box, c, r = case
    sel = c[0] + 2 * c[1] + 3 * c[2] + r
    ms = box[0] if (box[0] == box[1] == box[2] and sel % 2) else _form(box, sel)
    ok, m = _call(obs, "spherical_mask", "centre-in-box", cm.spherical_mask, ms, radius=r, center=_form(c, sel // 3))
    if not ok:
        return
    exp = shapes.sphere(box, c, r)
    obs.nontrivial = bool(exp.any() and not exp.all())
    _judge_hard(obs, "spherical_mask", "sphere", m, exp,
                [("surface-voxel-missing", shapes.sphere_surface(box, c, r)), ("interior-voxel-missing", _true(box))],
                [("outside-voxel-set", _true(box))], what=f"box {box} centre {c} r {r}")
    obs.outcome = _digest(m)


def _cyl_class(sz, cz, half_req, half_eff=None):
    up = cz + half_req > sz - 1
    lo = cz - half_req < 0
    if up and lo:
        return "requested-cylinder-crosses-both-z-faces"
    if up:
        return "requested-cylinder-crosses-upper-z-face"
    if lo:
        return "requested-cylinder-crosses-lower-z-face"
    if half_eff is not None and (cz + half_eff > sz - 1 or cz - half_eff < 0):
        return "only-gaussian-outwards-margin-crosses-z-face"
    return "cylinder-inside-box"


def _judge_cylinder(obs, got, box, c, r, h, cls, what):
    """A cylinder is (disc in the centre layer) x (segment on the axis through the centre voxel).

    The three parts are judged separately so that a planar defect (rim, x/y mix-up), an axial defect (half height,
    clipping at a z face) and a broken product structure get different signatures; together they are equivalent to
    voxel-wise equality with the analytic solid.  Planar clauses carry no input class, axial ones the z-face class.
    """
    site = "cylindrical_mask"
    g = np.asarray(got)
    if not obs.check(tuple(g.shape) == tuple(box), site, "cylinder-box-shape", lambda: f"{what}: returned shape {g.shape}", cls):
        return
    gf = g.astype(np.float64)
    obs.check(bool(np.all((gf == 0) | (gf == 1))), site, "cylinder-values-binary", lambda: f"{what}: values {np.unique(gf)[:6]}", cls)
    gb = gf != 0
    cx, cy, cz = c
    half = h // 2
    # axial segment through the centre voxel
    col = gb[cx, cy, :]
    off = np.abs(np.arange(box[2]) - cz)
    for clause, sel, want in (("cylinder-cap-layer-missing", off == half, True), ("cylinder-axial-interior-missing", off < half, True),
                              ("cylinder-beyond-cap-layer-set", off > half, False)):
        if sel.any():
            bad = sel & (col != want)
            obs.check(not bad.any(), site, clause, lambda: f"{what}: axis voxels k={np.flatnonzero(bad).tolist()} are {'empty' if want else 'set'}; "
                      f"expected segment k in [{max(cz - half, 0)}, {min(cz + half, box[2] - 1)}]", cls)
    # disc in the centre layer
    layer = gb[:, :, cz]
    p2 = shapes.planar_dist2(box, c)[:, :, 0]
    for clause, sel, want in (("cylinder-rim-voxel-missing", p2 == r * r, True), ("cylinder-disc-interior-missing", p2 < r * r, True),
                              ("cylinder-beyond-radius-voxel-set", p2 > r * r, False)):
        if sel.any():
            bad = sel & (layer != want)
            obs.check(not bad.any(), site, clause, lambda: f"{what}: {int(bad.sum())} of {int(sel.sum())} voxels of the centre layer wrong, first (i,j) = {_first(bad)}")
    prod = layer[:, :, None] & col[None, None, :]
    obs.check(bool(np.array_equal(gb, prod)), site, "cylinder-is-disc-times-segment",
              lambda: f"{what}: {int((gb != prod).sum())} voxels differ from (centre layer) x (axis column), first {_first(gb != prod)}", cls)


def ex_cylinder(case, obs):
    from cryocat import cryomask as cm

    box, c, r, h = case
    sel = c[0] + 2 * c[1] + 3 * c[2] + r + h
    cls = _cyl_class(box[2], c[2], h // 2)
    ok, m = _call(obs, "cylindrical_mask", cls, cm.cylindrical_mask, _form(box, sel), radius=r, height=h, center=_form(c, sel // 3))
    if not ok:
        return
    exp = shapes.cylinder(box, c, r, h)
    obs.nontrivial = bool(exp.any() and not exp.all())
    _judge_cylinder(obs, m, box, c, r, h, cls, f"box {box} centre {c} r {r} h {h}")
    # belt and braces: the decomposition above is equivalent to voxel-wise equality with the analytic solid
    g = np.asarray(m)
    if g.shape == exp.shape and not obs.violations:
        obs.check(bool(np.array_equal(g != 0, exp)), "cylindrical_mask", "cylinder-equals-analytic-solid", "decomposed clauses passed but the solid differs", cls)
    obs.outcome = _digest(m)


def ex_ellipsoid(case, obs):
    from cryocat import cryomask as cm

    box, c, radii = case
    sel = c[0] + 2 * c[1] + 3 * c[2] + sum(radii)
    ok, m = _call(obs, "ellipsoid_mask", "even-box", cm.ellipsoid_mask, _form(box, sel), radii=_form(radii, sel // 3), center=_form(c, sel // 9))
    if not ok:
        return
    exp = shapes.ellipsoid(box, c, radii)
    obs.nontrivial = bool(exp.any() and not exp.all())
    _judge_hard(obs, "ellipsoid_mask", "ellipsoid", m, exp,
                [("surface-voxel-missing", shapes.ellipsoid_surface(box, c, radii)), ("interior-voxel-missing", _true(box))],
                [("outside-voxel-set", _true(box))], what=f"box {box} centre {c} radii {radii}")
    obs.outcome = _digest(m)


def ex_sshell(case, obs):
    from cryocat import cryomask as cm

    box, c, r, t = case
    sel = c[0] + 2 * c[1] + 3 * c[2] + r + t
    ok, m = _call(obs, "spherical_shell_mask", "inner-radius>=0", cm.spherical_shell_mask, _form(box, sel), t, radius=r, center=_form(c, sel // 3))
    if not ok:
        return
    exp = shapes.spherical_shell(box, c, r, t)
    obs.nontrivial = bool(exp.any() and not exp.all())
    _judge_hard(obs, "spherical_shell_mask", "sshell", m, exp,
                [("outer-surface-voxel-missing", shapes.sphere_surface(box, c, 2 * r + t, 2)), ("body-voxel-missing", _true(box))],
                [("inner-surface-voxel-set", shapes.sphere_surface(box, c, 2 * r - t, 2)),
                 ("inner-solid-voxel-set", shapes.sphere(box, c, 2 * r - t, 2)), ("outside-voxel-set", _true(box))],
                what=f"box {box} centre {c} r {r} thickness {t}")
    obs.outcome = _digest(m)


def ex_eshell(case, obs):
    from cryocat import cryomask as cm

    box, c, radii, t = case
    sel = c[0] + 2 * c[1] + 3 * c[2] + sum(radii) + t
    ok, m = _call(obs, "ellipsoid_shell_mask", "even-box,even-thickness", cm.ellipsoid_shell_mask, _form(box, sel), t, _form(radii, sel // 3), center=_form(c, sel // 9))
    if not ok:
        return
    exp = shapes.ellipsoid_shell(box, c, radii, t)
    obs.nontrivial = bool(exp.any() and not exp.all())
    h = t // 2
    outer = [x + h for x in radii]
    inner = [x - h for x in radii]
    _judge_hard(obs, "ellipsoid_shell_mask", "eshell", m, exp,
                [("outer-surface-voxel-missing", shapes.ellipsoid_surface(box, c, outer)), ("body-voxel-missing", _true(box))],
                [("inner-surface-voxel-set", shapes.ellipsoid_surface(box, c, inner)),
                 ("inner-solid-voxel-set", shapes.ellipsoid(box, c, inner)), ("outside-voxel-set", _true(box))],
                what=f"box {box} centre {c} radii {radii} thickness {t}")
    obs.outcome = _digest(m)


def ex_defaults(case, obs):
    """Size arguments left out: the documented defaults (radius = half the smallest [x,y] edge, height = z edge,
    ellipsoid radii = half the edges, centre = edge // 2) must give the analytic solid for exactly those numbers."""
    from cryocat import cryomask as cm

    kind, box, centred = case
    c = tuple(v // 2 for v in box)
    ckw = {"center": list(c)} if centred else {}
    what = f"{kind} box {box} {'explicit' if centred else 'default'} centre, sizes left out"
    if kind == "sphere":
        r = min(box) // 2
        ok, m = _call(obs, "spherical_mask", "default-radius", cm.spherical_mask, list(box), **ckw)
        exp = shapes.sphere(box, c, r)
    elif kind == "cylinder":
        r, h = min(box[:2]) // 2, box[2]
        ok, m = _call(obs, "cylindrical_mask", "default-radius-height", cm.cylindrical_mask, list(box), **ckw)
        exp = shapes.cylinder(box, c, r, h)
    elif kind == "cylinder-r":
        r, h = 2, box[2]
        ok, m = _call(obs, "cylindrical_mask", "default-height", cm.cylindrical_mask, list(box), radius=r, **ckw)
        exp = shapes.cylinder(box, c, r, h)
    elif kind == "cylinder-h":
        r, h = min(box[:2]) // 2, 3
        ok, m = _call(obs, "cylindrical_mask", "default-radius", cm.cylindrical_mask, list(box), height=h, **ckw)
        exp = shapes.cylinder(box, c, r, h)
    elif kind == "s_shell":
        r = min(box) // 2
        ok, m = _call(obs, "spherical_shell_mask", "default-radius", cm.spherical_shell_mask, list(box), 2, **ckw)
        exp = shapes.spherical_shell(box, c, r, 2)
    else:
        radii = tuple(v // 2 for v in box)
        ok, m = _call(obs, "ellipsoid_mask", "default-radii", cm.ellipsoid_mask, list(box), **ckw)
        exp = shapes.ellipsoid(box, c, radii)
    if not ok:
        return
    obs.nontrivial = bool(exp.any() and not exp.all())
    site = {"sphere": "spherical_mask", "s_shell": "spherical_shell_mask", "ellipsoid": "ellipsoid_mask"}.get(kind, "cylindrical_mask")
    _judge_hard(obs, site, f"default-{kind.split('-')[0]}", m, exp, [("voxel-missing", _true(box))], [("voxel-wrongly-set", _true(box))],
                cls="documented-defaults", what=what)
    obs.outcome = _digest(m)


# ---------------------------------------------------------------------------------------------
# name-based generator

def ex_name(case, obs):
    from cryocat import cryomask as cm

    kind, specs, msize = case
    name = shapes.make_name(kind, specs)
    ok, parsed = _call(obs, "parse_shape_string", kind, cm.parse_shape_string, name)
    if not ok:
        return
    obs.check(tuple(parsed) == (kind, list(specs)) or (parsed[0] == kind and list(parsed[1]) == list(specs)),
              "parse_shape_string", "name-parsed", lambda: f"{name!r} parsed as {parsed!r}", kind)
    kw = {} if msize is None else {"mask_size": msize}
    ok, m = _call(obs, "generate_mask", kind, cm.generate_mask, name, **kw)
    if not ok:
        return
    g = np.asarray(m)
    cubic = g.ndim == 3 and g.shape[0] == g.shape[1] == g.shape[2]
    if not obs.check(cubic, "generate_mask", "name-box-cubic", lambda: f"{name}: returned shape {g.shape}", kind):
        obs.outcome = ("shape", tuple(g.shape))
        return
    n = int(g.shape[0])
    if msize is not None:
        if kind == "s_shell":
            obs.check(n >= msize, "generate_mask", "name-box-at-least-mask_size", f"{name}: box {n} < mask_size {msize}", kind)
        else:
            obs.check(n == msize, "generate_mask", "name-box-equals-mask_size", f"{name}: box {n}, mask_size {msize}", kind)
    box = (n, n, n)
    c = (n // 2, n // 2, n // 2)
    exp = shapes.solid(kind, box, c, list(specs))
    obs.nontrivial = bool(exp.any() and not exp.all())
    if n % 2 == 0 or kind not in ("ellipsoid", "e_shell"):   # the ellipsoid inequality is stated for even boxes only
        _judge_hard(obs, "generate_mask", f"name-{kind}", g, exp, [("voxel-missing", _true(box))], [("voxel-wrongly-set", _true(box))],
                    cls="default-centre", what=f"{name} mask_size {msize} -> box {n}")
    # ... and the direct call with the same numbers builds the same array
    if kind == "sphere":
        ok, d = _call(obs, "spherical_mask", "direct", cm.spherical_mask, n, radius=specs[0], center=c)
    elif kind == "cylinder":
        ok, d = _call(obs, "cylindrical_mask", "direct", cm.cylindrical_mask, n, radius=specs[0], height=specs[1], center=c)
    elif kind == "s_shell":
        ok, d = _call(obs, "spherical_shell_mask", "direct", cm.spherical_shell_mask, n, specs[1], radius=specs[0], center=c)
    elif kind == "ellipsoid":
        ok, d = _call(obs, "ellipsoid_mask", "direct", cm.ellipsoid_mask, n, radii=list(specs), center=c)
    else:
        ok, d = _call(obs, "ellipsoid_shell_mask", "direct", cm.ellipsoid_shell_mask, n, specs[3], list(specs[0:3]), center=c)
    if ok:
        d = np.asarray(d)
        obs.check(d.shape == g.shape and np.array_equal(d.astype(np.float64), g.astype(np.float64)), "generate_mask",
                  "name-equals-direct-call", f"{name}: differs from the direct call with centre {c}", kind)
    # Start from a non-initial state: the caller edits the returned mask in place (labels it, carves it) and asks for the
    # same name again.  The generator must build the same shape again - a result that aliases an internal buffer would
    # hand the edited array back.
    keep = g.copy()
    try:
        m[...] = 7
        m[0, 0, 0] = -3
    except (TypeError, ValueError):
        pass
    ok, m2 = _call(obs, "generate_mask", kind, cm.generate_mask, name, **kw)
    if ok:
        g2 = np.asarray(m2)
        obs.check(g2.shape == keep.shape and np.array_equal(g2.astype(np.float64), keep.astype(np.float64)), "generate_mask",
                  "name-same-shape-after-caller-edit", f"{name}: a second call after the caller edited the first result returns a different mask", kind)
    obs.outcome = _digest(keep)


# ---------------------------------------------------------------------------------------------
# soft edges

def ex_soft(case, obs):
    from cryocat import cryomask as cm

    kind, box, c, size, sigma, outwards = case
    what = f"{kind} box {box} centre {c} size {size} sigma {sigma} outwards {outwards}"
    if kind == "sphere":
        ok, m = _call(obs, "spherical_mask", "soft", cm.spherical_mask, box, radius=size, center=c, gaussian=sigma, gaussian_outwards=outwards)
        site, core = "spherical_mask", shapes.sphere(box, c, size)
        cls = ""
    elif kind == "cylinder":
        r, h = size
        half_eff = int(math.ceil(h // 2 + 5.0 * sigma)) if outwards else h // 2
        cls = _cyl_class(box[2], c[2], h // 2, half_eff)
        ok, m = _call(obs, "cylindrical_mask", cls, cm.cylindrical_mask, box, radius=r, height=h, center=c, gaussian=sigma, gaussian_outwards=outwards)
        site, core = "cylindrical_mask", shapes.cylinder(box, c, r, h)
    elif kind == "ellipsoid":
        ok, m = _call(obs, "ellipsoid_mask", "soft", cm.ellipsoid_mask, box, radii=size, center=c, gaussian=sigma, gaussian_outwards=outwards)
        site, core = "ellipsoid_mask", shapes.ellipsoid(box, c, size)
        cls = ""
    elif kind == "s_shell":
        r, t = size
        ok, m = _call(obs, "spherical_shell_mask", "soft", cm.spherical_shell_mask, box, t, radius=r, center=c, gaussian=sigma)
        site, core, outwards, cls = "spherical_shell_mask", None, False, ""
    else:
        radii, t = size
        ok, m = _call(obs, "ellipsoid_shell_mask", "soft", cm.ellipsoid_shell_mask, box, t, radii, center=c, gaussian=sigma)
        site, core, outwards, cls = "ellipsoid_shell_mask", None, False, ""
    if not ok:
        return
    _judge_soft(obs, site, kind, m, box, core, outwards, cls=cls, what=what)
    obs.outcome = _digest(m)


# ---------------------------------------------------------------------------------------------
# set algebra

OPS = ["union", "intersection", "subtraction", "difference"]
OPERANDS = ["arr:bool", "arr:int64", "arr:float32", "arr:float64", "em:float32", "em:int8", "mrc:float32", "mrc:int16"]
SOFT_OPERANDS = ["arr:float64", "arr:float32", "em:float32", "mrc:float32"]


def _dtype_class(kind):
    dt = kind.split(":")[1]
    if dt == "bool":
        return "bool"
    return "int" if dt.startswith("int") else "float"


def _operand_class(kinds):
    """Input class of an operand list: dtype class of the minuend / first operand, and whether a float follows an int."""
    first = _dtype_class(kinds[0])
    cls = f"first-operand-{first}"
    if first == "int" and any(_dtype_class(k) == "float" for k in kinds[1:]):
        cls += ";float-among-others"
    return cls


def _materialise(values, kind, j):
    """-> (what is passed to the library, snapshot function returning comparable bytes)."""
    form, dt = kind.split(":")
    a = np.ascontiguousarray(np.asarray(values).astype(dt))
    if form == "arr":
        return a, (lambda: (str(a.dtype), a.shape, a.tobytes()))
    path = f"c13_operand{j}.{form}"
    (emfmt if form == "em" else mrcfmt).write(path, a)

    def snap():
        with open(path, "rb") as f:
            return f.read()

    return path, snap


def _run_algebra(case, obs, tables, binary):
    from cryocat import cryomask as cm

    op, kinds = case
    k = len(kinds)
    operands, snaps = [], []
    for j, (t, kind) in enumerate(zip(tables, kinds)):
        o, s = _materialise(t, kind, j)
        operands.append(o)
        snaps.append(s)
    before = [s() for s in snaps]
    cls = _operand_class(kinds)
    ok, res = _call(obs, op, cls, getattr(cm, op), list(operands))
    after = [s() for s in snaps]
    same = [b == a for b, a in zip(before, after)]
    obs.check(all(same), op, "inputs-unmodified", lambda: f"operand(s) {[j for j, s in enumerate(same) if not s]} of kinds {kinds} changed by {op}", cls)
    obs.nontrivial = k >= 2
    if not ok:
        return
    r = np.asarray(res)
    # value clauses do not carry the dtype class: a wrong truth-table row is the same defect for every operand kind
    if not obs.check(tuple(r.shape) == tuple(tables[0].shape), op, "result-shape", lambda: f"{kinds}: {r.shape} vs {tables[0].shape}"):
        obs.outcome = ("shape", tuple(r.shape))
        return
    rf = r.astype(np.float64)
    obs.check(bool(np.all(np.isfinite(rf))) and rf.min() >= -RANGE_TOL and rf.max() <= 1 + RANGE_TOL, op, "result-in-unit-range",
              lambda: f"{op}{kinds}: result spans [{rf.min()!r}, {rf.max()!r}]")
    if binary:
        if op == "difference" and k == 1:
            obs.skipped = True
        else:
            exp = shapes.expected_algebra(op, [np.asarray(t, dtype=bool) for t in tables])
            clause = {"union": "union-is-or", "intersection": "intersection-is-and", "subtraction": "subtraction-is-first-and-not-others",
                      "difference": "difference-is-xor" if k == 2 else "difference-is-union-minus-intersection"}[op]
            bad = rf != exp.astype(np.float64)
            obs.check(not bad.any(), op, clause,
                      lambda: f"{op}{kinds}: {int(bad.sum())} of {bad.size} truth-table rows wrong; first row bits "
                              f"{[int(np.asarray(t).ravel()[np.flatnonzero(bad.ravel())[0]]) for t in tables]} -> {rf.ravel()[np.flatnonzero(bad.ravel())[0]]!r}")
    obs.outcome = _digest(rf)


def ex_algebra(case, obs):
    op, kinds = case
    _run_algebra(case, obs, shapes.truth_table(len(kinds)), True)


def make_ex_soft_algebra(levels):
    def ex(case, obs):
        op, kinds = case
        _run_algebra(case, obs, shapes.level_table(len(kinds), levels), False)

    return ex


# ---------------------------------------------------------------------------------------------
# spaces

def _centres(box):
    return [(i, j, k) for i in range(box[0]) for j in range(box[1]) for k in range(box[2])]


def _lattice(box, n=3):
    def ax(s):
        if n == 3:
            return sorted({0, s // 2, s - 1})
        return sorted({0, s // 4, s // 2, (3 * s) // 4, s - 1})

    return [(i, j, k) for i in ax(box[0]) for j in ax(box[1]) for k in ax(box[2])]


def _cube(vals):
    return [(a, b, c) for a in vals for b in vals for c in vals]


def _sphere_space(boxes, centres=_centres, radii=None):
    return Union(*[Product([b], centres(b), radii(b) if radii else list(range(1, max(b) + 3))) for b in boxes])


def _cyl_space(boxes, centres=_centres, radii=None, heights=None):
    return Union(*[Product([b], centres(b), radii(b) if radii else list(range(1, max(b[0], b[1]) + 3)),
                           heights(b) if heights else list(range(1, b[2] + 4))) for b in boxes])


def _ell_space(boxes, triples, centres=_centres):
    return Union(*[Product([b], centres(b), triples) for b in boxes])


def _sshell_space(boxes, centres=_centres, rmax=None):
    parts = []
    for b in boxes:
        rt = [(r, t) for r in range(1, (rmax(b) if rmax else max(b) + 2) + 1) for t in range(1, 2 * r + 1)]
        parts.append(Product([b], centres(b), rt))
    return _flat4(Union(*parts))


def _eshell_space(boxes, triples, ts, centres=_centres):
    rt = [(tr, t) for tr in triples for t in ts if min(tr) - t // 2 >= 1]
    return _flat4(Union(*[Product([b], centres(b), rt) for b in boxes]))


def _flat4(space):
    from ..space import Mapped

    return Mapped(space, lambda c: (c[0], c[1], c[2][0], c[2][1]))


def _name_cases(rmax, hmax, smax, erad, sizes):
    out = []
    for ms in sizes:
        for r in range(1, rmax + 1):
            out.append(("sphere", (r,), ms))
        for r in range(1, rmax + 1):
            for h in range(1, hmax + 1):
                out.append(("cylinder", (r, h), ms))
        for r in range(1, rmax + 1):
            for s in range(1, smax + 1):
                if 2 * r - s >= 0:
                    out.append(("s_shell", (r, s), ms))
        for tr in _cube(erad):
            out.append(("ellipsoid", tr, ms))
        for tr in _cube(erad):
            for s in range(2, smax + 1, 2):
                if min(tr) - s // 2 >= 1:
                    out.append(("e_shell", tr + (s,), ms))
    return out


def _soft_cases(boxes_any, boxes_even, sigmas):
    out = []
    for sg in sigmas:
        for ow in (True, False):
            for b in boxes_any:
                for c in _lattice(b):
                    for r in (1, 2, 3, 5):
                        out.append(("sphere", b, c, r, sg, ow))
                    for r in (1, 3):
                        for h in (1, 2, 3, 6, b[2] + 2):
                            out.append(("cylinder", b, c, (r, h), sg, ow))
            for b in boxes_even:
                for c in _lattice(b):
                    for tr in ((1, 1, 1), (2, 3, 5), (5, 2, 1), (3, 3, 3), (1, 5, 2)):
                        out.append(("ellipsoid", b, c, tr, sg, ow))
        for b in boxes_any:
            for c in _lattice(b):
                for (r, t) in ((1, 2), (2, 1), (3, 2), (5, 3)):
                    out.append(("s_shell", b, c, (r, t), sg, False))
        for b in boxes_even:
            for c in _lattice(b):
                for (tr, t) in (((2, 3, 5), 2), ((3, 3, 3), 4), ((5, 2, 2), 2)):
                    out.append(("e_shell", b, c, (tr, t), sg, False))
    return out


def _algebra_cases(operands, kmax_full, kmax):
    import itertools

    out = []
    for k in range(1, kmax + 1):
        if k <= kmax_full:
            tuples = list(itertools.product(operands, repeat=k))
        else:
            n = len(operands)
            tuples = [tuple([o] * k) for o in operands] + [tuple(operands[(s + j) % n] for j in range(k)) for s in range(n)] \
                + [tuple(operands[(s + 3 * j) % n] for j in range(k)) for s in range(n)]
            tuples = list(dict.fromkeys(tuples))
        for t in tuples:
            for op in OPS:
                out.append((op, t))
    return out


def _levels(seed):
    if seed == 0:
        return (0.0, 0.25, 0.5, 1.0)
    a = ((seed * 2654435761) % 1000003) / 1000003.0
    b = ((seed * 40503 + 17) % 999983) / 999983.0
    lo, hi = sorted((0.05 + 0.4 * a, 0.55 + 0.4 * b))
    return (0.0, float(lo), float(hi), 1.0)


def families(tier, seed):
    quick = tier == "quick"
    b679 = _cube((6, 7, 9))
    fams = []

    # -- hard solids -------------------------------------------------------------------------
    sphere_boxes = b679 if quick else _cube((6, 7, 8, 9, 12))
    fams.append(Family("sphere", _sphere_space(sphere_boxes), ex_sphere,
                       expect=("sphere-surface-voxel-missing", "sphere-interior-voxel-missing", "sphere-outside-voxel-set", "sphere-values-binary")))
    cyl_boxes = [(6, 7, 9), (7, 9, 6), (9, 6, 7), (6, 6, 6), (7, 7, 9)] if quick else b679 + [(8, 12, 6), (12, 8, 7), (8, 6, 12)]
    fams.append(Family("cylinder", _cyl_space(cyl_boxes), ex_cylinder,
                       expect=("cylinder-rim-voxel-missing", "cylinder-disc-interior-missing", "cylinder-beyond-radius-voxel-set",
                               "cylinder-cap-layer-missing", "cylinder-axial-interior-missing", "cylinder-beyond-cap-layer-set",
                               "cylinder-is-disc-times-segment", "cylinder-equals-analytic-solid")))
    ell_boxes = _cube((6, 8)) if quick else _cube((6, 8, 12))
    ell_radii = _cube((1, 2, 3, 5)) if quick else _cube((1, 2, 3, 5, 7))
    fams.append(Family("ellipsoid", _ell_space(ell_boxes, ell_radii), ex_ellipsoid,
                       expect=("ellipsoid-surface-voxel-missing", "ellipsoid-interior-voxel-missing", "ellipsoid-outside-voxel-set")))
    ss_boxes = [(6, 7, 9), (7, 6, 6)] if quick else [(6, 7, 9), (7, 6, 6), (9, 9, 9), (8, 12, 6), (9, 6, 7)]
    fams.append(Family("spherical-shell", _sshell_space(ss_boxes), ex_sshell,
                       expect=("sshell-outer-surface-voxel-missing", "sshell-body-voxel-missing", "sshell-inner-surface-voxel-set",
                               "sshell-inner-solid-voxel-set", "sshell-outside-voxel-set")))
    es_boxes = [(6, 8, 6), (8, 6, 8)] if quick else [(6, 8, 6), (8, 6, 8), (12, 8, 6), (8, 8, 12)]
    es_radii = _cube((2, 3, 5)) if quick else _cube((2, 3, 4, 5, 7))
    fams.append(Family("ellipsoid-shell", _eshell_space(es_boxes, es_radii, (2, 4) if quick else (2, 4, 6)), ex_eshell,
                       expect=("eshell-outer-surface-voxel-missing", "eshell-body-voxel-missing", "eshell-inner-surface-voxel-set",
                               "eshell-inner-solid-voxel-set", "eshell-outside-voxel-set")))

    # every integer radius up to beyond a 48-box on a few centres: radii >= 13 are the first for which lattice points lie
    # exactly on the sphere in general position (12,5,0), (15,8,0) ... - where a rearranged inequality rounds differently
    few48 = lambda b: [(b[0] // 2, b[1] // 2, b[2] // 2), (0, b[1] // 2, b[2] - 1), (b[0] // 2 - 1, b[1] // 2 + 1, b[2] // 2)]  # noqa: E731
    fams.append(Family("sphere-48-every-radius", _sphere_space([(48, 48, 48)], few48, lambda b: list(range(1, 51))), ex_sphere,
                       expect=("sphere-surface-voxel-missing", "sphere-outside-voxel-set")))
    fams.append(Family("cylinder-48-every-radius", _cyl_space([(48, 48, 40)], few48, lambda b: list(range(1, 51)), lambda b: [1, 24, b[2] + 3]), ex_cylinder,
                       expect=("cylinder-rim-voxel-missing", "cylinder-equals-analytic-solid")))
    if not quick:
        big = [(48, 48, 48), (48, 40, 32)]
        lat5 = lambda b: _lattice(b, 5)  # noqa: E731
        fams.append(Family("sphere-48", _sphere_space(big, lat5, lambda b: [1, 2, 3, 5, 8, 13, 21, 24, 25, 34, 50]), ex_sphere,
                           expect=("sphere-surface-voxel-missing", "sphere-outside-voxel-set")))
        fams.append(Family("cylinder-48", _cyl_space(big, lat5, lambda b: [1, 3, 8, 20, 24, 50], lambda b: [1, 2, 7, 24, 31, b[2], b[2] + 3]), ex_cylinder,
                           expect=("cylinder-rim-voxel-missing", "cylinder-cap-layer-missing", "cylinder-beyond-cap-layer-set", "cylinder-equals-analytic-solid")))
        fams.append(Family("ellipsoid-48", _ell_space(big, _cube((1, 4, 13, 24, 30)), lat5), ex_ellipsoid,
                           expect=("ellipsoid-surface-voxel-missing", "ellipsoid-outside-voxel-set")))

    # -- sizes left out: documented defaults -------------------------------------------------
    dboxes = _cube((6, 7, 8, 9, 12)) if quick else _cube((6, 7, 8, 9, 10, 12, 15, 16))
    dcases = [(k, bx, cen) for k in ("sphere", "cylinder", "cylinder-r", "cylinder-h", "s_shell") for bx in dboxes for cen in (False, True)]
    dcases += [("ellipsoid", bx, cen) for bx in dboxes if all(v % 2 == 0 for v in bx) for cen in (False, True)]
    fams.append(Family("documented-defaults", Listed(dcases), ex_defaults,
                       expect=("default-sphere-voxel-missing", "default-cylinder-voxel-wrongly-set", "default-s_shell-voxel-missing", "default-ellipsoid-voxel-missing")))

    # -- names -------------------------------------------------------------------------------
    names = _name_cases(6, 8, 4, (1, 2, 3, 4, 5, 6), (None, 12, 16, 15)) if quick else _name_cases(8, 10, 4, (1, 2, 3, 4, 5, 6, 7, 8), (None, 12, 16, 20, 15, 21))
    fams.append(Family("names", Listed(names), ex_name,
                       expect=("name-parsed", "name-box-cubic", "name-box-equals-mask_size", "name-box-at-least-mask_size", "name-equals-direct-call",
                               "name-sphere-voxel-missing", "name-cylinder-voxel-wrongly-set", "name-s_shell-voxel-missing",
                               "name-ellipsoid-voxel-wrongly-set", "name-e_shell-voxel-missing")))

    # -- soft edges --------------------------------------------------------------------------
    soft = _soft_cases([(9, 7, 6), (12, 10, 14)] if quick else [(9, 7, 6), (12, 10, 14), (6, 6, 6), (16, 12, 9)],
                       [(8, 6, 6), (12, 10, 14)] if quick else [(8, 6, 6), (12, 10, 14), (6, 8, 12), (16, 12, 8)], (0.5, 1, 2, 3))
    fams.append(Family("soft-edges", Listed(soft), ex_soft,
                       expect=("sphere-soft-range", "sphere-soft-core-at-one", "cylinder-soft-range", "cylinder-soft-core-at-one",
                               "ellipsoid-soft-range", "ellipsoid-soft-core-at-one", "s_shell-soft-range", "e_shell-soft-range")))

    # -- set algebra -------------------------------------------------------------------------
    fams.append(Family("algebra-binary", Listed(_algebra_cases(OPERANDS, 3, 5)), ex_algebra,
                       expect=("union-is-or", "intersection-is-and", "subtraction-is-first-and-not-others", "difference-is-xor",
                               "difference-is-union-minus-intersection", "inputs-unmodified", "result-in-unit-range")))
    from ..engine import with_array_layouts
    fams.append(with_array_layouts(fams[-1]))   # algebra-binary with Fortran-ordered / strided array operands
    fams.append(Family("algebra-soft", Listed(_algebra_cases(SOFT_OPERANDS, 3 if quick else 4, 4)), make_ex_soft_algebra(_levels(seed)),
                       expect=("inputs-unmodified", "result-in-unit-range")))
    return fams
