"""C12 — Fourier low/high/band-pass filters are the documented radial gains.

Single-wave core: every integer frequency of the half lattice is fed to the real `cryomap.lowpass/highpass/bandpass`
as a real plane wave (cos and sin phase); the output must be gain*input with the documented gain.  Around it:
ray-monotonicity, complete transfer tables read off a filtered delta (every bin at once), commutation with every
circular shift along each axis, superposition of a random field and of two-wave combinations, the complement and
band-pass identities and the resolution -> Fourier-pixel mapping.
"""
import contextlib
import io

import numpy as np

from ..engine import Family, HarnessError
from ..oracles import fourier3 as f3
from ..space import Product, Union

RULE = (
    "cases = box x cutoff(s) x Gaussian width(s) x input, where the input ranges over EVERY integer frequency of the "
    "half lattice as a real plane wave in both phases (waves, bandpass-waves, linearity), every lattice direction "
    "(rays), every circular shift of a delta along each axis plus one generic voxel, each with a random field "
    "(tables, bandpass-tables), or every (pixel size, target pixel count, rounding offset) of the resolution grid.  "
    "Non-trivial = the wave is not the constant map / the transfer table contains both passed and stopped bins; "
    "distinct = distinct case descriptions.  Outcome = the measured gain(s) rounded to 1e-9."
)
BOUNDS = {
    "quick": "boxes 8^3, 9^3, (8,10,12), (9,8,11); cutoffs 1..min(N)//2; sigma in {0,0.5,1,2,3,4}; every frequency (cos+sin); "
             "band-pass: all hp<lp, 3 sigma pairs per wave and all 36 sigma pairs on tables; linearity: every wave x 3 partners x "
             "cutoffs {1,max} x sigma {0,1,3}; resolution: 3 pixel sizes x every target count x 5 rounding offsets",
    "thorough": "as quick plus boxes 12^3, 16^3, (12,9,10); linearity on cutoffs {1, mid, max}",
}
ASSUMPTIONS = [
    "maps are real float64 arrays (tables also float32 and int16); cutoffs are integers 1..min(N)//2; band-pass with hp < lp",
    "tolerances: 1e-10*amplitude for float64 FFT identities, 1e-5 for float32 input, 1e-3 on Gaussian plateaus (DESIGN 2.6)",
    "for sigma > 0 only range, the two plateaus and monotonicity along the 13 lattice directions are demanded, not isotropy",
    "band-pass gains are required to lie in [0,1] only when both edges have the same width (otherwise the documented "
    "difference of two low-passes is legitimately negative just outside the outer cutoff)",
    "resolution -> pixels: on non-cubic boxes the statement does not say which edge is 'box'; a result is accepted if it "
    "equals round(N_a*px/res) for some axis a (all readings agree on cubic boxes)",
]
BUDGET_S = {"quick": 400, "thorough": 2400}

TOL = 1e-10
TOL32 = 1e-5
PLATEAU_TOL = 1e-3
MONO_TOL = 1e-9
SIGMAS = (0, 0.5, 1, 2, 3, 4)
AMPS = (1.0, -2.5, 1e-3, 37.0)
COEFFS = ((1.0, 1.0), (-2.5, 0.3), (1e3, 1e-3))
DIRS = f3.directions()


def _amp(k, seed):
    return AMPS[(sum(abs(int(x)) for x in k) + seed) % len(AMPS)]


def _real_ok(obs, site, y, x):
    return obs.check(isinstance(y, np.ndarray) and y.shape == x.shape and np.isrealobj(y) and bool(np.all(np.isfinite(y))),
                     site, "output-real-same-shape", lambda: f"type {type(y).__name__} dtype {getattr(y, 'dtype', None)} shape {getattr(y, 'shape', None)}")


def _judge_gain(obs, site, g, k2, cutoff, sigma, tol, cls=""):
    """Documented LOW-PASS gain of one frequency (k2 may be an array: then g is the table)."""
    g = np.asarray(g, dtype=np.float64)
    k2 = np.asarray(k2)
    c2 = int(cutoff) ** 2
    if sigma == 0:
        for clause, sel, want in (("hard-gain-inside-cutoff", k2 < c2, 1.0), ("hard-gain-on-cutoff-sphere", k2 == c2, 1.0),
                                  ("hard-gain-beyond-cutoff", k2 > c2, 0.0)):
            if np.any(sel):
                dev = float(np.max(np.abs(g[sel] - want)))
                obs.check(dev <= tol, site, clause, f"cutoff {cutoff}: gain deviates from {want} by {dev:.3e}", cls)
    else:
        inside, outside = f3.plateau(k2, cutoff, sigma)
        if np.any(inside):
            dev = float(np.max(np.abs(g[inside] - 1.0)))
            obs.check(dev <= PLATEAU_TOL, site, "soft-plateau-inside", f"cutoff {cutoff} sigma {sigma}: |gain-1| = {dev:.3e} inside cutoff-4s-1", cls)
        if np.any(outside):
            dev = float(np.max(np.abs(g[outside])))
            obs.check(dev <= PLATEAU_TOL, site, "soft-plateau-outside", f"cutoff {cutoff} sigma {sigma}: |gain| = {dev:.3e} outside cutoff+4s+1", cls)
        if np.any(~inside & ~outside):
            obs.fire("soft-transition-band")


# ---------------------------------------------------------------------------------------------
# single-wave core

def ex_wave(case, obs):
    from cryocat import cryomap

    box, c, s, k, seed = case
    k2 = f3.k_squared(k, box)
    amp = _amp(k, seed)
    tol = TOL * abs(amp)
    gains = []
    for phase in ("cos", "sin"):
        if phase == "sin" and f3.self_conjugate(k, box):
            continue
        x = f3.plane_wave(box, k, phase, amp)
        ylp = obs.lib("lowpass", cryomap.lowpass, x.copy(), fourier_pixels=c, gaussian=s)
        yhp = obs.lib("highpass", cryomap.highpass, x.copy(), fourier_pixels=c, gaussian=s)
        ok = True
        for site, y in (("lowpass", ylp), ("highpass", yhp)):
            if not _real_ok(obs, site, y, x):
                ok = False
                continue
            g, res = f3.gain_of(y, x)
            obs.check(res <= tol, site, "wave-is-eigenfunction", f"k {k} {phase}: |y - g*x|max = {res:.3e} (g = {g:.6g}, amplitude {amp})")
            obs.check(-TOL <= g <= 1 + TOL, site, "gain-in-unit-interval", f"k {k} {phase}: gain {g!r}")
            if site == "lowpass":
                _judge_gain(obs, "lowpass", g, k2, c, s, TOL)
                gains.append(g)
        if ok:
            dev = float(np.max(np.abs(yhp - (x - ylp))))
            obs.check(dev <= tol, "highpass", "highpass-is-complement-of-lowpass", f"k {k} {phase}: |hp - (x - lp)|max = {dev:.3e}")
    if len(gains) == 2:
        obs.check(abs(gains[0] - gains[1]) <= TOL, "lowpass", "gain-independent-of-phase", f"k {k}: cos {gains[0]!r} sin {gains[1]!r}")
    obs.nontrivial = k2 > 0
    obs.outcome = tuple(round(g, 9) for g in gains)


def ex_ray(case, obs):
    from cryocat import cryomap

    box, c, s, d = case
    glp, ghp = [], []
    for k in f3.ray(box, d):
        x = f3.plane_wave(box, k, "cos", 1.0)
        glp.append(f3.gain_of(obs.lib("lowpass", cryomap.lowpass, x.copy(), fourier_pixels=c, gaussian=s), x)[0])
        ghp.append(f3.gain_of(obs.lib("highpass", cryomap.highpass, x.copy(), fourier_pixels=c, gaussian=s), x)[0])
    inc = max([glp[i + 1] - glp[i] for i in range(len(glp) - 1)] or [0.0])
    dec = max([ghp[i] - ghp[i + 1] for i in range(len(ghp) - 1)] or [0.0])
    obs.check(inc <= MONO_TOL, "lowpass", "lowpass-non-increasing-along-ray", f"direction {d}: gains {np.round(glp, 6).tolist()}")
    obs.check(dec <= MONO_TOL, "highpass", "highpass-non-decreasing-along-ray", f"direction {d}: gains {np.round(ghp, 6).tolist()}")
    obs.nontrivial = len(glp) > 1 and glp[0] != glp[-1]
    obs.outcome = tuple(round(g, 9) for g in glp)


# ---------------------------------------------------------------------------------------------
# complete transfer tables from a delta; shifts; random fields

def _delta(box, pos, dtype, seed):
    amp = 7.0 if dtype == "int16" else AMPS[(sum(pos) + seed) % len(AMPS)]
    x = np.zeros(box, dtype=dtype)
    x[pos] = amp
    return x, amp


def _field(box, dtype):
    r = np.random.standard_normal(box)
    if dtype == "int16":
        return np.round(100 * r).astype(np.int16)
    return r.astype(dtype)


def _table(y, x):
    X = np.fft.fftn(x.astype(np.float64))
    return np.fft.fftn(np.asarray(y, dtype=np.float64)) / X


def _monotone_rays(g, box, sign):
    """Largest violation of monotonicity of table g along the 13 lattice directions (sign=+1: non-increasing)."""
    worst, where = 0.0, None
    for d in DIRS:
        vals = [g[f3.bin_index(k, box)] for k in f3.ray(box, d)]
        for i in range(len(vals) - 1):
            v = sign * (vals[i + 1] - vals[i])
            if v > worst:
                worst, where = float(v), (d, i)
    return worst, where


def _judge_table(obs, site, G, box, kind, c, s, tol):
    im = float(np.max(np.abs(G.imag)))
    obs.check(im <= tol, site, "transfer-function-real", f"max |Im| = {im:.3e}")
    g = G.real
    obs.check(g.min() >= -tol and g.max() <= 1 + tol, site, "gain-in-unit-interval", f"gain table spans [{g.min()!r}, {g.max()!r}]")
    k2 = f3.k2_grid(box)
    glow = g if kind == "lowpass" else 1.0 - g
    _judge_gain(obs, site, glow, k2, c, s, tol, cls="" if kind == "lowpass" else "as-1-minus-gain")
    worst, where = _monotone_rays(g, box, +1 if kind == "lowpass" else -1)
    obs.check(worst <= MONO_TOL + tol, site, f"{kind}-monotone-along-rays", f"gain moves the wrong way by {worst:.3e} at direction/step {where}")
    return g


def ex_table(case, obs):
    from cryocat import cryomap

    box, kind, c, s, dtype, pos, seed = case
    fn = getattr(cryomap, kind)
    tol = TOL32 if dtype == "float32" else TOL
    x, amp = _delta(box, pos, dtype, seed)
    y = obs.lib(kind, fn, x.copy(), fourier_pixels=c, gaussian=s)
    if not _real_ok(obs, kind, y, x):
        obs.outcome = ("bad-output",)
        return
    g = _judge_table(obs, kind, _table(y, x), box, kind, c, s, tol)
    # commutation with the circular shift that moves the origin to `pos`
    x0 = np.zeros(box, dtype=dtype)
    x0[0, 0, 0] = x[pos]
    y0 = obs.lib(kind, fn, x0, fourier_pixels=c, gaussian=s)
    dev = float(np.max(np.abs(np.asarray(y, dtype=np.float64) - np.roll(np.asarray(y0, dtype=np.float64), pos, axis=(0, 1, 2)))))
    obs.check(dev <= tol * abs(amp), kind, "commutes-with-circular-shift", f"shift {pos}: |F(shift x) - shift F(x)|max = {dev:.3e}")
    # a random field is filtered bin by bin with the same table
    r = _field(box, dtype)
    yr = obs.lib(kind, fn, r.copy(), fourier_pixels=c, gaussian=s)
    if _real_ok(obs, kind, yr, r):
        want = np.real(np.fft.ifftn(g * np.fft.fftn(r.astype(np.float64))))
        dev = float(np.max(np.abs(np.asarray(yr, dtype=np.float64) - want)))
        obs.check(dev <= tol * max(1.0, float(np.max(np.abs(r)))) * 10, kind, "random-field-filtered-bin-by-bin", f"|F(r) - ifft(G*fft r)|max = {dev:.3e}")
    obs.nontrivial = bool(g.max() > 0.5 and g.min() < 0.5)
    obs.outcome = (round(float(g.sum()), 6), round(float(g.flat[1]), 9))


# ---------------------------------------------------------------------------------------------
# linearity on two-wave combinations

def _partners(box, c):
    far = (box[0] // 2, 1, -1)
    return [((0, 0, 0), "cos"), ((0, c, 0), "cos"), (far, "sin")]


def ex_linear(case, obs):
    from cryocat import cryomap

    box, kind, c, s, (k1, ph1), pi, seed = case
    fn = getattr(cryomap, kind)
    k2v, ph2 = _partners(box, c)[pi]
    a, b = COEFFS[(sum(abs(int(v)) for v in k1) + pi + seed) % len(COEFFS)]
    x1 = f3.plane_wave(box, k1, ph1)
    x2 = f3.plane_wave(box, k2v, ph2)
    y1 = obs.lib(kind, fn, x1.copy(), fourier_pixels=c, gaussian=s)
    y2 = obs.lib(kind, fn, x2.copy(), fourier_pixels=c, gaussian=s)
    y12 = obs.lib(kind, fn, a * x1 + b * x2, fourier_pixels=c, gaussian=s)
    dev = float(np.max(np.abs(y12 - (a * y1 + b * y2))))
    obs.check(dev <= TOL * (abs(a) + abs(b)), kind, "additive-and-homogeneous", f"{a}*{k1}{ph1} + {b}*{k2v}{ph2}: |F(ax+by) - aF(x) - bF(y)|max = {dev:.3e}")
    obs.nontrivial = f3.k_squared(k1, box) > 0
    obs.outcome = (round(f3.gain_of(y1, x1)[0], 9), round(float(np.abs(y12).max()), 6))


# ---------------------------------------------------------------------------------------------
# band-pass

def _judge_band_gain(obs, g, k2, lp, hp, slp, shp, tol):
    g = np.asarray(g, dtype=np.float64)
    k2 = np.asarray(k2)
    if slp == shp:
        obs.check(g.min() >= -tol and g.max() <= 1 + tol, "bandpass", "gain-in-unit-interval", f"band gain spans [{g.min()!r}, {g.max()!r}]")
    if slp == 0 and shp == 0:
        for clause, sel, want in (("hard-band-at-or-below-inner-cutoff", k2 <= hp * hp, 0.0),
                                  ("hard-band-inside", (k2 > hp * hp) & (k2 <= lp * lp), 1.0),
                                  ("hard-band-beyond-outer-cutoff", k2 > lp * lp, 0.0)):
            if np.any(sel):
                dev = float(np.max(np.abs(g[sel] - want)))
                obs.check(dev <= tol, "bandpass", clause, f"lp {lp} hp {hp}: gain deviates from {want} by {dev:.3e}")


def ex_bp_wave(case, obs):
    from cryocat import cryomap

    box, (lp, hp), (slp, shp), (k, phase), seed = case
    amp = _amp(k, seed)
    tol = TOL * abs(amp)
    x = f3.plane_wave(box, k, phase, amp)
    y = obs.lib("bandpass", cryomap.bandpass, x.copy(), lp_fourier_pixels=lp, hp_fourier_pixels=hp, lp_gaussian=slp, hp_gaussian=shp)
    if not _real_ok(obs, "bandpass", y, x):
        obs.outcome = ("bad-output",)
        return
    g, res = f3.gain_of(y, x)
    obs.check(res <= tol, "bandpass", "wave-is-eigenfunction", f"k {k} {phase}: |y - g*x|max = {res:.3e} (g = {g:.6g})")
    a = obs.lib("lowpass", cryomap.lowpass, x.copy(), fourier_pixels=lp, gaussian=slp)
    b = obs.lib("lowpass", cryomap.lowpass, x.copy(), fourier_pixels=hp, gaussian=shp)
    dev = float(np.max(np.abs(y - (a - b))))
    obs.check(dev <= tol, "bandpass", "bandpass-is-difference-of-lowpasses", f"k {k} {phase} lp {lp}/{slp} hp {hp}/{shp}: |bp - (lp_a - lp_b)|max = {dev:.3e}")
    _judge_band_gain(obs, g, f3.k_squared(k, box), lp, hp, slp, shp, TOL)
    obs.nontrivial = f3.k_squared(k, box) > 0
    obs.outcome = round(g, 9)


def ex_bp_table(case, obs):
    from cryocat import cryomap

    box, (lp, hp), slp, shp, pos, seed = case
    x, amp = _delta(box, pos, "float64", seed)
    kw = dict(lp_fourier_pixels=lp, hp_fourier_pixels=hp, lp_gaussian=slp, hp_gaussian=shp)
    y = obs.lib("bandpass", cryomap.bandpass, x.copy(), **kw)
    if not _real_ok(obs, "bandpass", y, x):
        obs.outcome = ("bad-output",)
        return
    G = _table(y, x)
    im = float(np.max(np.abs(G.imag)))
    obs.check(im <= TOL, "bandpass", "transfer-function-real", f"max |Im| = {im:.3e}")
    g = G.real
    a = obs.lib("lowpass", cryomap.lowpass, x.copy(), fourier_pixels=lp, gaussian=slp)
    b = obs.lib("lowpass", cryomap.lowpass, x.copy(), fourier_pixels=hp, gaussian=shp)
    dev = float(np.max(np.abs(g - _table(a - b, x).real)))
    obs.check(dev <= TOL, "bandpass", "bandpass-is-difference-of-lowpasses", f"lp {lp}/{slp} hp {hp}/{shp}: tables differ by {dev:.3e}")
    _judge_band_gain(obs, g, f3.k2_grid(box), lp, hp, slp, shp, TOL)
    x0 = np.zeros(box)
    x0[0, 0, 0] = amp
    y0 = obs.lib("bandpass", cryomap.bandpass, x0, **kw)
    dev = float(np.max(np.abs(y - np.roll(y0, pos, axis=(0, 1, 2)))))
    obs.check(dev <= TOL * abs(amp), "bandpass", "commutes-with-circular-shift", f"shift {pos}: {dev:.3e}")
    r = _field(box, "float64")
    yr = obs.lib("bandpass", cryomap.bandpass, r.copy(), **kw)
    if _real_ok(obs, "bandpass", yr, r):
        dev = float(np.max(np.abs(yr - np.real(np.fft.ifftn(g * np.fft.fftn(r))))))
        obs.check(dev <= TOL * 10 * max(1.0, float(np.abs(r).max())), "bandpass", "random-field-filtered-bin-by-bin", f"{dev:.3e}")
    obs.nontrivial = bool(np.abs(g).max() > 0.5)
    obs.outcome = (round(float(g.sum()), 6), round(float(g.flat[1]), 9))


# ---------------------------------------------------------------------------------------------
# resolution -> Fourier pixels

FRACS = (0.0, -0.4, 0.3, 0.45, -0.2)


def _quiet(fn, *a, **k):
    with contextlib.redirect_stdout(io.StringIO()):
        return fn(*a, **k)


def _accepted(box, px, res):
    """Pixel counts allowed by the statement: round(N_a*px/res) for some axis (ties on other axes allow both)."""
    first = f3.expected_pixels(box[0], px, res)
    if first is None:
        raise HarnessError(f"resolution grid produced a rounding tie: box {box} px {px} res {res}")
    acc = {first}
    for n in box[1:]:
        e = f3.expected_pixels(n, px, res)
        if e is None:
            v = n * px / res
            acc.update({int(np.floor(v)), int(np.ceil(v))})
        else:
            acc.add(e)
    return first, sorted(acc)


def ex_tie(case, obs):
    from cryocat import cryomap

    n0, t = case
    res = n0 / t
    if n0 * 1.0 / res != t:
        raise HarnessError(f"tie grid: {n0}/{res!r} is not exactly {t}")
    want = round(t)
    obs.nontrivial = True
    got = obs.lib("resolution2pixels", _quiet, cryomap.resolution2pixels, res, n0, 1.0)
    obs.check(got == want, "resolution2pixels", "pixels-are-round(box*px/res)", f"edge {n0} px 1.0 res {res!r}: {got!r}, expected round({t}) = {want}", "exact-tie")
    got = obs.lib("get_filter_radius", _quiet, cryomap.get_filter_radius, n0, None, res, 1.0)
    obs.check(got == want, "get_filter_radius", "pixels-are-round(box*px/res)", f"edge {n0} px 1.0 res {res!r}: {got!r}, expected {want}", "exact-tie")
    obs.outcome = (n0, t, got)


def ex_res(case, obs):
    from cryocat import cryomap

    box, kind, px, targets, frac, s, seed = case
    cubic = box[0] == box[1] == box[2]
    cls = "cubic" if cubic else "non-cubic"
    n0 = box[0]
    ress, accs = [], []
    for p in targets:
        res = n0 * px / (p + frac)
        first, acc = _accepted(box, px, res)
        if first != p:
            raise HarnessError(f"grid construction: expected {p}, exact rounding gives {first}")
        ress.append(res)
        accs.append(acc)
        got = obs.lib("resolution2pixels", _quiet, cryomap.resolution2pixels, res, n0, px)
        obs.check(got == p, "resolution2pixels", "pixels-are-round(box*px/res)", f"edge {n0} px {px} res {res!r}: {got!r}, expected {p} (= round({p + frac}))")
        got = obs.lib("get_filter_radius", _quiet, cryomap.get_filter_radius, n0, None, res, px)
        obs.check(got == p, "get_filter_radius", "pixels-are-round(box*px/res)", f"edge {n0} px {px} res {res!r}: {got!r}, expected {p}")
        got = obs.lib("get_filter_radius", _quiet, cryomap.get_filter_radius, n0, p, None, px)
        obs.check(got == p, "get_filter_radius", "given-pixels-returned", f"{got!r} vs {p}")
        back = obs.lib("pixels2resolution", _quiet, cryomap.pixels2resolution, p, n0, px)
        obs.check(abs(back - n0 * px / p) <= 1e-12 * abs(back), "pixels2resolution", "resolution-is-box*px/pixels", f"{back!r} vs {n0 * px / p!r}")
    pos = (1 % box[0], 2 % box[1], 3 % box[2])
    x, amp = _delta(box, pos, "float64", seed)
    fn = getattr(cryomap, kind)
    if kind == "bandpass":
        lp, hp = targets
        y = obs.lib(kind, _quiet, fn, x.copy(), lp_target_resolution=ress[0], hp_target_resolution=ress[1], pixel_size=px, lp_gaussian=s, hp_gaussian=s)
        cands = [(a, b) for a in accs[0] for b in accs[1]]
        refs = [obs.lib(kind, _quiet, fn, x.copy(), lp_fourier_pixels=a, hp_fourier_pixels=b, lp_gaussian=s, hp_gaussian=s) for a, b in cands]
        ypx = obs.lib(kind, _quiet, fn, x.copy(), lp_fourier_pixels=lp, hp_fourier_pixels=hp, pixel_size=px, lp_gaussian=s, hp_gaussian=s)
        yplain = obs.lib(kind, _quiet, fn, x.copy(), lp_fourier_pixels=lp, hp_fourier_pixels=hp, lp_gaussian=s, hp_gaussian=s)
    else:
        (p,) = targets
        y = obs.lib(kind, _quiet, fn, x.copy(), target_resolution=ress[0], pixel_size=px, gaussian=s)
        cands = list(accs[0])
        refs = [obs.lib(kind, _quiet, fn, x.copy(), fourier_pixels=a, gaussian=s) for a in cands]
        ypx = obs.lib(kind, _quiet, fn, x.copy(), fourier_pixels=p, pixel_size=px, gaussian=s)
        yplain = obs.lib(kind, _quiet, fn, x.copy(), fourier_pixels=p, gaussian=s)
    if not _real_ok(obs, kind, y, x):
        obs.outcome = ("bad-output",)
        return
    # the identities of the statement hold "with the same parameters" - also when those are resolution + pixel size
    # (this is what pins the edge used for the conversion to be the SAME in the three filters on non-cubic boxes)
    if kind == "highpass":
        ylp = obs.lib("lowpass", _quiet, cryomap.lowpass, x.copy(), target_resolution=ress[0], pixel_size=px, gaussian=s)
        dev = float(np.max(np.abs(y - (x - ylp))))
        obs.check(dev <= TOL * abs(amp), "highpass", "highpass-is-complement-of-lowpass", f"resolution {ress[0]} px {px} sigma {s}: |hp - (x - lp)|max = {dev:.3e}", "resolution-parameters;" + cls)
    elif kind == "bandpass":
        a = obs.lib("lowpass", _quiet, cryomap.lowpass, x.copy(), target_resolution=ress[0], pixel_size=px, gaussian=s)
        b = obs.lib("lowpass", _quiet, cryomap.lowpass, x.copy(), target_resolution=ress[1], pixel_size=px, gaussian=s)
        dev = float(np.max(np.abs(y - (a - b))))
        obs.check(dev <= TOL * abs(amp), "bandpass", "bandpass-is-difference-of-lowpasses", f"resolutions {ress} px {px} sigma {s}: |bp - (lp_a - lp_b)|max = {dev:.3e}", "resolution-parameters;" + cls)
    devs = [float(np.max(np.abs(y - r))) for r in refs]
    obs.check(min(devs) <= TOL * abs(amp), kind, "resolution-cutoff-equals-pixel-cutoff",
              f"target resolution(s) {ress} px {px}: output differs from the fourier_pixels call(s) {cands} by {devs}", cls)
    obs.check(float(np.max(np.abs(ypx - yplain))) <= TOL * abs(amp), kind, "pixel-size-does-not-change-a-pixel-cutoff", f"fourier_pixels {targets} with pixel_size {px}", cls)
    if s == 0:
        g = _table(y, x).real
        k2 = f3.k2_grid(box)
        if kind == "bandpass":
            wants = [((k2 > b * b) & (k2 <= a * a)).astype(float) for a, b in cands]
        elif kind == "lowpass":
            wants = [f3.hard_lowpass(k2, a) for a in cands]
        else:
            wants = [1.0 - f3.hard_lowpass(k2, a) for a in cands]
        dv = [float(np.max(np.abs(g - w))) for w in wants]
        obs.check(min(dv) <= TOL, kind, "resolution-hard-gain-at-round(box*px/res)", f"targets {targets} (resolutions {ress}, px {px}): table deviates by {dv} from cutoffs {cands}", cls)
    obs.nontrivial = True
    obs.outcome = (round(float(np.asarray(y).sum()), 6), round(float(np.abs(y).max()), 6))


# ---------------------------------------------------------------------------------------------
# spaces

def _cutoffs(box):
    # up to the Nyquist radius of the LONGEST axis: on a non-cubic box the pass-band sphere is then cut by the faces of the
    # short axes (cutoffs 1..N/2 with N "per axis" in the quantifier)
    return list(range(1, max(box) // 2 + 1))


def _alt_waves(box):
    """Every frequency of the half lattice once, phases alternating (cos for self-conjugate frequencies)."""
    out = []
    for i, k in enumerate(f3.half_space(box)):
        out.append((k, "cos" if (i % 2 == 0 or f3.self_conjugate(k, box)) else "sin"))
    return out


def _positions(box, seed):
    pos = [(0, 0, 0)]
    for a in range(3):
        for i in range(1, box[a]):
            p = [0, 0, 0]
            p[a] = i
            pos.append(tuple(p))
    pos.append(((1 + seed) % box[0] or 1, (2 + 3 * seed) % box[1] or 1, (3 + 5 * seed) % box[2] or 1))
    return pos


def _pixel_sizes(seed):
    if seed == 0:
        return (1.0, 1.35, 7.89)
    return (1.0, round(1.35 + 0.013 * seed, 6), round(7.89 / (1 + 0.1 * seed), 6))


def families(tier, seed):
    quick = tier == "quick"
    # (13, 8, 8): an edge with a prime factor above 11 - the sizes FFT libraries call "slow" and code is tempted to pad
    boxes = [(8, 8, 8), (9, 9, 9), (8, 10, 12), (9, 8, 11), (13, 8, 8)]
    if not quick:
        boxes += [(12, 12, 12), (12, 9, 10), (16, 16, 16), (13, 13, 13), (8, 17, 9)]
    S = [seed]
    fams = []
    fams.append(Family(
        "waves", Union(*[Product([b], _cutoffs(b), SIGMAS, f3.half_space(b), S) for b in boxes]), ex_wave,
        expect=("output-real-same-shape", "wave-is-eigenfunction", "gain-in-unit-interval", "highpass-is-complement-of-lowpass",
                "hard-gain-inside-cutoff", "hard-gain-on-cutoff-sphere", "hard-gain-beyond-cutoff", "soft-plateau-inside",
                "soft-plateau-outside", "soft-transition-band", "gain-independent-of-phase")))
    fams.append(Family(
        "rays", Union(*[Product([b], _cutoffs(b), SIGMAS, DIRS) for b in boxes]), ex_ray,
        expect=("lowpass-non-increasing-along-ray", "highpass-non-decreasing-along-ray")))
    fams.append(Family(
        "tables", Union(*[Product([b], ["lowpass", "highpass"], _cutoffs(b), SIGMAS, ["float64", "float32", "int16"], _positions(b, seed), S) for b in boxes]),
        ex_table,
        expect=("transfer-function-real", "gain-in-unit-interval", "hard-gain-on-cutoff-sphere", "hard-gain-beyond-cutoff", "soft-plateau-inside",
                "soft-plateau-outside", "lowpass-monotone-along-rays", "highpass-monotone-along-rays", "commutes-with-circular-shift",
                "random-field-filtered-bin-by-bin")))
    fams.append(Family(
        "linearity",
        Union(*[Product([b], ["lowpass", "highpass"], sorted({1, max(_cutoffs(b))}) if quick else sorted({1, (1 + max(_cutoffs(b))) // 2, max(_cutoffs(b))}), (0, 1, 3), _alt_waves(b), [0, 1, 2], S)
                for b in boxes]),
        ex_linear, expect=("additive-and-homogeneous",)))
    bands = lambda b: [(lp, hp) for lp in _cutoffs(b) for hp in _cutoffs(b) if hp < lp]  # noqa: E731
    fams.append(Family(
        "bandpass-waves", Union(*[Product([b], bands(b), [(0, 0), (3, 2), (1, 0.5)], _alt_waves(b), S) for b in boxes]), ex_bp_wave,
        expect=("wave-is-eigenfunction", "bandpass-is-difference-of-lowpasses", "hard-band-at-or-below-inner-cutoff", "hard-band-inside",
                "hard-band-beyond-outer-cutoff", "gain-in-unit-interval")))
    fams.append(Family(
        "bandpass-tables",
        Union(*[Product([b], bands(b), SIGMAS, SIGMAS, [(0, 0, 0), _positions(b, seed)[-1]], S) for b in boxes]), ex_bp_table,
        expect=("transfer-function-real", "bandpass-is-difference-of-lowpasses", "hard-band-inside", "gain-in-unit-interval",
                "commutes-with-circular-shift", "random-field-filtered-bin-by-bin")))
    res_parts = []
    for b in boxes:
        single = [(p,) for p in range(1, b[0] // 2 + 1)]
        pairs = [(lp, hp) for lp in range(1, b[0] // 2 + 1) for hp in range(1, lp)]
        res_parts.append(Product([b], ["lowpass", "highpass"], _pixel_sizes(seed), single, FRACS, (0, 2), S))
        res_parts.append(Product([b], ["bandpass"], _pixel_sizes(seed), pairs, FRACS, (0, 2), S))
    fams.append(Family(
        "resolution", Union(*res_parts), ex_res,
        expect=("pixels-are-round(box*px/res)", "given-pixels-returned", "resolution-is-box*px/pixels", "resolution-cutoff-equals-pixel-cutoff",
                "pixel-size-does-not-change-a-pixel-cutoff", "resolution-hard-gain-at-round(box*px/res)", "highpass-is-complement-of-lowpass",
                "bandpass-is-difference-of-lowpasses")))
    ties = [(n0, t) for n0 in (8, 12, 16, 20, 28, 48) for t in (0.5, 1.5, 2.5, 3.5, 4.5, 5.5) if n0 * 1.0 / (n0 / t) == t]
    from ..space import Listed
    fams.append(Family("resolution-ties", Listed(ties), ex_tie, expect=("pixels-are-round(box*px/res)",)))
    from ..engine import with_array_layouts
    fams.append(with_array_layouts(fams[0], select=lambda c: tuple(c[0]) == (9, 8, 11) and c[1] == 2,
                                   expect=("wave-is-eigenfunction", "highpass-is-complement-of-lowpass")))   # waves, one box and cutoff
    return fams
