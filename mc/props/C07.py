"""C07 — score-ranked distance suppression keeps a separated, dominating set.

Two public functions are driven: `Motl.clean_by_distance` (particle lists) and `tmana.scores_extract_particles`
(template-matching peak extraction).  Both are judged with the two predicates of the statement (survivors
separated, every removed/supra-threshold point dominated by a survivor within the radius), with the unique
greedy solution those predicates have for distinct scores (mc.oracles.suppress), and – for the particle lists –
differentially: a group cleaned together with other groups must keep what it keeps when it is cleaned alone.
"""
import contextlib
import io
import itertools
import math

import numpy as np

# imported at module level (i.e. in the parent, before the workers fork and gc.freeze()): tmana calls gc.collect()
from cryocat import cryomotl as cm
from cryocat import tmana

from ..engine import Family, HarnessError
from ..motlgen import COLS, frame
from ..oracles import suppress as sup
from ..space import Listed, Mapped, Product, Union

RULE = (
    "clean_by_distance: cases = site subset (6-site skew line / 3x3 skew grid, jittered) x score assignment (every "
    "ranking, plus every ranking with exactly one tied pair) x assignment of the particles to groups (restricted-growth "
    "strings) x radius x keep_greater x (grouping field, metric field, shifts on/off).  tmana: cases = volume shape x "
    "every ranking of its voxels x number of supra-threshold voxels x diameter x angle-list numbering/order/source.  "
    "Non-trivial = at least one particle (supra-threshold voxel) was suppressed and at least one kept; distinct = "
    "distinct case descriptions.  Outcome = the surviving ids / peak voxels."
)
BOUNDS = {
    "quick": (
        "clean_by_distance: line subsets n<=4 x (all n! rankings; one-tie rankings for n<=3) x every assignment to <=2 groups x "
        "d in {0.9,1.6,2.7} x both directions; grid subsets n<=3 likewise (ties for n<=2); grid n=4 one group, all 24 rankings; plumbing "
        "family (3 grouping fields x 2 metric fields x shifts on/off = 12 combinations, d in {1.6,2.7}) on line n<=3.  tmana: 5 six-voxel "
        "shapes x all 720 rankings x 6 thresholds x diameters {1.2,2.5} (+ {0.9,1.8} on 3 shapes); angle family (numbering 0/1 x zxz/zzx x "
        "array/file list; (3,2,1) with all 720 rankings, 12 rankings on the other shapes); three 5x4x3 volumes x 6 thresholds x 4 diameters x 8 "
        "angle configurations"
    ),
    "thorough": (
        "clean_by_distance: line n<=5 (ties for n<=4) x <=3 groups; grid n<=4 (ties for n<=3) x <=3 groups; grid n=5 one group; plumbing on "
        "line n<=4.  tmana: quick + the 2x2x2 volume with all 40320 rankings x 3 thresholds x 4 diameters"
    ),
}
ASSUMPTIONS = [
    "no pair distance within 1e-3 of a radius of the alphabet (proved by brute force over all site pairs before the run)",
    "scores finite; ties only where stated (exactly one tied pair); the differential and the greedy-model clauses are not "
    "applied to groups that contain a score tie (the statement does not pin which of two tied particles survives)",
    "tmana: scores_threshold given explicitly, symmetry c1, no cluster_size / n_particles / tomo_mask; maps passed as float64 arrays",
    "tables have float64 columns",
]
BUDGET_S = {"quick": 600, "thorough": 3000}

SITE_CLEAN = "Motl.clean_by_distance"
SITE_TM = "tmana.scores_extract_particles"

# ------------------------------------------------------------------------------------------------------------
# geometry of the particle scenes

RADII = (0.9, 1.6, 2.7)
U = np.array([2.0, 1.0, 2.0]) / 3.0
V = np.array([-1.0, -2.0, 2.0]) / 3.0
W = np.array([2.0, -2.0, -1.0]) / 3.0
ORIGIN = np.array([10.5, 20.25, 7.125])
LINE_T = (0.0, 0.83, 2.04, 3.31, 3.97, 5.86)
GRID_A = (0.0, 0.83, 2.04)
GRID_B = (0.0, 1.27, 1.93)
# seed 0: hand-written jitter (components along U, V, W)
JIT0 = (
    (0.000, 0.013, -0.021), (0.011, -0.017, 0.006), (-0.008, 0.004, 0.019), (0.017, 0.009, -0.012), (-0.014, -0.006, 0.003),
    (0.005, 0.021, 0.010), (-0.019, 0.002, -0.007), (0.009, -0.011, 0.015), (0.002, 0.016, -0.004),
)
MARGIN = 1e-3


def _jitter(n, seed, attempt):
    if seed == 0 and attempt == 0:
        return np.array(JIT0[:n])
    rs = np.random.RandomState(7919 * seed + 104729 * attempt + 17)
    return rs.uniform(-0.05, 0.05, size=(n, 3))


def _sites(kind, seed):
    """Sites of a layout, jittered; the jitter is re-drawn until no pair distance is within MARGIN of a radius."""
    if kind == "line":
        base = [(t, 0.0, 0.0) for t in LINE_T]
    else:
        base = [(a, b, 0.0) for a in GRID_A for b in GRID_B]
    for attempt in range(200):
        jit = _jitter(len(base), seed, attempt)
        pts = [ORIGIN + (b[0] + j[0]) * U + (b[1] + j[1]) * V + (b[2] + j[2]) * W for b, j in zip(base, jit)]
        if sup.min_margin(pts, RADII) >= MARGIN:
            return np.array(pts)
    raise HarnessError(f"C07: no tie-free jitter found for layout {kind} seed {seed}")


_SITE_CACHE = {}


def sites(kind, seed):
    key = (kind, seed)
    if key not in _SITE_CACHE:
        if kind == "line-dup":   # the line plus a seventh site that COINCIDES with site 1 (distance 0 < d: one of the two must go)
            base = sites("line", seed)
            pts = np.vstack([np.asarray(base), np.asarray(base)[1:2]])
            _SITE_CACHE[key] = pts
            return pts
        pts = _sites(kind, seed)
        # brute-force re-verification of the genericity precondition on the palette actually used
        if sup.min_margin(pts, RADII) < MARGIN:
            raise HarnessError("C07: tie exclusion failed")
        _SITE_CACHE[key] = pts
    return _SITE_CACHE[key]


def score_values(seed):
    """Strictly increasing score palette (level -> value); negative, zero and close values included."""
    if seed == 0:
        vals = [-0.35, 0.0, 0.125, 0.5, 0.77]
    else:
        rs = np.random.RandomState(31 * seed + 5)
        vals = sorted(set(np.round(rs.uniform(-1.0, 1.0, size=5), 3).tolist()))
        k = 0
        while len(vals) < 5:
            k += 1
            vals = sorted(set(vals + [1.0 + 0.25 * k]))
    if any(b <= a for a, b in zip(vals, vals[1:])):
        raise HarnessError("C07: score palette not strictly increasing")
    return vals


IDS = (12.0, 5.0, 31.0, 8.0, 20.0, 2.0)
SHIFTS = ((1.5, 0.0, -0.75), (-2.25, 0.5, 0.0), (0.0, -1.75, 0.75), (0.625, 2.0, -1.25), (-0.5, -0.5, 3.0))
GROUP_LABELS = (5.0, 2.0, 9.0)
FEATURES = ("tomo_id", "object_id", "class")
FILLER = ("subtomo_mean", "geom2", "geom3", "geom4", "geom5", "phi", "psi", "theta")


def rankings(n, ties):
    """Score-level assignments: every permutation of n distinct levels; with ties also every surjection onto n-1
    levels (exactly one tied pair)."""
    out = [tuple(p) for p in itertools.permutations(range(n))]
    if ties and n >= 2:
        for lv in itertools.product(range(n - 1), repeat=n):
            if len(set(lv)) == n - 1:
                out.append(tuple(lv))
    return out


def groupings(n, gmax):
    """Restricted-growth strings with at most gmax blocks = every assignment to <= gmax unlabeled groups."""
    out = []

    def rec(pref, used):
        if len(pref) == n:
            out.append(tuple(pref))
            return
        for g in range(min(used + 1, gmax)):
            rec(pref + [g], max(used, g + 1))

    rec([], 0)
    out.sort(key=lambda g: (max(g), g))
    return out


def build_rows(kind, subset, levels, groups, feature, metric, shifted, seed):
    pts = sites(kind, seed)
    sv = score_values(seed)
    top = max(levels)
    rows = []
    other = [f for f in FEATURES if f != feature]
    # decoy partitions in the two grouping fields that are NOT used: all-different and constant
    k = FEATURES.index(feature)
    distinct_f, const_f = FEATURES[(k + 1) % 3], FEATURES[(k + 2) % 3]
    assert set(other) == {distinct_f, const_f}
    decoy_metric = "geom1" if metric == "score" else "score"
    for p, s in enumerate(subset):
        c = pts[s]
        sh = SHIFTS[p % len(SHIFTS)] if shifted else (0.0, 0.0, 0.0)
        r = {"subtomo_id": IDS[p], "x": c[0] - sh[0], "y": c[1] - sh[1], "z": c[2] - sh[2],
             "shift_x": sh[0], "shift_y": sh[1], "shift_z": sh[2]}
        r[metric] = sv[levels[p]]
        r[decoy_metric] = sv[top - levels[p]]  # the reversed ranking
        r[feature] = GROUP_LABELS[groups[p]]
        r[distinct_f] = float(p + 1)
        r[const_f] = 1.0
        for q, f in enumerate(FILLER):
            r[f] = 1000.0 * (p + 1) + 10.0 * q + 0.5
        rows.append(r)
    return rows


@contextlib.contextmanager
def quiet():
    with contextlib.redirect_stdout(io.StringIO()):
        yield


def _clean(obs, rows, d, feature, metric, kg):
    m = obs.lib("Motl.__init__", cm.Motl, frame(rows))
    with quiet():
        obs.lib(SITE_CLEAN, m.clean_by_distance, d, feature, metric_id=metric, keep_greater=kg)
    return m.df


def _survivors(obs, out, rows, cls, judge_fields=True):
    """Survivor indices (into rows) of an output table, or None if the table is not a sub-list of the input."""
    ok = out is not None and set(COLS) <= set(out.columns)
    obs.check(ok, SITE_CLEAN, "output-is-particle-table", lambda: f"columns {None if out is None else list(out.columns)}", cls)
    if not ok:
        return None
    by_id = {r["subtomo_id"]: i for i, r in enumerate(rows)}
    ids = [float(v) for v in out["subtomo_id"].to_numpy()]
    ok = all(i in by_id for i in ids) and len(set(ids)) == len(ids)
    obs.check(ok, SITE_CLEAN, "survivors-are-input-particles-once", lambda: f"output ids {ids}, input ids {sorted(by_id)}", cls)
    if not ok:
        return None
    if judge_fields:
        bad = []
        vals = {c: out[c].to_numpy() for c in COLS}
        for k, i in enumerate(ids):
            r = rows[by_id[i]]
            for c in COLS:
                if float(vals[c][k]) != float(r.get(c, 0.0)):
                    bad.append((i, c, float(vals[c][k]), float(r.get(c, 0.0))))
        obs.check(not bad, SITE_CLEAN, "survivor-fields-unchanged", lambda: f"(id, field, got, input): {bad[:4]}", cls)
    return {by_id[i] for i in ids}


def exec_clean(case, obs):
    kind, subset, levels, groups, d, kg, (feature, metric, shifted), seed = case
    rows = build_rows(kind, subset, levels, groups, feature, metric, shifted, seed)
    n = len(rows)
    tie_any = len(set(levels)) < n
    cls = ("keep-greater" if kg else "keep-lower") + ("+score-tie" if tie_any else "")
    out = _clean(obs, rows, d, feature, metric, kg)
    kept = _survivors(obs, out, rows, cls)
    if kept is None:
        obs.outcome = ("malformed",)
        return
    pts = [(r["x"] + r["shift_x"], r["y"] + r["shift_y"], r["z"] + r["shift_z"]) for r in rows]
    scores = [r[metric] for r in rows]
    labels = sorted(set(groups))
    removed_total = 0
    for g in labels:
        members = [i for i in range(n) if groups[i] == g]
        gk = kept & set(members)
        gr = [i for i in members if i not in gk]
        removed_total += len(gr)
        # (1) no two survivors of a group closer than d
        bad = sup.separated(pts, gk, d)
        obs.check(not bad, SITE_CLEAN, "survivors-separated",
                  lambda: f"d={d}: survivors {[(rows[i]['subtomo_id'], rows[j]['subtomo_id'], round(x, 4)) for i, j, x in bad]} (id, id, distance) in one group", cls)
        # (2) every removed particle is dominated by a survivor of its own group
        if gr:
            und = sup.undominated(pts, scores, gk, gr, d, greater=kg)
            obs.check(not und, SITE_CLEAN, "removed-dominated",
                      lambda: f"d={d}: removed ids {[rows[i]['subtomo_id'] for i in und]} have no surviving group member within d with "
                              f"{'>=' if kg else '<='} {metric}; survivors {[rows[i]['subtomo_id'] for i in sorted(gk)]}", cls)
        # reference model (unique solution for distinct scores)
        model = sup.greedy(pts, scores, members, d, greater=kg)
        if model is not None:
            obs.check(gk == model, SITE_CLEAN, "survivors-equal-greedy-model",
                      lambda: f"d={d}: survivors {[rows[i]['subtomo_id'] for i in sorted(gk)]}, model {[rows[i]['subtomo_id'] for i in sorted(model)]}", cls)
    # (3) differential: each group cleaned alone keeps the same particles
    if len(labels) >= 2:
        for g in labels:
            members = [i for i in range(n) if groups[i] == g]
            if len(members) < 2:
                continue  # a singleton cleaned alone trivially survives; its removal is already judged by removed-dominated
            if len({levels[i] for i in members}) < len(members):
                continue  # tie inside the group: survivor choice not pinned
            sub = [rows[i] for i in members]
            out_a = _clean(obs, sub, d, feature, metric, kg)
            ka = _survivors(obs, out_a, sub, cls, judge_fields=False)
            if ka is None:
                continue
            alone = {members[i] for i in ka}
            together = kept & set(members)
            obs.check(alone == together, SITE_CLEAN, "group-independent-of-other-groups",
                      lambda: f"d={d} field={feature}: group {GROUP_LABELS[g]} keeps ids {[rows[i]['subtomo_id'] for i in sorted(together)]} in the full list "
                              f"but {[rows[i]['subtomo_id'] for i in sorted(alone)]} when cleaned alone", cls)
    obs.nontrivial = removed_total >= 1 and len(kept) >= 1
    obs.outcome = tuple(sorted(rows[i]["subtomo_id"] for i in kept))


def exec_dense(case, obs):
    """Dense clusters: the best particle of a group has tens to hundreds of group members within d (the statement's
    1..400 particles in clusters).  Same three judgements as the small scenes, on brute-force distances."""
    n, d, kg, ngroups, shifted, seed = case
    rs = np.random.RandomState(9001 + 31 * seed + n)
    side = int(np.ceil(n ** (1.0 / 3.0)))
    cells = [(i, j, k) for i in range(side) for j in range(side) for k in range(side)][:n]
    for attempt in range(50):
        pts = np.array([ORIGIN + (c[0] + j[0]) * U + (c[1] + j[1]) * V + (c[2] + j[2]) * W
                        for c, j in zip(cells, rs.uniform(-0.2, 0.2, size=(n, 3)))])
        if sup.min_margin(list(pts), (d,)) >= 1e-7:
            break
    else:
        raise HarnessError("C07: no tie-free dense cluster found")
    order = [(k * 37 + 11) % n for k in range(n)] if np.gcd(37, n) == 1 else list(rs.permutation(n))
    rows = []
    for p in range(n):
        sh = SHIFTS[p % len(SHIFTS)] if shifted else (0.0, 0.0, 0.0)
        r = {"subtomo_id": float(1000 + 3 * p), "x": pts[p][0] - sh[0], "y": pts[p][1] - sh[1], "z": pts[p][2] - sh[2],
             "shift_x": sh[0], "shift_y": sh[1], "shift_z": sh[2], "score": -0.4 + 0.0031 * order[p], "geom1": 5.0 - 0.01 * order[p],
             "tomo_id": GROUP_LABELS[p % ngroups], "object_id": float(p + 1), "class": 1.0}
        rows.append(r)
    cls = ("keep-greater" if kg else "keep-lower") + ",dense-cluster"
    out = _clean(obs, rows, d, "tomo_id", "score", kg)
    kept = _survivors(obs, out, rows, cls)
    if kept is None:
        obs.outcome = ("malformed",)
        return
    P = [tuple(r[a] + r["shift_" + a] for a in "xyz") for r in rows]
    scores = [r["score"] for r in rows]
    for g in range(ngroups):
        members = [i for i in range(n) if i % ngroups == g]
        gk = kept & set(members)
        gr = [i for i in members if i not in gk]
        bad = sup.separated(P, gk, d)
        obs.check(not bad, SITE_CLEAN, "survivors-separated", lambda: f"d={d}, {n} particles: {len(bad)} survivor pairs closer than d, first {bad[:2]}", cls)
        if gr:
            und = sup.undominated(P, scores, gk, gr, d, greater=kg)
            obs.check(not und, SITE_CLEAN, "removed-dominated", lambda: f"d={d}, {n} particles: {len(und)} removed particles without a better survivor within d, first ids {[rows[i]['subtomo_id'] for i in und[:4]]}", cls)
        model = sup.greedy(P, scores, members, d, greater=kg)
        if model is not None:
            obs.check(gk == model, SITE_CLEAN, "survivors-equal-greedy-model",
                      lambda: f"d={d}, {n} particles: {len(gk)} survivors, model {len(model)}; only library {sorted(gk - model)[:5]}, only model {sorted(model - gk)[:5]}", cls)
    obs.nontrivial = 1 <= len(kept) < n
    obs.outcome = (n, len(kept), hash(tuple(sorted(kept))) & 0xFFFFFF)


def describe_clean(case):
    kind, subset, levels, groups, d, kg, (feature, metric, shifted), seed = case
    return {"layout": kind, "sites": list(subset), "score_levels": list(levels), "groups": list(groups), "d": d,
            "keep_greater": kg, "feature_id": feature, "metric_id": metric, "shifts": shifted}


def clean_shapes(kind, nsites, ns, ties_upto, gmax, single_group_from=None):
    """(layout, subset, levels, groups) simplest first."""
    out = []
    for n in ns:
        for subset in itertools.combinations(range(nsites), n):
            for lv in rankings(n, ties=n <= ties_upto):
                gm = 1 if (single_group_from is not None and n >= single_group_from) else gmax
                for gr in groupings(n, gm):
                    out.append((kind, subset, lv, gr))
    return out


P0 = ("tomo_id", "score", False)
PLUMBING = [(f, m, s) for f in FEATURES for m in ("score", "geom1") for s in (False, True)]


def clean_family(name, shapes, radii, plumbing, seed, expect):
    def mk(c):
        (kind, subset, lv, gr), d, kg, pl = c
        return (kind, subset, lv, gr, d, kg, pl, seed)

    sp = Mapped(Product(Listed(shapes), radii, (True, False), plumbing), mk)
    return Family(name, sp, exec_clean, expect=expect, describe=describe_clean)


# ------------------------------------------------------------------------------------------------------------
# template-matching peak extraction

DIAMETERS = (0.9, 1.2, 1.8, 2.5)
SHAPES6 = ((6, 1, 1), (1, 6, 1), (1, 1, 6), (3, 2, 1), (2, 1, 3))
PERM_AB = {6: (5, 2), 8: (3, 5), 60: (7, 11)}


def tm_scores(nvox, seed):
    """Strictly increasing plateau-free score palette (rank -> value)."""
    if nvox <= 8:
        base = [-0.2, 0.05, 0.11, 0.3, 0.31, 0.9, 1.5, 2.25]
        vals = [b + 0.013 * seed * (k % 3) for k, b in enumerate(base)][:nvox]
    else:
        vals = [-0.3 + 0.01 * r + 0.0001 * r * r + 0.001 * ((r * (seed + 3)) % 5) for r in range(nvox)]
    vals = sorted(vals)
    if any(b <= a for a, b in zip(vals, vals[1:])):
        raise HarnessError("C07: tmana score palette has a plateau")
    return vals


def tm_threshold(vals, k):
    """A threshold with exactly k voxels strictly above it (between two consecutive ranks)."""
    n = len(vals)
    if k >= n:
        return vals[0] - 0.1
    if k <= 0:
        return vals[-1] + 0.1
    return 0.5 * (vals[n - k - 1] + vals[n - k])


def tm_angle_list(nvox, seed):
    """Rows (a0, a1, a2), all entries distinct; two unused decoy rows at the end."""
    rows = nvox + 2
    s = 0.5 * seed
    return np.array([[10.0 + 7.5 * r + s, 100.0 + 3.25 * r + s, 200.0 + 1.125 * r + s] for r in range(rows)])


def lattice_margin(shape):
    pts = list(itertools.product(*(range(s) for s in shape)))
    return sup.min_margin(pts, DIAMETERS)


def exec_tm(case, obs):
    shape, ranking, k_supra, diam, numbering, order, source, seed = case
    layout = "C"
    if "|" in source:
        source, layout = source.split("|")
    nvox = int(np.prod(shape))
    vals = tm_scores(nvox, seed)
    sigma = k_supra[1] if isinstance(k_supra, tuple) else None
    thr = 0.0 if (k_supra == -1 or sigma is not None) else tm_threshold(vals, k_supra)
    scores = np.array([vals[r] for r in ranking], dtype=np.float64).reshape(shape)
    if sigma is not None:
        # threshold given as "sigma standard deviations above the mean": both usual definitions of the standard deviation
        # must select the same voxels, otherwise the case says nothing
        t0, t1 = scores.mean() + sigma * scores.std(ddof=0), scores.mean() + sigma * scores.std(ddof=1)
        if any(min(t0, t1) <= v <= max(t0, t1) for v in vals):
            obs.outcome = ("not-judged: a voxel score lies between the thresholds of the two std definitions",)
            return
        thr = float(t1)
    a, b = PERM_AB[nvox]
    rowof = np.array([(a * f + b) % nvox for f in range(nvox)]).reshape(shape)
    alist = tm_angle_list(nvox, seed)
    if layout == "long":
        # a fine angular search: 33 000 list rows in front of the ones the map points to (row numbers beyond 32 767)
        q = np.arange(33000, dtype=np.float64)
        alist = np.vstack([np.column_stack([-500.0 + 0.01 * q, 1.0 + 0.003 * q, 77.0 + 0.002 * q]), alist])
        rowof = rowof + 33000
        layout = "C"
    amap = (rowof + numbering).astype(np.float64)
    if source == "file":
        path = "c07_angles.csv"
        with open(path, "w") as fh:
            for row in alist:
                fh.write(",".join(repr(float(v)) for v in row) + "\n")
        alist_arg = path
    else:
        alist_arg = alist.copy()
    cls_ang = f"{source}-list-{order}"
    # how the two maps reach the function: as C-ordered arrays (default), Fortran-ordered arrays, non-contiguous views,
    # or as files (the usual way; cryomap.read returns a transposed, i.e. Fortran-ordered, view of the file buffer)
    s_arg, a_arg = scores.copy(), amap.copy()
    if layout == "F":
        s_arg, a_arg = np.asfortranarray(s_arg), np.asfortranarray(a_arg)
    elif layout == "view":
        big_s = np.zeros(tuple(2 * d for d in shape), dtype=np.float64) - 9.0
        big_a = np.zeros(tuple(2 * d for d in shape), dtype=np.float64)
        big_s[::2, ::2, ::2] = scores
        big_a[::2, ::2, ::2] = amap
        s_arg, a_arg = big_s[::2, ::2, ::2], big_a[::2, ::2, ::2]
    elif layout == "em":
        from ..oracles import emfmt
        emfmt.write("c07_scores.em", scores.astype(np.float32))
        emfmt.write("c07_angles.em", amap.astype(np.float32))
        s_arg, a_arg = "c07_scores.em", "c07_angles.em"
        scores = scores.astype(np.float32).astype(np.float64)
    elif layout == "mrc":
        from ..oracles import mrcfmt
        mrcfmt.write("c07_scores.mrc", scores.astype(np.float32))
        mrcfmt.write("c07_angles.mrc", amap.astype(np.float32))
        s_arg, a_arg = "c07_scores.mrc", "c07_angles.mrc"
        scores = scores.astype(np.float32).astype(np.float64)
    with quiet():
        tkw = {"scores_threshold": thr} if sigma is None else {"sigma_threshold": sigma}
        res = obs.lib(SITE_TM, tmana.scores_extract_particles, s_arg, a_arg, alist_arg, 7, diam,
                      angles_order=order, angles_numbering=numbering, **tkw)
    voxels = list(itertools.product(*(range(s) for s in shape)))
    flat = {v: i for i, v in enumerate(voxels)}
    sc = {v: float(scores[v]) for v in voxels}
    supra = [v for v in voxels if sc[v] > thr]
    if res is None:
        peaks_rows = []
    else:
        df = getattr(res, "df", None)
        ok = df is not None and set(COLS) <= set(df.columns)
        obs.check(ok, SITE_TM, "output-is-particle-table", lambda: f"returned {type(res).__name__}")
        if not ok:
            obs.outcome = ("malformed",)
            return
        arr = {c: df[c].to_numpy(dtype=float) for c in ("x", "y", "z", "score", "phi", "theta", "psi")}
        peaks_rows = [{c: float(arr[c][i]) for c in arr} for i in range(len(df))]
    by_score = {s: v for v, s in sc.items()}
    peaks = []
    for r in peaks_rows:
        pos = (r["x"], r["y"], r["z"])
        v = by_score.get(r["score"])
        v_pos = tuple(int(round(p - 1)) for p in pos)
        pos_is_voxel = all(abs(p - 1 - q) < 1e-9 for p, q in zip(pos, v_pos)) and v_pos in flat
        obs.check(v is not None, SITE_TM, "peak-score-is-voxel-score",
                  lambda: f"row at position {pos} carries score {r['score']!r}; the voxel there has {sc.get(v_pos)!r} and no voxel has that score")
        if v is None:
            if not pos_is_voxel:
                obs.fail(SITE_TM, "peak-position-1based", f"position {pos} is not 1 + a voxel index of shape {shape}")
                continue
            v = v_pos
        # the voxel is identified by its (unique) score; its position must be the 1-based index
        want = tuple(float(q + 1) for q in v)
        obs.check(pos == want, SITE_TM, "peak-position-1based",
                  lambda: f"peak with score {r['score']} is voxel {v} (0-based); expected position {want}, got {pos}")
        row = alist[int(rowof[v])]
        row = [float(x) for x in row]
        exp = (row[0], row[1], row[2]) if order == "zxz" else (row[0], row[2], row[1])  # (phi, theta, psi); zzx lists hold (phi, psi, theta)
        got = (r["phi"], r["theta"], r["psi"])
        if all(abs(g - e) <= 1e-9 for g, e in zip(got, exp)):
            obs.fire("peak-angles")
        else:
            swapped = all(abs(g - e) <= 1e-9 for g, e in zip(got, (exp[0], exp[2], exp[1])))
            other = [q for q in range(len(alist)) if any(all(abs(g - e) <= 1e-9 for g, e in zip(got, perm))
                                                        for perm in ((alist[q][0], alist[q][1], alist[q][2]), (alist[q][0], alist[q][2], alist[q][1])))]
            clause = "peak-angles-theta-psi-swapped" if swapped else ("peak-angles-wrong-list-row" if other else "peak-angles")
            obs.check(False, SITE_TM, clause,
                      f"voxel {v}: angle map value {amap[v]} with numbering {numbering} -> list row {int(rowof[v])} = {row} ({order}); "
                      f"expected (phi,theta,psi)={exp}, got {got}" + (f"; matches list row {other}" if other and not swapped else ""), cls_ang)
        peaks.append(v)
    pk = list(peaks)
    # peaks exceed the threshold
    low = [v for v in pk if not sc[v] > thr]
    obs.check(not low, SITE_TM, "peaks-exceed-threshold", lambda: f"threshold {thr}: peaks {[(v, sc[v]) for v in low]}")
    # pairwise farther apart than the diameter (a voxel reported twice has distance 0)
    bad = [(pk[i], pk[j], sup.dist(pk[i], pk[j])) for i in range(len(pk)) for j in range(i + 1, len(pk)) if sup.dist(pk[i], pk[j]) <= diam]
    obs.check(not bad, SITE_TM, "peaks-separated", lambda: f"diameter {diam}: {bad[:3]}")
    # every supra-threshold voxel is within the diameter of a peak with an equal or higher score
    pts = {v: v for v in voxels}
    und = sup.undominated(pts, sc, set(pk), supra, diam, greater=True)
    if supra:
        obs.check(not und, SITE_TM, "supra-voxel-dominated",
                  lambda: f"threshold {thr} diameter {diam}: supra-threshold voxels {und[:4]} have no peak within the diameter with >= score; peaks {pk}")
        model = sup.greedy(pts, sc, supra, diam, greater=True)
        obs.check(set(pk) == model and len(pk) == len(model), SITE_TM, "peaks-equal-greedy-model",
                  lambda: f"peaks {sorted(pk)}, model {sorted(model)}")
    else:
        obs.check(not pk, SITE_TM, "no-peak-without-supra-voxel", lambda: f"peaks {pk}")
    obs.nontrivial = len(pk) >= 1 and len(supra) > len(set(pk))
    obs.outcome = tuple(sorted(flat[v] for v in pk))


def describe_tm(case):
    shape, ranking, k_supra, diam, numbering, order, source, seed = case
    return {"shape": list(shape), "rank_of_voxel_c_order": list(ranking), "voxels_above_threshold": k_supra, "diameter": diam,
            "angles_numbering": numbering, "angles_order": order, "angle_list": source}


def latin_ranking(shape, a, b):
    n = int(np.prod(shape))
    if math.gcd(a, n) != 1:
        raise HarnessError("C07: latin ranking multiplier not coprime")
    return tuple((a * f + b) % n for f in range(n))


def tm_family(name, space, seed, expect):
    sp = Mapped(space, lambda c: tuple(c) + (seed,))
    return Family(name, sp, exec_tm, expect=expect, describe=describe_tm)


def families(tier, seed):
    thorough = tier == "thorough"
    for shp in SHAPES6 + ((2, 2, 2), (5, 4, 3)):
        if lattice_margin(shp) < MARGIN:
            raise HarnessError(f"C07: a voxel distance of shape {shp} ties with a diameter")
    sites("line", seed), sites("grid", seed)
    core = ("survivors-separated", "removed-dominated", "survivors-equal-greedy-model", "survivor-fields-unchanged",
            "group-independent-of-other-groups")
    single = core[:4]
    fams = []
    r2 = (1.6, 2.7)
    if not thorough:
        fams.append(clean_family("clean-line", clean_shapes("line", 6, (1, 2, 3, 4), 3, 2), RADII, [P0], seed, core))
        fams.append(clean_family("clean-grid", clean_shapes("grid", 9, (1, 2, 3), 2, 2), RADII, [P0], seed, core))
        fams.append(clean_family("clean-grid-n4-one-group", clean_shapes("grid", 9, (4,), 0, 1), RADII, [P0], seed, single))
        fams.append(clean_family("clean-plumbing", clean_shapes("line", 6, (1, 2, 3), 0, 2), r2, PLUMBING, seed, core))
    else:
        fams.append(clean_family("clean-line", clean_shapes("line", 6, (1, 2, 3, 4, 5), 4, 3), RADII, [P0], seed, core))
        fams.append(clean_family("clean-grid", clean_shapes("grid", 9, (1, 2, 3, 4), 3, 3), RADII, [P0], seed, core))
        fams.append(clean_family("clean-grid-n5-one-group", clean_shapes("grid", 9, (5,), 0, 1), RADII, [P0], seed, single))
        fams.append(clean_family("clean-plumbing", clean_shapes("line", 6, (1, 2, 3, 4), 0, 2), r2, PLUMBING, seed, core))

    from ..motlgen import with_row_index_kinds
    fams.append(with_row_index_kinds(fams[-1], select=lambda c: c[5] and c[4] == 1.6, kinds=("gapped", "reversed", "repeated"), expect=("survivors-separated", "removed-dominated", "survivors-equal-greedy-model")))  # clean-plumbing x {gapped, reversed}
    # two particles at exactly the same complete position (with shifts: different x,y,z / shift splits of the same point)
    dup_shapes = [c for c in clean_shapes("line-dup", 7, (2, 3), 0, 2) if 1 in c[1] and 6 in c[1]]
    fams.append(clean_family("clean-coincident-particles", dup_shapes, RADII, [P0, ("tomo_id", "score", True), ("class", "geom1", True)], seed,
                             ("survivors-separated", "removed-dominated", "survivors-equal-greedy-model")))
    dn = (33, 40, 64, 100) if not thorough else (33, 34, 40, 64, 100, 200, 400)
    fams.append(Family("clean-dense-cluster", Mapped(Product(dn, (1.6, 3.1, 6.3), (True, False), (1, 2), (False, True)), lambda c: c + (seed,)), exec_dense,
                       describe=lambda c: {"particles": c[0], "d": c[1], "keep_greater": c[2], "groups": c[3], "shifts": c[4], "layout": "jittered cubic lattice, spacing 1"},
                       expect=("survivors-separated", "removed-dominated", "survivors-equal-greedy-model")))
    tm_core = ("peaks-exceed-threshold", "peaks-separated", "supra-voxel-dominated", "peaks-equal-greedy-model",
               "peak-score-is-voxel-score", "peak-position-1based", "peak-angles")
    perms6 = list(itertools.permutations(range(6)))
    ks = (6, 5, 4, 3, 2, 1)
    fams.append(tm_family("tm-suppress-6vox",
                          Union(Product(SHAPES6, perms6, ks, (1.2, 2.5), [0], ["zxz"], ["array"]),
                                Product(((6, 1, 1), (3, 2, 1), (2, 1, 3)), perms6, ks, (0.9, 1.8), [0], ["zxz"], ["array"])), seed, tm_core))
    few = [tuple((r + s) % 6 for r in range(6)) for s in range(6)] + [tuple(5 - (r + s) % 6 for r in range(6)) for s in range(6)]
    ang_cfg = Product((0, 1), ("zxz", "zzx"), ("array", "file"))
    ang_shapes = Listed([(shp, rk) for shp in SHAPES6 for rk in few] + [((3, 2, 1), rk) for rk in perms6 if rk not in few])
    fams.append(tm_family("tm-angles",
                          Mapped(Product(ang_shapes, (6, 3), (1.2,), ang_cfg), lambda c: (c[0][0], c[0][1], c[1], c[2]) + tuple(c[3])),
                          seed, tm_core))
    big = (5, 4, 3)
    lat = [latin_ranking(big, a, b) for a, b in ((7, 3), (11, 17), (13, 41))]
    fams.append(tm_family("tm-5x4x3",
                          Mapped(Product(lat, (60, 50, 30, 10, 1, 0), DIAMETERS, ang_cfg), lambda c: (big, c[0], c[1], c[2]) + tuple(c[3])),
                          seed, tm_core + ("no-peak-without-supra-voxel",)))
    # diameters that EQUAL lattice distances (1, 2, 3 = |(2,2,1)|): "farther apart than the diameter" is strict, so a voxel exactly
    # one diameter away from a peak is suppressed (the statement excludes exact ties for particle lists, not for voxel maps)
    fams.append(tm_family("tm-diameter-equals-lattice-distance",
                          Union(Mapped(Product(lat, (60, 30, 10), (1.0, 2.0, 3.0)), lambda c: (big, c[0], c[1], c[2], 0, "zxz", "array")),
                                Product(((6, 1, 1), (3, 2, 1)), perms6, (6, 4, 2), (1.0, 2.0), [0], ["zxz"], ["array"])),
                          seed, tm_core))
    # the threshold 0.0 itself (a falsy number): k_supra = -1 means "scores_threshold=0.0", the palette straddles 0
    fams.append(tm_family("tm-threshold-zero", Product(((6, 1, 1), (3, 2, 1)), perms6, (-1,), (1.2, 2.5), [0], ["zxz"], ["array"]), seed, tm_core))
    # the threshold given in standard deviations above the mean of the map
    fams.append(tm_family("tm-sigma-threshold",
                          Union(Product(((6, 1, 1), (3, 2, 1)), perms6, (("sigma", 0.5), ("sigma", -0.5), ("sigma", 1.0)), (1.2, 2.5), [0], ["zxz"], ["array"]),
                                Mapped(Product(lat, (("sigma", 0.25), ("sigma", 1.0), ("sigma", 1.5)), (1.2, 2.5)), lambda c: (big, c[0], c[1], c[2], 0, "zxz", "array"))),
                          seed, tm_core))
    fams.append(tm_family("tm-long-angle-list",
                          Union(Mapped(Product(lat, (30, 10), (1.2,), (0, 1), ("zxz", "zzx"), ("array|long", "file|long")), lambda c: (big,) + tuple(c)),
                                Product(((3, 2, 1),), few, (6, 3), (1.2,), (0, 1), ["zxz"], ["array|long"])), seed, tm_core))
    layouts = ["array|F", "array|view", "array|em", "array|mrc"]
    fams.append(tm_family("tm-map-layouts",
                          Union(Mapped(Product(lat, (60, 30, 10, 1), (1.2, 2.5), (0, 1), layouts), lambda c: (big, c[0], c[1], c[2], c[3], "zxz", c[4])),
                                Mapped(Product(perms6, (4,), (1.2,), layouts), lambda c: ((3, 2, 1), c[0], c[1], c[2], 0, "zxz", c[3]))),
                          seed, tm_core))
    if thorough:
        perms8 = Listed(itertools.permutations(range(8)))
        fams.append(tm_family("tm-suppress-2x2x2",
                              Product([(2, 2, 2)], perms8, (8, 5, 3), DIAMETERS, [0], ["zxz"], ["array"]), seed, tm_core))
    return fams
