"""C02 — STAR files read back to the same blocks, columns, rows and values.

(a) write -> independent tokenizer on the written text -> read -> write again -> read   (Starfile.write / Starfile.read)
(b) hand-built STAR texts (slot grammar over the permitted layout freedoms) -> Starfile.read vs the tokenizer
"""
import hashlib

import numpy as np
import pandas as pd

from ..engine import Family, HarnessError, LibError, _exc_site
from ..space import Listed, Mapped, Product, Union
from ..oracles import startok

RULE = (
    "(a) cases = list of 1..4 tables (rows x column-kind tuple over {int,float,text,mixed-text}; an empty table only "
    "last) x block names x number_columns x text storage (str/object dtype) [x block comments]; each case runs "
    "write -> tokenize the file independently -> read -> write the read frames -> read.  Non-trivial = at least one "
    "cell travels through the file.  (b) cases = table set x 1|2 blocks x every combination of the layout slots "
    "(before block, name/loop gap, label suffix, after labels, between blocks, separator, lead/trail white space on rows and "
    "trailing white space on keyword/label lines, "
    "LF/CRLF, final newline); non-trivial = at least one slot differs from the plain layout.  Distinct = distinct case "
    "descriptions; outcomes = digest of the written bytes (a) / of what Starfile.read returned (b)."
)
BOUNDS = {
    "quick": "(a) 1 block: rows 0..3 x all kind tuples of length 1..3 (84) x 4 names x numbering on/off x str/object text; "
             "2 blocks: all 25 ordered name pairs x 16 x 24 reduced tables x numbering; 3 blocks: 8 name triples x 36 table "
             "triples x numbering x comments on/off.  (b) 3 table sets x (1 block: 4608 layouts, 2 blocks: 13824 layouts)",
    "thorough": "(a) 1 block: rows 0..3 x kind tuples of length 1..4 (340) x 5 names; 30-column and 200-row tables; 2 blocks: 25 name "
                "pairs x 28 x 48 tables; 3 blocks: 125 name triples; 4 blocks.  (b) 4 table sets (one 30 columns wide), 5 separators, "
                "extra comment/blank variants",
}
ASSUMPTIONS = [
    "cells: int64 / float64 finite / text tokens without white space or '#', not starting with '_', every text column holds at least one non-numeric token",
    "numeric token = decimal integer, fixed or scientific literal (regex of mc/oracles/startok.py); nan/inf/hex are outside the quantifier",
    "'equal after rounding to 6 decimals' is judged as |read - written| <= 0.5e-6 (+4 ulp); integers exactly",
    "parsed floats may differ from the correctly rounded value of the token by <= 4 ulp (parser freedom)",
    "a block whose name contains 'stopgap' is expected with un-numbered labels even if number_columns=True (clause file-header-stopgap-unnumbered, separate signature)",
]
BUDGET_S = {"quick": 600, "thorough": 3000}

EPS = float(np.finfo(np.float64).eps)

NAMES4 = ["data_", "data_particles", "data_optics", "data_stopgap_motivelist"]
NAMES5 = ["data_optics", "data_particles", "data_", "data_stopgap_motivelist", "data_stopgap_wedgelist"]
KINDS = ["int", "float", "text", "mix"]

INTS = [0, 1, -3, 16777217, 2 ** 53 + 1, 12, -2147483649, 999999, 7, 10 ** 15, -1]
FLOATS = [0.1234567891, -2.5, 1e-7, 1e16, 1.0 / 3.0, 123456.789012345, -0.00000149, 3.0e38, 2.0000001, -7.0, 0.5e-6,
          1e-40, 12345678.9999996, -0.0, 0.30000000000000004,
          # exponent notation whose mantissa or exponent ends in '0' (any trailing-zero "compaction" of str(float) breaks these)
          7e40, 1e20, -3e30, 1.5e100]
NONNUM = ["A", "TS_01/3.mrc", "1a", "x-1.5e3", "00012_4.2A", "B", "tomo_12.rec", "1e", "--1", "1.2.3", "opticsGroup1", "e5",
          # quotes and separators of other table formats are ordinary characters of a STAR token
          'grid_3.5"_sq7', "it's", "a,b;c", "x|y",
          # text outside ASCII (sample and grid names): written and read in the same encoding
          "M\u00fcller_grid1", "Chlamy_5\u00b5m", "\u00c5_2.6"]
NUMLIKE = ["12", "-3.5", "1e3", "007", "4.50", "+2"]
LABELS = ["rlnCoordinateX", "rlnMicrographName", "score", "x_shift", "halfset", "rlnOpticsGroup", "A", "col.2",
          "rlnCtfFigureOfMerit", "the", "class", "motl_idx", "rlnAngleRot", "b-1", "X"]


# ----------------------------------------------------------------------------------------------------------
# (a) tables: pure-python truth first, DataFrame built from it


def cell(kind, r, j, b, seed):
    k = 5 * r + 3 * j + 7 * b + 11 * seed
    if kind == "int":
        v = INTS[k % len(INTS)]
        return v + 13 * seed if abs(v) < 10 ** 9 else v
    if kind == "float":
        v = FLOATS[k % len(FLOATS)]
        if seed and v != 0:
            v = v * (1.0 + 0.0137 * seed) if abs(v) < 1e30 else v * (1.0 - 0.01 * seed)
        return float(v)
    if kind == "text":
        return NONNUM[k % len(NONNUM)]
    if kind == "mix":
        return NUMLIKE[k % len(NUMLIKE)] if r % 2 == 1 else NONNUM[(k + 2) % len(NONNUM)]
    raise ValueError(kind)


def label(j, b, seed):
    i = j + 4 * b + seed
    base = LABELS[i % len(LABELS)]
    return base if j < len(LABELS) else f"{base}{j // len(LABELS)}"


def make_truth(spec, b, seed):
    """spec = (rows, kinds) -> {"labels", "kinds", "cols": [[python values]]}"""
    rows, kinds = spec
    return {
        "labels": [label(j, b, seed) for j in range(len(kinds))],
        "kinds": ["text" if k == "mix" else k for k in kinds],
        "cols": [[cell(k, r, j, b, seed) for r in range(rows)] for j, k in enumerate(kinds)],
        "nrows": rows,
    }


def make_frame(truth, storage):
    # "str@reversed" / "object@gapped": the same table with row labels that are not 0..n-1 (after sort_values / filtering)
    storage, _, index_kind = storage.partition("@")
    df = _make_frame(truth, storage)
    if index_kind and len(df):
        n = len(df)
        df.index = {"reversed": list(range(n - 1, -1, -1)), "gapped": [3 * i + 2 for i in range(n)], "repeated": [i % 2 for i in range(n)]}[index_kind]
    return df


def _make_frame(truth, storage):
    data = {}
    for lab, kind, col in zip(truth["labels"], truth["kinds"], truth["cols"]):
        if kind == "int":
            data[lab] = np.array(col, dtype=np.int64)
        elif kind == "float":
            data[lab] = np.array(col, dtype=np.float64)
        elif storage == "object":
            data[lab] = pd.Series(col, dtype=object)
        else:
            data[lab] = pd.Series(col, dtype="str")
    return pd.DataFrame(data, columns=truth["labels"])


def tol6(v):
    return 0.5e-6 * (1.0 + 1e-6) + 4.0 * EPS * abs(v)


def frame_truth(df):
    """Truth of a frame as cryoCAT returned it (used as the INPUT description of the second generation)."""
    labels, kinds, cols = [], [], []
    for c in df.columns:
        a = df[c]
        kind = a.to_numpy().dtype.kind if len(a) else "O"
        vals = a.tolist()
        if kind in "iu":
            kinds.append("int")
            vals = [int(v) for v in vals]
        elif kind == "f":
            kinds.append("float")
            vals = [float(v) for v in vals]
        else:
            kinds.append("text")
        labels.append(str(c))
        cols.append(vals)
    return {"labels": labels, "kinds": kinds, "cols": cols, "nrows": len(df)}


def judge_file(obs, text, truths, names, numbered, cls):
    """Independent reading of the written text against the truth.  -> True if the structure was as expected."""
    site = "Starfile.write"
    try:
        blocks = startok.parse(text)
    except startok.StarError as e:
        obs.fail(site, "file-parses", str(e), cls)
        return False
    obs.fire("file-parses")
    ok = obs.check([b["name"] for b in blocks] == list(names), site, "file-block-names",
                   lambda: f"blocks in file {[b['name'] for b in blocks]}, written {list(names)}", cls)
    if not ok:
        return False
    for b, t, name in zip(blocks, truths, names):
        k = len(t["labels"])
        ok &= obs.check(b["loop"] and b["labels"] == t["labels"], site, "file-labels",
                        lambda: f"{name}: labels in file {b['labels']}, table {t['labels']}", cls)
        if "stopgap" in name and numbered:
            obs.check(b["numbers"] == [None] * len(b["numbers"]), site, "file-header-stopgap-unnumbered",
                      lambda: f"{name}: label numbers {b['numbers']}", cls)
        elif numbered:
            obs.check(b["numbers"] == list(range(1, len(b["numbers"]) + 1)), site, "file-header-numbered",
                      lambda: f"{name}: label numbers {b['numbers']}, expected 1..{k}", cls)
        else:
            obs.check(b["numbers"] == [None] * len(b["numbers"]), site, "file-header-unnumbered",
                      lambda: f"{name}: label numbers {b['numbers']} with number_columns=False", cls)
        ok &= obs.check(len(b["rows"]) == t["nrows"], site, "file-row-count",
                        lambda: f"{name}: {len(b['rows'])} rows in file, table has {t['nrows']}", cls)
        okw = obs.check(all(len(r) == k for r in b["rows"]), site, "file-row-width",
                        lambda: f"{name}: rows with {sorted(set(len(r) for r in b['rows']))} tokens for {k} labels", cls)
        ok &= okw
        if not (okw and b["labels"] == t["labels"] and len(b["rows"]) == t["nrows"]):
            continue
        for j, (lab, kind, col) in enumerate(zip(t["labels"], t["kinds"], t["cols"])):
            toks = [r[j] for r in b["rows"]]
            if not toks:
                continue
            if kind == "int":
                bad = [(r, tk, v) for r, (tk, v) in enumerate(zip(toks, col)) if not (startok.is_numeric(tk) and startok.number(tk) == v)]
                obs.check(not bad, site, "file-int-values", lambda: f"{name}.{lab}: (row, token, value) {bad[:3]}", cls)
            elif kind == "float":
                bad = [(r, tk, v) for r, (tk, v) in enumerate(zip(toks, col))
                       if not (startok.is_numeric(tk) and abs(float(tk) - v) <= tol6(v))]
                obs.check(not bad, site, "file-float-values", lambda: f"{name}.{lab}: (row, token, value) {bad[:3]}", cls)
            else:
                bad = [(r, tk, v) for r, (tk, v) in enumerate(zip(toks, col)) if tk != v]
                obs.check(not bad, site, "file-text-values", lambda: f"{name}.{lab}: (row, token, value) {bad[:3]}", cls)
    return ok


def judge_frames(obs, frames, specifiers, truths, names, cls, site="Starfile.read"):
    ok = obs.check(isinstance(specifiers, list) and list(specifiers) == list(names), site, "read-block-names",
                   lambda: f"specifiers read {specifiers!r}, expected {list(names)}", cls)
    ok &= obs.check(len(frames) == len(truths), site, "read-block-count", lambda: f"{len(frames)} frames for {len(truths)} blocks", cls)
    if not ok:
        return False
    for df, t, name in zip(frames, truths, names):
        judge_frame(obs, df, t, name, cls, site)
    return True


def judge_frame(obs, df, t, name, cls, site="Starfile.read"):
    okl = obs.check([str(c) for c in df.columns] == t["labels"], site, "read-labels",
                    lambda: f"{name}: columns read {list(df.columns)}, expected {t['labels']}", cls)
    okr = obs.check(len(df) == t["nrows"], site, "read-row-count", lambda: f"{name}: {len(df)} rows read, expected {t['nrows']}", cls)
    if not (okl and okr) or t["nrows"] == 0:
        return
    for j, (lab, kind, col) in enumerate(zip(t["labels"], t["kinds"], t["cols"])):
        s = df.iloc[:, j]
        got = s.tolist()
        dk = s.to_numpy().dtype.kind
        if kind in ("int", "float"):
            isnum = dk in "iuf" and all(isinstance(g, (int, float)) and not isinstance(g, bool) for g in got)
            if not obs.check(isnum, site, "read-numeric-dtype", lambda: f"{name}.{lab}: numeric column came back as {s.dtype} {got[:3]!r}", cls):
                continue
            if kind == "int":
                bad = [(r, g, v) for r, (g, v) in enumerate(zip(got, col)) if not (g == v)]
                obs.check(not bad, site, "read-int-values", lambda: f"{name}.{lab}: (row, read, written) {bad[:3]}", cls)
            else:
                bad = [(r, g, v) for r, (g, v) in enumerate(zip(got, col)) if not (abs(float(g) - v) <= tol6(v))]
                obs.check(not bad, site, "read-float-values", lambda: f"{name}.{lab}: (row, read, written) {bad[:3]}", cls)
        else:
            bad = [(r, g, v) for r, (g, v) in enumerate(zip(got, col)) if not (isinstance(g, str) and g == v)]
            obs.check(not bad, site, "read-text-values", lambda: f"{name}.{lab}: (row, read, written) {bad[:3]!r}", cls)


def execute_rt(case, obs):
    from cryocat import starfileio

    specs, names, numbered, storage, comments, seed = case
    truths = [make_truth(s, b, seed) for b, s in enumerate(specs)]
    frames = [make_frame(t, storage) for t in truths]
    obs.nontrivial = any(t["nrows"] > 0 for t in truths)
    kw = {}
    if comments is not None:
        kw["comments"] = [list(c) if c is not None else None for c in comments]
    obs.lib("Starfile.write", starfileio.Starfile.write, list(frames), "c02_a.star", specifiers=list(names), number_columns=numbered, **kw)
    with open("c02_a.star", "rb") as f:
        raw = f.read()
    obs.outcome = hashlib.blake2b(raw, digest_size=8).hexdigest()
    try:
        text = raw.decode("utf-8")
    except UnicodeDecodeError as e:
        obs.fail("Starfile.write", "file-parses", str(e))
        return
    judge_file(obs, text, truths, names, numbered, "")
    res = obs.lib("Starfile.read", starfileio.Starfile.read, "c02_a.star")
    if not obs.check(isinstance(res, tuple) and len(res) == 3, "Starfile.read", "read-returns-triple", lambda: repr(res)[:200]):
        return
    frames1, specs1, _comments1 = res
    if not judge_frames(obs, frames1, specs1, truths, names, ""):
        return
    if len(truths) > 1:
        # one block addressed by position
        k = len(truths) - 1
        one = obs.lib("Starfile.read(data_id)", starfileio.Starfile.read, "c02_a.star", data_id=k)
        if obs.check(isinstance(one, tuple) and len(one) == 3 and one[1] == names[k], "Starfile.read(data_id)", "read-data-id-name",
                     lambda: f"data_id={k} returned specifier {one[1]!r}"):
            judge_frame(obs, one[0], truths[k], names[k], "", site="Starfile.read(data_id)")
        # ... and every block addressed by its NAME (names that occur once; one name may be a prefix of another: data_ / data_optics)
        for kk, nm in enumerate(names):
            if names.count(nm) != 1:
                continue
            got = obs.lib("Starfile.get_frame_and_comments", starfileio.Starfile.get_frame_and_comments, "c02_a.star", nm)
            if obs.check(isinstance(got, tuple) and len(got) == 2, "Starfile.get_frame_and_comments", "read-by-name-returns-pair", lambda: repr(got)[:200]):
                judge_frame(obs, got[0], truths[kk], nm, "by-name", site="Starfile.get_frame_and_comments")
    # second generation: what was read is itself a list of tables inside the quantifier
    truths1 = [frame_truth(f) for f in frames1]
    if any(kind == "text" and col and all(startok.is_numeric(str(v)) for v in col) for t in truths1 for kind, col in zip(t["kinds"], t["cols"])):
        return  # a first-generation defect (already reported) left the domain
    obs.lib("Starfile.write", starfileio.Starfile.write, [f.copy() for f in frames1], "c02_b.star", specifiers=list(specs1), number_columns=numbered)
    with open("c02_b.star", "rb") as f:
        text2 = f.read().decode("utf-8", errors="replace")
    judge_file(obs, text2, truths1, names, numbered, "second-generation")
    res2 = obs.lib("Starfile.read", starfileio.Starfile.read, "c02_b.star")
    judge_frames(obs, res2[0], res2[1], truths1, names, "second-generation")


def describe_rt(case):
    specs, names, numbered, storage, comments, seed = case
    return {
        "blocks": [{"name": n, "rows": s[0], "column_kinds": list(s[1])} for n, s in zip(names, specs)],
        "number_columns": numbered, "text_storage": storage, "comments": comments,
    }


def kind_tuples(maxlen):
    import itertools

    out = []
    for n in range(1, maxlen + 1):
        out.extend(itertools.product(KINDS, repeat=n))
    return out


REDUCED_KINDS = [("int",), ("float",), ("text",), ("mix",), ("int", "float"), ("float", "text"), ("text", "int"), ("mix", "float")]


def rt_single(tier, seed):
    names = NAMES4 if tier == "quick" else NAMES5
    kts = kind_tuples(3 if tier == "quick" else 4)
    cases = []
    for kt in kts:
        for rows in (0, 1, 2, 3):
            stor = ["str", "object"] if (rows and any(k in ("text", "mix") for k in kt)) else ["str"]
            if rows >= 2:
                stor = stor + ["str@reversed", "str@gapped"]
            for name in names:
                for numbered in (True, False):
                    for st in stor:
                        cases.append((((rows, kt),), (name,), numbered, st, None, seed))
    if tier == "thorough":
        wide = tuple(KINDS[(j * 7 + j // 4) % 4] for j in range(30))
        for kt, rowset in ((wide, (0, 1, 3, 200)), (("int",), (200,)), (("float", "mix"), (200,)), (("text", "float", "int"), (200,)),
                           (tuple(["float"] * 30), (2,)), (tuple(["text"] * 30), (2,))):
            for rows in rowset:
                for name in names:
                    for numbered in (True, False):
                        cases.append((((rows, kt),), (name,), numbered, "str", None, seed))
    return Listed(cases)


def rt_multi(tier, seed):
    kts = REDUCED_KINDS if tier == "quick" else kind_tuples(2)
    # full row alphabet for the reduced kind tuples, a thinner one for the other tuples (thorough only)
    first = [(r, kt) for kt in kts for r in ((1, 2) if kt in REDUCED_KINDS else (2,))]
    last = [(r, kt) for kt in kts for r in ((0, 1, 2) if kt in REDUCED_KINDS else (0, 2))]
    pairs = [(a, b) for a in NAMES5 for b in NAMES5]
    two = Mapped(Product(first, last, pairs, [True, False]),
                 lambda c: ((c[0], c[1]), c[2], c[3], "str", None, seed))
    # three blocks
    if tier == "quick":
        triples = [tuple(NAMES5[(i + d) % 5] for d in range(3)) for i in range(5)]
        triples += [("data_optics", "data_particles", "data_particles"), ("data_", "data_", "data_"),
                    ("data_stopgap_wedgelist", "data_stopgap_motivelist", "data_optics")]
        t_first = [(1, ("int", "text")), (2, ("float",)), (2, ("mix", "int"))]
        t_last = [(0, ("float", "text")), (1, ("text",)), (2, ("int", "float")), (2, ("mix",))]
    else:
        triples = [(a, b, c) for a in NAMES5 for b in NAMES5 for c in NAMES5]
        t_first = [(1, ("int", "text")), (2, ("float",)), (2, ("mix", "int")), (1, ("text",))]
        t_last = [(0, ("float", "text")), (1, ("text",)), (2, ("int", "float")), (2, ("mix",)), (0, ("int",))]
    comm = [None, (("made by mc",), None, ("two", "comment lines loop_ data_x _y 1 2"))]
    three = Mapped(Product(t_first, t_first, t_last, triples, [True, False], comm),
                   lambda c: ((c[0], c[1], c[2]), c[3], c[4], "str", c[5], seed))
    parts = [two, three]
    if tier == "thorough":
        quads = [tuple(NAMES5[(i + d) % 5] for d in range(4)) for i in range(5)] + [("data_particles",) * 4, ("data_stopgap_motivelist",) * 4]
        four = Mapped(Product(t_first, t_first, t_first, t_last, quads, [True, False]),
                      lambda c: ((c[0], c[1], c[2], c[3]), c[4], c[5], "str", None, seed))
        parts.append(four)
    return Union(*parts)


# ----------------------------------------------------------------------------------------------------------
# (b) hand-built texts


def table_sets(tier, seed):
    s = seed
    relion = [
        {"name": "data_optics", "labels": ["rlnOpticsGroup", "rlnOpticsGroupName", "rlnImagePixelSize"],
         "rows": [[str(1 + s), "opticsGroup1", "1.35"]]},
        {"name": "data_particles", "labels": ["rlnCoordinateX", "rlnMicrographName", "rlnRandomSubset", "rlnCtfFigureOfMerit", "rlnTag"],
         "rows": [[f"{1024 + s}.000000", "TS_01/3.mrc", "1", "1e-07", "12"],
                  ["-3.500000", "TS_02/10.mrc", "2", "-1.5E3", "1a"],
                  ["+7", "00012_4.2A", "1", f".{5 + s}", "x-1.5e3"]]},
    ]
    stopgap = [
        {"name": "data_stopgap_motivelist", "labels": ["motl_idx", "tomo_num", "halfset", "orig_x", "score"],
         "rows": [["1", str(3 + s), "A", "10", "0.123457"], ["2", str(3 + s), "B", "-11.5", "1e+16"]]},
        {"name": "data_stopgap_wedgelist", "labels": ["tomo_num", "pixelsize", "tilt_angle"],
         "rows": [[str(3 + s), "1.35", "-60"], [str(3 + s), "1.35", "-57.0"], [str(3 + s), "1.35", "007"]]},
    ]
    empty_last = [
        {"name": "data_", "labels": ["a", "b"], "rows": [[str(1 + s), "x"]]},
        {"name": "data_particles", "labels": ["rlnCoordinateX", "rlnMicrographName"], "rows": []},
    ]
    sets = {"relion": relion, "stopgap": stopgap, "empty-last": empty_last}
    if tier == "thorough":
        labs = [f"rlnCol{j}" for j in range(30)]
        rows = [[(f"{r}.{j}5" if j % 3 == 0 else (f"T{j}_{r}" if j % 3 == 1 else str(r * 100 + j + s))) for j in range(30)] for r in range(4)]
        sets["wide"] = [{"name": "data_particles", "labels": labs, "rows": rows},
                        {"name": "data_optics", "labels": ["rlnOpticsGroup"], "rows": [["1"], ["2"]]}]
    return sets


SINGLE = {"relion": 1, "stopgap": 0, "empty-last": 1, "wide": 0}  # which block of a set is used alone
KW_COMMENT = "# loop_ data_fake _notalabel 1 2 3 # again"


def layout_slots(tier):
    slots = {
        "pre": [("",), (), (KW_COMMENT,), ("# version 30001", "")],
        "name_gap": [("",), ()],
        "suffix": [" #", "#", None, " #desc"],
        "post_labels": [(), ("",), ("# rows follow",), (" \t",)],
        "sep": ["\t", " ", "  \t "],
        "row_ws": [("", "", ""), ("  ", "", ""), ("", " \t", " "), ("\t", "   ", "\t ")],  # row lead, row trail, keyword/label-line trail
        "eol": ["\n", "\r\n"],
        "final_newline": [True, False],
        "between": [("",), (KW_COMMENT,), ("", "  # next block", "")],
    }
    if tier == "thorough":
        slots["sep"] += ["    ", "\t\t"]
        slots["pre"] += [("", "", "#", "")]
        slots["between"] += [("#",)]
        slots["post_labels"] += [("", "# c", "")]
    return slots


SLOT_ORDER = ["pre", "name_gap", "suffix", "post_labels", "sep", "row_ws", "eol", "final_newline"]


def build_text(case):
    style, nblocks, lay, seed, tier = case
    sets = table_sets(tier, seed)
    blocks = sets[style] if nblocks == 2 else [sets[style][SINGLE[style]]]
    layout = dict(lay)
    rw = layout.pop("row_ws")
    suffix = layout.pop("suffix")
    numbered = suffix is not None
    if suffix == " #desc":   # '#n' comments that count down: still only comments
        suffix = " #"
        layout["number_order"] = "descending"
    layout.update(row_lead=rw[0], row_trail=rw[1], kw_trail=rw[2])
    if numbered:
        layout["suffix"] = suffix
    text = startok.build(blocks, numbered=numbered, **layout)
    return blocks, numbered, text


def execute_text(case, obs):
    from cryocat import starfileio

    blocks, numbered, text = build_text(case)
    lay = dict(case[2])
    obs.nontrivial = any(lay[k] != LAYOUT_PLAIN[k] for k in lay)
    # harness self-check: the independent tokenizer finds exactly what the generator put in
    tb = startok.parse(text)
    if [(b["name"], b["labels"], b["rows"]) for b in tb] != [(b["name"], b["labels"], b["rows"]) for b in blocks] or any(
            (sorted(b["numbers"], key=lambda v: (v is None, v)) != (list(range(1, len(b["labels"]) + 1)) if numbered else [None] * len(b["labels"]))) for b in tb):
        raise HarnessError(f"tokenizer and generator disagree on {text!r}")
    with open("c02_t.star", "wb") as f:
        f.write(text.encode("utf-8"))
    site = "Starfile.read"
    try:
        res = obs.lib(site, starfileio.Starfile.read, "c02_t.star")
    except LibError as le:
        # same signature scheme as the engine, but the input class is named where it is structural
        inner = _exc_site(le.exc) or ""
        last = text.split("\n")[-1]
        cls = "file-ends-with-label-line" if last.strip().startswith("_") else inner
        obs.fail(site, f"exception:{type(le.exc).__name__}", f"{inner}: {le.exc}", cls=cls)
        obs.outcome = ("exc", site, type(le.exc).__name__, cls)
        return
    frames, specs, _ = res
    dig = []
    ok = obs.check(list(specs) == [b["name"] for b in tb], site, "text-block-names", lambda: f"read {specs!r}, tokenizer {[b['name'] for b in tb]}")
    ok &= obs.check(len(frames) == len(tb), site, "text-block-count", lambda: f"{len(frames)} frames, tokenizer {len(tb)} blocks")
    if ok:
        for df, b in zip(frames, tb):
            okl = obs.check([str(c) for c in df.columns] == b["labels"], site, "text-labels",
                            lambda: f"{b['name']}: read {list(df.columns)}, tokenizer {b['labels']}")
            okr = obs.check(len(df) == len(b["rows"]), site, "text-row-count", lambda: f"{b['name']}: read {len(df)} rows, tokenizer {len(b['rows'])}")
            dig.append((b["name"], tuple(map(str, df.columns)), len(df)))
            if not (okl and okr):
                continue
            for j, (lab, toks) in enumerate(startok.columns(b)):
                s = df.iloc[:, j]
                got = s.tolist()
                dig.append(repr(got))
                if not toks:
                    continue
                if startok.column_is_numeric(toks):
                    isnum = s.to_numpy().dtype.kind in "iuf" and not any(isinstance(g, (bool, str)) for g in got)
                    if not obs.check(isnum, site, "text-numeric-dtype", lambda: f"{b['name']}.{lab}: tokens {toks} came back as {s.dtype} {got!r}"):
                        continue
                    want = [startok.number(tk) for tk in toks]
                    bad = [(tk, g) for tk, g, w in zip(toks, got, want)
                           if not (g == w if isinstance(w, int) else abs(float(g) - w) <= 4.0 * EPS * abs(w))]
                    obs.check(not bad, site, "text-numeric-values", lambda: f"{b['name']}.{lab}: (token, read) {bad[:3]}")
                else:
                    bad = [(tk, g) for tk, g in zip(toks, got) if not (isinstance(g, str) and g == tk)]
                    obs.check(not bad, site, "text-text-values", lambda: f"{b['name']}.{lab}: (token, read) {bad[:3]!r}")
    # the object API reads the same file through the same reader
    sf = obs.lib("Starfile.__init__", starfileio.Starfile, "c02_t.star")
    obs.check(sf.specifiers == specs and len(sf.frames) == len(frames) and all(a.equals(b) for a, b in zip(sf.frames, frames)),
              "Starfile.__init__", "object-equals-read", "Starfile(path) holds other frames/specifiers than Starfile.read(path)")
    obs.outcome = hashlib.blake2b(repr(dig).encode(), digest_size=8).hexdigest()


LAYOUT_PLAIN = {"pre": ("",), "name_gap": ("",), "suffix": " #", "post_labels": (), "sep": "\t", "row_ws": ("", "", ""), "eol": "\n",
                "final_newline": True, "between": ("",)}


def describe_text(case):
    style, nblocks, lay, seed, tier = case
    d = {"table_set": style, "blocks": nblocks}
    d.update({k: (list(v) if isinstance(v, tuple) else v) for k, v in lay})
    return d


def text_space(tier, seed):
    slots = layout_slots(tier)
    styles = list(table_sets(tier, seed).keys())
    one = Mapped(Product(styles, *[slots[k] for k in SLOT_ORDER]),
                 lambda c: (c[0], 1, tuple(zip(SLOT_ORDER, c[1:])), seed, tier))
    order2 = SLOT_ORDER + ["between"]
    two = Mapped(Product(styles, *[slots[k] for k in order2]),
                 lambda c: (c[0], 2, tuple(zip(order2, c[1:])), seed, tier))
    return one, two


def families(tier, seed):
    one, two = text_space(tier, seed)
    rt_expect = ("file-parses", "file-block-names", "file-labels", "file-row-count", "file-row-width", "file-header-numbered",
                 "file-header-unnumbered", "file-int-values", "file-float-values", "file-text-values",
                 "read-block-names", "read-labels", "read-row-count", "read-numeric-dtype", "read-int-values",
                 "read-float-values", "read-text-values")
    tx_expect = ("text-block-names", "text-labels", "text-row-count", "text-numeric-dtype", "text-numeric-values", "text-text-values",
                 "object-equals-read")
    return [
        Family("write-read-1block", rt_single(tier, seed), execute_rt, describe=describe_rt,
               expect=rt_expect + ("file-header-stopgap-unnumbered",)),
        Family("write-read-multiblock", rt_multi(tier, seed), execute_rt, describe=describe_rt,
               expect=rt_expect + ("file-header-stopgap-unnumbered", "read-data-id-name")),
        Family("text-1block", one, execute_text, describe=describe_text, expect=tx_expect),
        Family("text-2blocks", two, execute_text, describe=describe_text, expect=tx_expect),
    ]
