"""C10 — cyclic symmetry expansion places the subunits on the symmetry orbit (Motl.split_in_asymmetric_subunits)."""
import hashlib

import numpy as np

from ..engine import Family, LibError
from ..space import Listed, Mapped, Product
from ..motlgen import COLS, frame
from ..oracles import so3

SITE = "split_in_asymmetric_subunits"

RULE = (
    "cases = n (every integer 1..64, smallest first) x particle list x subunit offset s x spelling of the symmetry "
    "(n, float(n), 'Cn', 'cn'); each case is one real call of Motl.split_in_asymmetric_subunits judged row by row against "
    "the explicit-matrix model (so3): rows are matched by (geom5, geom2), never by order.  Non-trivial = n >= 2 (the "
    "subunits have different orientations); distinct = distinct case descriptions."
)
BOUNDS = {
    "quick": "n in 1..64 (all 45 non-divisors of 360 included) x 4 spellings x 4 offsets (generic, on the axis, in-plane negative, "
             "zero) x 15 lists (9 single poses, 4 pairs, 2 triples; non-sequential unsorted ids)",
    "thorough": "quick + 64 right-angle zxz triples and a 3-step Euler lattice as single-particle lists, 2 extra offsets, and two "
                "100-particle lists for every n in 1..64 (spellings n and 'Cn', offsets generic and on-axis)",
}
ASSUMPTIONS = [
    "orientation matrix of a particle is R = Rz(psi) Rx(theta) Rz(phi) (zxz extrinsic, cryoCAT/TOM convention, oracle so3.zxz)",
    "the k-th subunit (k = 0..n-1) is the output row with geom2 = k+1",
    "float64 tables only (DESIGN 3.21); symmetry spellings judged: int, float, 'Cn', 'cn' (numpy integer scalars are not judged)",
    "tolerances: orientation matrices 1e-8 (max abs entry), complete positions 1e-9 (coordinates below 1e3)",
]
BUDGET_S = {"quick": 300, "thorough": 2400}

TOL_R = 1e-8
TOL_P = 1e-9
INHERITED = ["score", "geom1", "tomo_id", "object_id", "subtomo_mean", "geom3", "geom4", "class"]
SPELLINGS = ["int", "float", "Cn", "cn"]


def spell(n, how):
    if how == "int":
        return int(n)
    if how == "float":
        return float(n)
    if how == "Cn":
        return f"C{n}"
    if how == "cn":
        return f"c{n}"
    raise ValueError(how)


# ------------------------------------------------------------------------------------------------------------------
# palettes


def _pose(phi, theta, psi, x, y, z, sx=0.0, sy=0.0, sz=0.0):
    return dict(phi=phi, theta=theta, psi=psi, x=x, y=y, z=z, shift_x=sx, shift_y=sy, shift_z=sz)


def poses(seed):
    """Hand-written adversarial poses (seed 0); other seeds move the generic numbers, never the structure."""
    if seed == 0:
        g = [(30.0, 45.0, 60.0), (-112.3, 97.2, 13.9), (201.7, 33.3, -77.1)]
        frac = [0.27, -0.27, 0.46, 0.125, -0.4]
    else:
        rs = np.random.RandomState(9000 + seed)
        g = [tuple(np.round(rs.uniform([-180, 5, -180], [180, 175, 180]), 3)) for _ in range(3)]
        frac = list(np.round(rs.uniform(-0.49, 0.49, 5), 3))
    return [
        _pose(0.0, 0.0, 0.0, 10.0, 12.0, 14.0),                                   # identity, integral position
        _pose(*g[0], 16.0, 26.0, 36.0, frac[0], frac[1], frac[2]),                # generic (shape of the repo fixture)
        _pose(25.0, 0.0, 40.0, 7.0, 8.0, 9.0, frac[3], 0.0, 0.0),                 # gimbal lock theta = 0
        _pose(-70.0, 180.0, 15.0, 21.0, 3.0, 5.0, 0.0, frac[4], 0.0),             # gimbal lock theta = 180
        _pose(*g[1], -5.0, -17.0, 3.0, -0.5, 0.5, 0.25),                          # negative position, half-integer ties
        _pose(400.0, 200.0, -190.0, 100.0, 50.0, 75.0, 0.5, -0.5, 0.5),           # out-of-range angles, ties
        _pose(*g[2], 31.0, 29.0, 2.0, 3.7, -2.2, 10.5),                           # shifts larger than a voxel
        _pose(90.0, 90.0, 90.0, 0.0, 0.0, 0.0, 0.0, 0.0, 0.0),                    # right angles at the origin
        _pose(1e-4, 1e-4, -1e-4, 64.5, 64.5, 64.5, 0.0, 0.0, 0.0),                # nearly gimbal-locked, non-integral x,y,z
    ]


def _others(tag):
    """Distinct values in every inherited field, junk in geom2/geom5 (they must be overwritten)."""
    return dict(score=0.37 + tag / 8.0, geom1=2.5 * tag, geom2=99.0, tomo_id=float(3 + tag % 2), object_id=float(7 + tag),
                subtomo_mean=1.0 + tag, geom3=-1.5 - tag, geom4=0.25 * tag, geom5=98.0, **{"class": float(2 + tag)})


def particle_lists(seed, tier):
    P = poses(seed)
    ids = [17.0, 4.0, 120.0, 5.0]  # non-sequential, not sorted

    def mk(idx):
        rows = []
        for j, pi in enumerate(idx):
            r = dict(P[pi])
            r.update(_others(j + pi))
            r["subtomo_id"] = ids[j] if len(idx) > 1 else 5.0 + pi
            rows.append(r)
        return rows

    lists = [(f"pose{i}", mk([i])) for i in range(len(P))]
    lists += [("pair-1-4", mk([1, 4])), ("pair-2-3", mk([2, 3])), ("pair-6-0", mk([6, 0])), ("pair-same-pose", mk([1, 1]))]
    lists += [("triple-1-5-2", mk([1, 5, 2])), ("triple-4-6-3", mk([4, 6, 3]))]
    if tier == "thorough":
        k = 0
        for a in so3.right_angle_triples():
            lists.append((f"right-angle-{a}", [dict(_pose(*map(float, a), 11.0, -3.0, 8.0, 0.2, -0.3, 0.4), subtomo_id=9.0, **_others(k % 5))]))
            k += 1
        for a in so3.euler_lattice(120, 60):
            lists.append((f"lattice-{a}", [dict(_pose(a[0] + 7.0, a[1], a[2] - 11.0, 40.0, 41.0, 42.0, -0.1, 0.3, 0.45), subtomo_id=2.0, **_others(k % 5))]))
            k += 1
    return lists


def big_lists(seed):
    """Two deterministic 100-particle lists (thorough): every orientation of a coarse lattice, ids shuffled and sparse."""
    rs = np.random.RandomState(4242 + seed)
    out = []
    for name, off in (("hundred-a", 0.0), ("hundred-b", 13.7)):
        rows = []
        perm = rs.permutation(100)
        for j in range(100):
            phi = -180.0 + (37.0 * j + off) % 360.0
            theta = (19.0 * j + off) % 181.0
            psi = -180.0 + (53.0 * j + 2 * off) % 360.0
            if j % 25 == 0:
                theta = 0.0 if j % 50 == 0 else 180.0
            r = _pose(phi, theta, psi, float(j * 3 - 40), float(200 - j), float((j * 7) % 50), ((j % 5) - 2) * 0.25, ((j % 3) - 1) * 0.5, (j % 7) * 0.15 - 0.45)
            r.update(_others(j % 11))
            r["subtomo_id"] = float(3 * perm[j] + 2)
            rows.append(r)
        out.append((name, rows))
    return out


def offsets(seed, tier):
    gen = (3.0, 1.0, 2.0) if seed == 0 else tuple(np.round(np.random.RandomState(77 + seed).uniform(-6, 6, 3), 3))
    offs = [("generic", gen), ("on-axis", (0.0, 0.0, 5.0)), ("in-plane-negative", (-2.5, 0.0, 0.0)), ("zero", (0.0, 0.0, 0.0))]
    if tier == "thorough":
        offs += [("y-only", (0.0, 4.25, 0.0)), ("long", (-17.5, 22.25, -9.0))]
    return offs


# ------------------------------------------------------------------------------------------------------------------
# model


def model(rows, n, s):
    """(parent id, k+1) -> (orientation matrix, complete position, parent row)."""
    s = np.asarray(s, dtype=float)
    out = {}
    for r in rows:
        R = so3.zxz(r["phi"], r["theta"], r["psi"])
        centre = np.array([r["x"] + r["shift_x"], r["y"] + r["shift_y"], r["z"] + r["shift_z"]])
        for k in range(n):
            Rk = R @ so3.Rz(360.0 * k / n)
            out[(r["subtomo_id"], float(k + 1))] = (Rk, centre + Rk @ s, centre, R, r)
    return out


def input_class(n):
    return "n-dividing-360" if 360 % n == 0 else "n-not-dividing-360"


def make_execute(lists, offs):
    def execute(case, obs):
        from cryocat import cryomotl as cm

        n, li, oi, how = case
        rows = lists[li][1]
        s = offs[oi][1]
        cls = input_class(n)
        obs.nontrivial = n >= 2
        m = obs.lib("Motl.__init__", cm.Motl, frame(rows))
        arg = np.array(s, dtype=float)
        try:
            res = obs.lib(SITE, m.split_in_asymmetric_subunits, spell(n, how), arg)
        except LibError as le:
            e = le.exc
            # input class that triggers the failure: a float that cannot be used as an array length fails for every n,
            # a wrong number of in-plane angles only for the n that do not divide 360
            if how == "float" and isinstance(e, TypeError) and "interpreted as an integer" in str(e):
                cls = "float-spelling"
            obs.fail(SITE, f"exception:{type(e).__name__}", f"symmetry={spell(n, how)!r}: {e}", cls=cls)
            obs.outcome = ("exc", type(e).__name__, cls)
            return
        df = getattr(res, "df", None)
        if df is None or set(df.columns) != set(COLS):
            obs.fail(SITE, "result-is-particle-list", f"returned {type(res).__name__}", cls=cls)
            obs.outcome = ("bad-result",)
            return
        want = model(rows, n, s)
        a = df[COLS].to_numpy(dtype=float)
        c = {f: j for j, f in enumerate(COLS)}
        obs.outcome = hashlib.blake2b(np.round(a, 6).tobytes(), digest_size=8).hexdigest()

        ok = obs.check(len(a) == n * len(rows), SITE, "count", f"{len(a)} rows for {len(rows)} parents and n={n}", cls=cls)
        keys = [(a[i, c["geom5"]], a[i, c["geom2"]]) for i in range(len(a))]
        per_parent = {}
        for p, _k in keys:
            per_parent[p] = per_parent.get(p, 0) + 1
        ok &= obs.check(sorted(per_parent.items()) == sorted((r["subtomo_id"], n) for r in rows), SITE, "n-per-parent",
                        lambda: f"rows per recorded parent (geom5): {sorted(per_parent.items())}, expected {n} for each of {[r['subtomo_id'] for r in rows]}", cls=cls)
        ok &= obs.check(sorted(keys) == sorted(want.keys()), SITE, "parent-and-index",
                        lambda: f"(geom5, geom2) pairs {sorted(keys)[:8]}... expected every parent x 1..{n}", cls=cls)
        ids = a[:, c["subtomo_id"]]
        obs.check(len(set(ids.tolist())) == len(ids) and not np.isnan(ids).any(), SITE, "ids-unique", lambda: f"subtomo_id {ids.tolist()[:12]}", cls=cls)
        xyz = a[:, [c["x"], c["y"], c["z"]]]
        sh = a[:, [c["shift_x"], c["shift_y"], c["shift_z"]]]
        obs.check(bool(np.all(xyz == np.rint(xyz))), SITE, "integral-xyz", lambda: f"non-integral x,y,z: {xyz[np.any(xyz != np.rint(xyz), axis=1)][:3].tolist()}", cls=cls)
        obs.check(bool(np.all(np.abs(sh) <= 0.5 + 1e-12)), SITE, "shift-range", lambda: f"|shift| > 0.5: {sh[np.any(np.abs(sh) > 0.5 + 1e-12, axis=1)][:3].tolist()}", cls=cls)
        if not ok:
            return
        bad = {}
        for i, key in enumerate(keys):
            Rk, pos, centre, R, parent = want[key]
            Ro = so3.zxz(a[i, c["phi"]], a[i, c["theta"]], a[i, c["psi"]])
            po = xyz[i] + sh[i]
            if not np.all(np.abs(Ro - Rk) <= TOL_R):
                bad.setdefault("orientation", f"parent {key[0]} subunit {int(key[1])}: angles {a[i, [c['phi'], c['theta'], c['psi']]].tolist()} differ from R*Rz({360.0 * (key[1] - 1) / n:g}) by {np.abs(Ro - Rk).max():.3g}")
            if not np.all(np.abs(Ro[:, 2] - R[:, 2]) <= TOL_R):
                bad.setdefault("about-parent-z", f"parent {key[0]} subunit {int(key[1])}: z-axis {Ro[:, 2].tolist()} is not the parent's {R[:, 2].tolist()}")
            if not np.all(np.abs(po - pos) <= TOL_P):
                bad.setdefault("position", f"parent {key[0]} subunit {int(key[1])}: complete position {po.tolist()}, expected centre + R*Rz*s = {pos.tolist()}")
            back = po - Ro @ np.asarray(s, dtype=float)
            if not np.all(np.abs(back - centre) <= 1e-6):
                bad.setdefault("maps-back-to-centre", f"parent {key[0]} subunit {int(key[1])}: position - orientation*s = {back.tolist()}, parent centre {centre.tolist()}")
            for f in INHERITED:
                if not a[i, c[f]] == parent[f]:
                    bad.setdefault("fields-inherited", f"parent {key[0]} subunit {int(key[1])}: {f} = {a[i, c[f]]!r}, parent has {parent[f]!r}")
        for clause in ("orientation", "about-parent-z", "position", "maps-back-to-centre", "fields-inherited"):
            obs.check(clause not in bad, SITE, clause, bad.get(clause, ""), cls=cls)

    return execute


def families(tier, seed):
    lists = particle_lists(seed, tier)
    offs = offsets(seed, tier)
    ns = list(range(1, 65))
    ex = make_execute(lists, offs)
    sp = Product(ns, list(range(len(lists))), list(range(len(offs))), SPELLINGS)

    def describe_with(lists_, offs_):
        def describe(case):
            n, li, oi, how = case
            return {"n": n, "symmetry_argument": repr(spell(n, how)), "xyz_shift": list(offs_[oi][1]), "list": lists_[li][0],
                    "particles": [{k: v for k, v in r.items() if k in ("subtomo_id", "x", "y", "z", "shift_x", "shift_y", "shift_z", "phi", "theta", "psi")} for r in lists_[li][1][:3]]}
        return describe

    expect = ("count", "n-per-parent", "parent-and-index", "ids-unique", "integral-xyz", "shift-range", "orientation", "about-parent-z", "position",
              "maps-back-to-centre", "fields-inherited")
    fams = [Family("cyclic-orbit", sp, ex, expect=expect, describe=describe_with(lists, offs))]
    from ..motlgen import with_row_index_kinds
    fams.append(with_row_index_kinds(fams[0], select=lambda c: c[3] == "int", kinds=("gapped", "reversed", "repeated"), expect=("count", "orientation", "position", "fields-inherited")))
    if tier == "thorough":
        big = big_lists(seed)
        boffs = offs[:2]
        fams.append(Family("cyclic-orbit-100-particles", Product(ns, list(range(len(big))), list(range(len(boffs))), ["int", "Cn"]),
                           make_execute(big, boffs), expect=expect, describe=describe_with(big, boffs)))
    return fams
