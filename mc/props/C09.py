"""C09 — spatial filters keep exactly the particles that lie inside.

remove_out_of_bounds_particles, adapt_to_trimming, clean_by_distance_to_points, clean_by_tomo_mask of cryocat.cryomotl.Motl.

The decisive structure is *which kinds of particle stand where in the list*; every family enumerates all sequences over an
alphabet of particle kinds (one kind = one way of being inside/outside) times the configurations of the filter.  All
positions come from boundary-convention-neutral palettes: a particle is only ever placed where every plausible reading of
"inside" (0-based / 1-based, continuous / voxel, int / round) gives the same verdict; the oracle re-verifies that.
"""
import contextlib
import math
import os

import numpy as np
import pandas as pd

from ..engine import Family, HarnessError, LibError
from ..space import Listed, Mapped, Product, Union, sequences
from ..motlgen import COLS, frame
from ..oracles import emfmt, mrcfmt

SITE_OOB = "remove_out_of_bounds_particles"
SITE_TRIM = "adapt_to_trimming"


def _snap(x):
    """repr-able snapshot of a caller-owned argument (array, list, DataFrame, nested list of arrays)."""
    import pandas as _pd

    if isinstance(x, np.ndarray):
        return ("nd", x.shape, str(x.dtype), x.tobytes())
    if isinstance(x, _pd.DataFrame):
        # values only: dimensions_load relabels the columns of a DataFrame argument (x, y, z / tomo_id, x, y, z), which no
        # later call can observe in its results, so labels are not part of the snapshot
        return ("df", x.shape, x.to_numpy(dtype=float).tobytes() if x.size else b"")
    if isinstance(x, (list, tuple)):
        return ("seq", tuple(_snap(v) for v in x))
    return ("val", repr(x))


def check_args_untouched(obs, site, before, *args):
    """The caller's own argument objects are passed again to the next call (next list, next tomogram): they must come
    back unchanged."""
    obs.check(tuple(_snap(a) for a in args) == before, site, "argument-untouched", "an argument object of the caller was modified in place")
SITE_DIST = "clean_by_distance_to_points"
SITE_MASK = "clean_by_tomo_mask"

RULE = (
    "cases = (sequence of particle kinds, shortest first) x filter configuration; every case builds the list, calls the real "
    "filter once and compares the surviving set (by subtomo_id tag, order-free) and every field of every survivor with an "
    "independent inside-set model.  Kinds: inside; below a lower face on x/y/z; beyond an upper face on x/y/z; inside/outside "
    "only because of the shift; inside the own tomogram's dimensions but not another's and vice versa; on a zero / one voxel, "
    "beyond the mask volume, at negative coordinates, in a tomogram without mask; near / between the radii / far from a "
    "reference point of the same / another tomogram.  Non-trivial = the model removes at least one particle and keeps at "
    "least one; distinct = distinct case descriptions.  Positions on which readings of 'inside' differ are never used."
)
BOUNDS = {
    "quick": "out-of-bounds: all kind sequences of length 1..2 over 15 kinds + length 3 over 11 kinds, x {center, whole/4, whole/7} x dimensions as "
             "{Nx4 array, DataFrame, file} (3 tomograms, different non-cubic dimensions, 3 row orders), + length 4 over 6 kinds x 3 configurations; "
             "single tomogram with 1x3 dimensions: length 1..2 over 10 kinds x 4 forms x 3 boundaries; trimming: every coordinate in "
             "{start-1,start,mid,end,end+1}^3 as a single particle x 2 trim boxes x {array, list} + the list of all 125 (2 orders) + all kind "
             "sequences of length 2..3 over 9 kinds and 4 over 5 kinds; distance: sequences 1..2 over 11 kinds x 8 reference-point sets x radii "
             "{0.9,1.6} x inplace, length 3 x 8 configurations (every point set), length 4 over 6 kinds x 2 configurations; mask: sequences 1..2 "
             "over 12 kinds x 4 mask modes (per-tomogram arrays / one array / per-tomogram EM files / one MRC file) x inplace, length 3 x 4 "
             "configurations (every mode), length 4 over 7 kinds x 2 configurations",
    "thorough": "out-of-bounds: length 1..3 over 15 kinds + 4 over 11 kinds x 12 configurations (adds box 10), length 5 over 6 kinds x 3; 1x3: length "
                "1..3; trimming: 3 trim boxes, length 2..4 over 9 kinds + 5 over 5 kinds; distance: length 1..3 x all 32 configurations + length 4 "
                "over 11 kinds x 8; mask: length 1..3 x all 8 configurations + length 4 over 12 kinds x 4",
}
ASSUMPTIONS = [
    "a position is judged only where all readings of 'inside' agree: centre inside iff 1 <= p <= dim-1 on every axis, outside iff p < -0.5 or "
    "p > dim+0.5 on some axis; 'whole' box b: inside iff p-ceil(b/2) >= 1 and p+ceil(b/2) <= dim-1, outside iff p < floor((b-1)/2)-0.5 or "
    "p > dim-floor((b-1)/2)+0.5; values in between are not in the palettes (so `<` vs `<=` and ceil vs floor of an odd box are not judged)",
    "adapt_to_trimming: trim coordinates are IMOD-trimvol style 1-based inclusive voxels (pinned by the passing repository test): "
    "start..end are inside, new = old - (start - 1); x,y,z integral; shifts do not take part (the statement speaks of extraction positions)",
    "distance filter: no particle-point distance within 1e-3 of a radius (verified by brute force on the generated palette)",
    "mask filter: masks are made of constant 3x3x3 blocks and particles sit at block centres (c in [3i+1, 3i+1.9]) so int(c), int(c)-1 and "
    "round(c) read the same block, for the extraction position as well as the complete position; outside = |all readings| outside the volume",
    "float64 tables only (DESIGN 3.21); survivors are compared as a set of tagged rows (no order is promised)",
]
BUDGET_S = {"quick": 500, "thorough": 2400}

_NULL = open(os.devnull, "w")
TAGS = [41.0, 7.0, 23.0, 12.0, 30.0, 55.0]


def quiet():
    return contextlib.redirect_stdout(_NULL)


def jitter(seed, key, lo, hi, digits=3):
    """Deterministic representative number in [lo, hi]; seed 0 -> lo (the hand-written palette)."""
    if seed == 0:
        return lo
    rs = np.random.RandomState((hash_int(key) + 7919 * seed) % (2 ** 31))
    return round(float(rs.uniform(lo, hi)), digits)


def hash_int(s):
    h = 0
    for ch in str(s):
        h = (h * 131 + ord(ch)) % 1000003
    return h


def other_fields(j):
    """Distinct, recognisable values in every non-positional field of the j-th particle of a list."""
    return {
        "score": 0.11 + 0.07 * j, "geom1": 2.5 + j, "geom2": -1.0 - j, "object_id": 100.0 + 3 * j, "subtomo_mean": 0.5 * j, "geom3": 1.0 / 3.0 + j,
        "geom4": 16777217.0 + j, "geom5": -0.25 * (j + 1), "phi": 10.0 + 31 * j, "psi": -20.0 - 17 * j, "theta": 15.0 + 40 * j, "class": float(1 + j % 3),
    }


def split_pos(p):
    """complete position -> (integral extraction coordinate, shift in [-0.5, 0.5))."""
    x = math.floor(p + 0.5)
    return float(x), p - x


def row(j, tomo, pos=None, xyz=None, shift=None):
    r = other_fields(j)
    r["subtomo_id"] = TAGS[j]
    r["tomo_id"] = float(tomo)
    if pos is not None:
        parts = [split_pos(p) for p in pos]
        xyz = [a for a, _ in parts]
        shift = [b for _, b in parts]
    for a, name in enumerate("xyz"):
        r[name] = float(xyz[a])
        r["shift_" + name] = float(shift[a])
    return r


def complete(r):
    return np.array([r["x"] + r["shift_x"], r["y"] + r["shift_y"], r["z"] + r["shift_z"]])


def make_frame(rows, gapped_index):
    df = frame(rows)
    if gapped_index:
        df.index = [3 + 2 * i for i in range(len(df))][::-1]
    return df


def judge_survivors(obs, site, df, rows, cls="", expected_xyz=None):
    """Order-free comparison of the surviving rows with the input rows.  Returns the set of surviving tags (or None)."""
    if df is None or set(df.columns) != set(COLS):
        obs.fail(site, "result-columns", f"result is not a 20-field particle table: {None if df is None else list(df.columns)}", cls)
        return None
    by_tag = {r["subtomo_id"]: r for r in rows}
    vals = df[COLS].to_numpy(dtype=float) if len(df) else np.zeros((0, 20))
    seen = set()
    ok_rows = ok_dup = ok_alt = ok_off = True
    det = {}
    for i in range(vals.shape[0]):
        got = dict(zip(COLS, vals[i].tolist()))
        tag = got["subtomo_id"]
        if tag not in by_tag:
            ok_rows = False
            det.setdefault("row-unknown", f"row with subtomo_id {tag!r} is not an input particle")
            continue
        if tag in seen:
            ok_dup = False
            det.setdefault("row-duplicated", f"particle {tag} occurs twice in the result")
            continue
        seen.add(tag)
        src = by_tag[tag]
        for f in COLS:
            if expected_xyz is not None and f in ("x", "y", "z"):
                want = expected_xyz[tag]["xyz".index(f)]
                if got[f] != want:
                    ok_off = False
                    det.setdefault("offset-value", f"particle {tag}: {f} = {got[f]!r}, expected {src[f]!r} re-expressed as {want!r}")
            elif got[f] != src.get(f, 0.0):
                ok_alt = False
                det.setdefault("survivor-altered", f"particle {tag}: field {f} = {got[f]!r}, was {src.get(f, 0.0)!r}")
    obs.check(ok_rows, site, "row-unknown", det.get("row-unknown", ""), cls)
    obs.check(ok_dup, site, "row-duplicated", det.get("row-duplicated", ""), cls)
    if seen:
        obs.check(ok_alt, site, "survivor-altered", det.get("survivor-altered", ""), cls)
        if expected_xyz is not None:
            obs.check(ok_off, site, "offset-value", det.get("offset-value", ""), cls)
    return seen


def original_untouched(obs, site, m, rows, key_before):
    """inplace=False: the result is the returned list and the list the method was called on stays as it was (docstring of both
    filters: "the original motive list remains unchanged") – this is what the `inplace` switch of the filter means."""
    from ..motlgen import df_key

    obs.check(df_key(m.df) == key_before, site, "inplace-false-original-changed", "inplace=False changed the list the method was called on")


# ==================================================================================================================
# 1. remove_out_of_bounds_particles

DIMS = {1: (24.0, 36.0, 48.0), 2: (36.0, 48.0, 24.0), 3: (48.0, 24.0, 36.0)}
SMALL_AXIS = {1: 0, 2: 2, 3: 1}   # axis on which the tomogram is the smallest (24); both others are >= 36 there
LARGE_AXIS = {1: 2, 2: 1, 3: 0}   # axis on which the tomogram is the largest (48); both others are <= 36 there

# kind -> (tomogram, expected kept?, clause if the verdict is wrong, cls)
OOB_KINDS = {
    "IN1": (1, True, "inside-removed", ""),
    "G1": (1, True, "wrong-tomogram-dimensions", "inside-own-removed"),
    "F1": (1, False, "wrong-tomogram-dimensions", "outside-own-kept"),
    "G2": (2, True, "wrong-tomogram-dimensions", "inside-own-removed"),
    "F2": (2, False, "wrong-tomogram-dimensions", "outside-own-kept"),
    "G3": (3, True, "wrong-tomogram-dimensions", "inside-own-removed"),
    "LOx": (1, False, "lower-face-kept", ""),
    "LOy": (1, False, "lower-face-kept", ""),
    "LOz": (1, False, "lower-face-kept", ""),
    "UPx": (1, False, "upper-face-kept", ""),
    "UPy": (1, False, "upper-face-kept", ""),
    "UPz": (1, False, "upper-face-kept", ""),
    "SINlo": (1, True, "shift-ignored", "inside-by-shift-removed"),
    "SINup": (1, True, "shift-ignored", "inside-by-shift-removed"),
    "SOUTup": (1, False, "shift-ignored", "outside-by-shift-kept"),
    # inside, 1.5-2.4 voxels below the upper x face: only for boundary_type "center" (a half box must not be applied there);
    # for "whole" the kind degenerates to a plain inside particle
    "NUP": (1, True, "inside-removed", "near-upper-face"),
}
OOB_ALL = list(OOB_KINDS)
OOB_MEDIUM = ["IN1", "G1", "F1", "G2", "F2", "G3", "LOx", "LOz", "UPy", "SINlo", "SOUTup", "NUP"]
OOB_REDUCED = ["IN1", "G2", "F1", "LOx", "UPy", "SOUTup"]
OOB_SINGLE = ["IN1", "LOx", "LOy", "LOz", "UPx", "UPy", "UPz", "SINlo", "SINup", "SOUTup", "NUP"]


def tight_loose(boundary, box):
    if boundary == "center":
        return 0, 0
    return math.ceil(box / 2), (box - 1) // 2


def oob_row(kind, j, boundary, box, seed):
    """The j-th particle of a list, of the given kind, for the given boundary configuration."""
    T, h = tight_loose(boundary, box)
    tomo = OOB_KINDS[kind][0]
    fr = [jitter(seed, ("in", kind, j, a), f0, 0.45) for a, f0 in enumerate((0.0, 0.25, 0.4))]
    inside = [8.0 + 2 * j + fr[a] for a in range(3)]           # in [8, 18.45]: inside every tomogram for every box <= 10
    lo = h - 1.25 - jitter(seed, ("lo", kind, j), 0.0, 1.5)    # < h - 0.5: outside under every reading, and < 0 for 'center'
    def up(dim):
        return dim - h + 1.25 + jitter(seed, ("up", kind, j), 0.0, 1.5)
    pos = list(inside)
    if kind in ("IN1",):
        return row(j, tomo, pos=pos)
    if kind == "NUP":
        if boundary == "center":
            pos[0] = 24.0 - 1.5 - jitter(seed, ("nup", j), 0.0, 0.9)
        return row(j, tomo, pos=pos)
    if kind[0] == "G":      # inside the own (largest) dimension, outside both other tomograms' dimensions on that axis
        pos[LARGE_AXIS[tomo]] = up(36.0)
        return row(j, tomo, pos=pos)
    if kind[0] == "F":      # outside the own (smallest) dimension, inside both other tomograms' dimensions on that axis
        pos[SMALL_AXIS[tomo]] = up(24.0)
        return row(j, tomo, pos=pos)
    if kind[:2] == "LO":
        pos["xyz".index(kind[2])] = lo
        return row(j, tomo, pos=pos)
    if kind[:2] == "UP":
        pos["xyz".index(kind[2])] = up(48.0)                    # beyond every tomogram's dimension
        return row(j, tomo, pos=pos)
    parts = [split_pos(p) for p in pos]
    xyz = [a for a, _ in parts]
    sh = [b for _, b in parts]
    if kind == "SINlo":     # extraction position below the lower x face, the shift brings the particle inside
        xyz[0] = -3.0
        sh[0] = pos[0] + 3.0
    elif kind == "SINup":   # extraction position beyond the upper y face of every tomogram, the shift brings it inside
        xyz[1] = 60.0
        sh[1] = pos[1] - 60.0
    elif kind == "SOUTup":  # extraction position inside, the shift pushes the particle beyond the upper z face
        sh[2] = up(48.0) - xyz[2]
    else:
        raise HarnessError(f"unknown kind {kind}")
    return row(j, tomo, xyz=xyz, shift=sh)


def oob_model(r, boundary, box, dims):
    """True = inside under every reading, False = outside under every reading, None = readings differ (must not occur)."""
    T, h = tight_loose(boundary, box)
    p = complete(r)
    d = np.asarray(dims, dtype=float)
    if np.all(p - T >= 1.0) and np.all(p + T <= d - 1.0):
        return True
    if np.any(p < h - 0.5) or np.any(p > d - h + 0.5):
        return False
    return None


OOB_FORMS = [("array", (1, 2, 3)), ("dataframe", (3, 1, 2)), ("file", (2, 3, 1))]
SINGLE_FORMS = ["array-1x3", "list-1x3", "file-1x3", "dataframe-1x3"]


def dims_argument(form, order):
    table = np.array([[float(t), *DIMS[t]] for t in order])
    if form == "array":
        return table
    if form == "dataframe":
        return pd.DataFrame(table, columns=["tomo_id", "x", "y", "z"])
    if form == "file":
        with open("c09_dims.txt", "w") as f:
            for line in table:
                f.write("  ".join(f"{v:g}" for v in line) + "\n")
        return "c09_dims.txt"
    d1 = np.array(DIMS[1])
    if form == "array-1x3":
        return d1
    if form == "list-1x3":
        return [float(v) for v in d1]
    if form == "dataframe-1x3":
        return pd.DataFrame(d1.reshape(1, 3))
    if form == "file-1x3":
        with open("c09_dims1.txt", "w") as f:
            f.write(" ".join(f"{v:g}" for v in d1) + "\n")
        return "c09_dims1.txt"
    raise HarnessError(form)


def make_oob_execute(seed):
    def execute(case, obs):
        from cryocat import cryomotl as cm

        kinds, (boundary, box, form, order) = case
        rows = [oob_row(k, j, boundary, box, seed) for j, k in enumerate(kinds)]
        expect = {}
        for k, r in zip(kinds, rows):
            v = oob_model(r, boundary, box, DIMS[int(r["tomo_id"])])
            if v is None or v != OOB_KINDS[k][1]:
                raise HarnessError(f"palette precondition: kind {k} at {complete(r).tolist()} judged {v} for {boundary}/{box}")
            # the kinds that depend on the tomogram must really discriminate the other tomograms' dimensions
            if k[0] in "GF":
                others = [oob_model(r, boundary, box, DIMS[t]) for t in DIMS if t != int(r["tomo_id"])]
                if any(o is None or o == v for o in others):
                    raise HarnessError(f"palette precondition: kind {k} does not discriminate tomograms: {others}")
            expect[r["subtomo_id"]] = v
        obs.nontrivial = len(set(expect.values())) == 2
        single = form.endswith("1x3")
        cls_exc = "dimensions-1x3" if single else f"dimensions-{form}"
        m = obs.lib("Motl.__init__", cm.Motl, make_frame(rows, gapped_index=(form in ("dataframe", "list-1x3"))))
        arg = dims_argument(form, order)
        kw = {"boundary_type": boundary}
        if boundary == "whole" or box is not None:
            kw["box_size"] = box
        snap = (_snap(arg),)
        try:
            with quiet():
                obs.lib(SITE_OOB, m.remove_out_of_bounds_particles, arg, **kw)
            check_args_untouched(obs, SITE_OOB, snap, arg)
        except LibError as le:
            e = le.exc
            obs.fail(SITE_OOB, f"exception:{type(e).__name__}", f"dimensions given as {form}: {e!r}", cls=cls_exc)
            obs.outcome = ("exc", type(e).__name__)
            return
        kept = judge_survivors(obs, SITE_OOB, m.df, rows)
        if kept is None:
            obs.outcome = ("bad-result",)
            return
        for k, r in zip(kinds, rows):
            tag = r["subtomo_id"]
            _t, want_keep, clause, cls = OOB_KINDS[k]
            obs.check((tag in kept) == want_keep, SITE_OOB, clause,
                      lambda: f"{k} particle {tag} (tomogram {int(r['tomo_id'])}, dims {DIMS[int(r['tomo_id'])]}, x,y,z "
                              f"{[r['x'], r['y'], r['z']]} + shift {[round(r['shift_x'], 3), round(r['shift_y'], 3), round(r['shift_z'], 3)]}, "
                              f"boundary {boundary}/{box}) was {'kept' if tag in kept else 'removed'}", cls)
        obs.outcome = tuple(t for t in m.df["subtomo_id"].tolist())

    return execute


def oob_describe(seed):
    def describe(case):
        kinds, (boundary, box, form, order) = case
        rows = [oob_row(k, j, boundary, box, seed) for j, k in enumerate(kinds)]
        return {"kinds": list(kinds), "boundary_type": boundary, "box_size": box, "dimensions_as": form,
                "dimension_rows": [[t, *DIMS[t]] for t in order] if order else [list(DIMS[1])],
                "particles": [{f: r[f] for f in ("subtomo_id", "tomo_id", "x", "y", "z", "shift_x", "shift_y", "shift_z")} for r in rows]}
    return describe


# ==================================================================================================================
# 2. adapt_to_trimming

TRIM_CODES = ["start-1", "start", "mid", "end", "end+1"]
TRIM_KINDS = {   # kind -> per-axis codes
    "IN": ("mid", "mid", "mid"),
    "LOx": ("start-1", "mid", "mid"), "LOy": ("mid", "start-1", "mid"), "LOz": ("mid", "mid", "start-1"),
    "HIx": ("end+1", "mid", "mid"), "HIy": ("mid", "end+1", "mid"), "HIz": ("mid", "mid", "end+1"),
    "FIRST": ("start", "start", "start"), "LAST": ("end", "end", "end"),
}
TRIM_REDUCED = ["IN", "LOx", "HIz", "FIRST", "LAST"]


def trim_boxes(seed, tier):
    if seed == 0:
        boxes = [((3, 5, 2), (9, 12, 11)), ((1, 1, 1), (6, 4, 8)), ((10, 20, 30), (150, 150, 150))]
    else:
        rs = np.random.RandomState(31 + seed)
        boxes = []
        for _ in range(3):
            st = rs.randint(1, 40, 3)
            boxes.append((tuple(int(v) for v in st), tuple(int(v) for v in st + rs.randint(2, 60, 3))))
        boxes[1] = ((1, 1, 1), boxes[1][1])
    return boxes if tier == "thorough" else boxes[:2]


def trim_coord(code, start, end):
    return {"start-1": start - 1, "start": start, "mid": (start + end) // 2, "end": end, "end+1": end + 1}[code]


def make_trim_execute(seed, boxes):
    def execute(case, obs):
        from cryocat import cryomotl as cm

        bi, codes, form = case
        start, end = boxes[bi]
        rows = []
        for j, c3 in enumerate(codes):
            xyz = [float(trim_coord(c3[a], start[a], end[a])) for a in range(3)]
            # shifts are deliberately large: only the extraction position counts for this filter, shifts must survive untouched
            sh = [0.45 + (3.0 if j % 2 else 0.0), -0.2 * (j % 5), 0.3 - 7.0 * (j % 3 == 1)]
            r = other_fields(j % 97)
            r.update(subtomo_id=float(1000 + 7 * j) if len(codes) > len(TAGS) else TAGS[j], tomo_id=float(1 + j % 3))
            for a, nme in enumerate("xyz"):
                r[nme] = xyz[a]
                r["shift_" + nme] = float(sh[a])
            rows.append(r)
        expect = {}
        newxyz = {}
        for r, c3 in zip(rows, codes):
            expect[r["subtomo_id"]] = all(c in ("start", "mid", "end") for c in c3)
            newxyz[r["subtomo_id"]] = [r["xyz"[a]] - (start[a] - 1) for a in range(3)]
        obs.nontrivial = len(set(expect.values())) == 2
        m = obs.lib("Motl.__init__", cm.Motl, make_frame(rows, gapped_index=(form == "list")))
        a0, a1 = (np.array(start), np.array(end)) if form == "array" else (list(start), list(end))
        snap = tuple(_snap(v) for v in (a0, a1))
        with quiet():
            obs.lib(SITE_TRIM, m.adapt_to_trimming, a0, a1)
        check_args_untouched(obs, SITE_TRIM, snap, a0, a1)
        kept = judge_survivors(obs, SITE_TRIM, m.df, rows, expected_xyz=newxyz)
        if kept is None:
            obs.outcome = ("bad-result",)
            return
        for r, c3 in zip(rows, codes):
            tag = r["subtomo_id"]
            got = tag in kept
            if "start-1" in c3:
                clause = "before-start-kept"
            elif "end+1" in c3:
                clause = "after-end-kept"
            elif "start" in c3:
                clause = "start-voxel-removed"
            elif "end" in c3:
                clause = "end-voxel-removed"
            else:
                clause = "inside-removed"
            obs.check(got == expect[tag], SITE_TRIM, clause,
                      lambda: f"particle {tag} at x,y,z {[r['x'], r['y'], r['z']]} ({'/'.join(c3)}) with trim {start}..{end} was {'kept' if got else 'removed'}")
        obs.outcome = tuple(m.df["subtomo_id"].tolist()) + tuple(m.df["x"].tolist()[:3])

    return execute


def trim_describe(boxes):
    def describe(case):
        bi, codes, form = case
        d = {"trim_start": list(boxes[bi][0]), "trim_end": list(boxes[bi][1]), "arguments_as": form, "n_particles": len(codes)}
        d["coordinates"] = [list(c) for c in codes[:6]]
        return d
    return describe


# ==================================================================================================================
# 3. clean_by_distance_to_points

# D is a reference point of tomogram 2 with exactly the coordinates of A (tomogram 1): identical x,y,z in two tomograms
PT = {"A": (1, (20.0, 20.0, 20.0)), "B": (1, (20.0, 27.0, 20.0)), "C": (2, (30.0, 12.0, 8.0)), "D": (2, (20.0, 20.0, 20.0))}
RADII = [0.9, 1.6]
DIST_KINDS = ["N1A", "M1A", "FAR1", "N1B", "X1C", "N2C", "M2C", "X2A", "SN1A", "SF1A", "T3A"]
DIST_REDUCED = ["N1A", "M1A", "FAR1", "X2A", "N2C", "SN1A"]


def dist_dirs(seed):
    def unit(key):
        if seed == 0:
            v = {"near": (0.3, -0.3, 0.27), "mid": (0.9, -0.7, 0.5)}[key]
            return np.array(v)
        rs = np.random.RandomState(500 + seed + (0 if key == "near" else 50))
        v = rs.normal(size=3)
        v /= np.linalg.norm(v)
        return v * (rs.uniform(0.25, 0.7) if key == "near" else rs.uniform(1.05, 1.45))
    return {"near": unit("near"), "mid": unit("mid"), "far": np.array([3.0, 5.0, -4.0])}


def dist_row(kind, j, dirs):
    sc = 1.0 + 0.02 * j
    def at(p, key):
        return (np.array(PT[p][1]) + dirs[key] * sc).tolist()
    if kind == "N1A":
        return row(j, 1, pos=at("A", "near"))
    if kind == "M1A":
        return row(j, 1, pos=at("A", "mid"))
    if kind == "FAR1":
        return row(j, 1, pos=at("A", "far"))
    if kind == "N1B":
        return row(j, 1, pos=at("B", "near"))
    if kind == "X1C":       # tomogram 1 particle sitting on a reference point of tomogram 2
        return row(j, 1, pos=at("C", "near"))
    if kind == "N2C":
        return row(j, 2, pos=at("C", "near"))
    if kind == "M2C":
        return row(j, 2, pos=at("C", "mid"))
    if kind == "X2A":       # tomogram 2 particle sitting on a reference point of tomogram 1
        return row(j, 2, pos=at("A", "near"))
    if kind == "T3A":       # tomogram without any reference point
        return row(j, 3, pos=at("A", "near"))
    a = np.array(PT["A"][1])
    if kind == "SN1A":      # extraction position 5 voxels away from A, complete position next to A
        tgt = a + dirs["near"] * sc
        xyz = a + np.array([5.0, 0.0, 0.0])
        return row(j, 1, xyz=xyz.tolist(), shift=(tgt - xyz).tolist())
    if kind == "SF1A":      # extraction position exactly on A, complete position 3.7 voxels away
        return row(j, 1, xyz=a.tolist(), shift=[3.7 + 0.1 * j, 0.1, -0.1])
    raise HarnessError(kind)


def dist_points(chosen, odd):
    """Reference table: the chosen points + a decoy for a tomogram that has no particles, placed on the FAR1 site."""
    recs = [{"tomo_id": float(PT[p][0]), "x": PT[p][1][0], "y": PT[p][1][1], "z": PT[p][1][2]} for p in chosen]
    far = np.array(PT["A"][1]) + np.array([3.0, 5.0, -4.0])
    recs.append({"tomo_id": 9.0, "x": far[0], "y": far[1], "z": far[2]})
    cols = ["x", "y", "z", "tomo_id"] if odd else ["tomo_id", "x", "y", "z"]
    df = pd.DataFrame(recs, columns=["tomo_id", "x", "y", "z"]).astype(float)[cols]
    if odd:
        df["label"] = np.arange(len(df), dtype=float)   # extra columns are allowed by the docstring
    return df


def within(p, pts, radius):
    return any(np.linalg.norm(np.asarray(p) - np.asarray(q)) <= radius for q in pts)


def make_dist_execute(seed, cfgs):
    dirs = dist_dirs(seed)

    def execute(case, obs):
        from cryocat import cryomotl as cm
        from ..motlgen import df_key

        kinds, ci = case
        chosen, radius, inplace = cfgs[ci]
        rows = [dist_row(k, j, dirs) for j, k in enumerate(kinds)]
        pts_df = dist_points(chosen, odd=ci % 2 == 1)
        allpts = [(float(t), (x, y, z)) for t, x, y, z in pts_df[["tomo_id", "x", "y", "z"]].to_numpy().tolist()]
        truth, alt_raw, alt_any = {}, {}, {}
        for r in rows:
            own = [q for t, q in allpts if t == r["tomo_id"]]
            everyone = [q for _t, q in allpts]
            p = complete(r)
            for q in everyone:
                if abs(np.linalg.norm(p - np.asarray(q)) - radius) < 1e-3 or abs(np.linalg.norm(np.array([r["x"], r["y"], r["z"]]) - np.asarray(q)) - radius) < 1e-3:
                    raise HarnessError(f"palette precondition: distance within 1e-3 of radius {radius}")
            tag = r["subtomo_id"]
            truth[tag] = within(p, own, radius)                                # True = must be removed
            alt_raw[tag] = within([r["x"], r["y"], r["z"]], own, radius)       # a filter that ignores the shifts
            alt_any[tag] = within(p, everyone, radius)                         # a filter that ignores the tomogram
        obs.nontrivial = len(set(truth.values())) == 2
        m = obs.lib("Motl.__init__", cm.Motl, make_frame(rows, gapped_index=(ci % 3 == 2)))
        before = df_key(m.df)
        cls_cfg = "all-removed" if all(truth.values()) else ""
        try:
            with quiet():
                snap = (_snap(pts_df),)
                res = obs.lib(SITE_DIST, m.clean_by_distance_to_points, pts_df, radius, inplace=inplace)
                check_args_untouched(obs, SITE_DIST, snap, pts_df)
        except LibError as le:
            e = le.exc
            obs.fail(SITE_DIST, f"exception:{type(e).__name__}", repr(e), cls=cls_cfg)
            obs.outcome = ("exc", type(e).__name__)
            return
        if inplace:
            out = m.df
        else:
            original_untouched(obs, SITE_DIST, m, rows, before)
            out = getattr(res, "df", None)
        kept = judge_survivors(obs, SITE_DIST, out, rows)
        if kept is None:
            obs.outcome = ("bad-result",)
            return
        for k, r in zip(kinds, rows):
            tag = r["subtomo_id"]
            removed = tag not in kept
            base = "within-radius-kept" if truth[tag] else "outside-radius-removed"
            cls = "between-radii" if k[0] == "M" else ""
            obs.fire(base)
            if alt_raw[tag] != truth[tag]:
                obs.fire("shift-ignored")
            if alt_any[tag] != truth[tag]:
                obs.fire("other-tomogram-point-used")
            if removed != truth[tag]:
                if alt_raw[tag] == removed:
                    clause, cls = "shift-ignored", ("near-by-shift-kept" if truth[tag] else "far-by-shift-removed")
                elif alt_any[tag] == removed:
                    clause = "other-tomogram-point-used"
                else:
                    clause = base
                obs.fail(SITE_DIST, clause, f"{k} particle {tag} (tomogram {int(r['tomo_id'])}, complete position {np.round(complete(r), 3).tolist()}, "
                         f"x,y,z {[r['x'], r['y'], r['z']]}) was {'removed' if removed else 'kept'}; points {chosen} radius {radius}", cls)
        obs.outcome = tuple(out["subtomo_id"].tolist())

    return execute


EXACT_OFFSETS = [(3, 4, 0), (0, -3, 4), (-4, 0, 3), (0, 0, 5), (2, 3, 6), (-6, 2, -3), (4, 4, 7), (1, 4, 8)]   # norms 5,5,5,5,7,7,9,9: exact in floating point


def exec_exact_radius(case, obs):
    """A particle whose complete position is EXACTLY the radius away from a reference point is "within the radius" (removed);
    integer offsets with integer norms make the distance exact.  Shift splits vary; a second particle sits just beyond."""
    from cryocat import cryomotl as cm

    oi, split, inplace, seed = case
    off = np.array(EXACT_OFFSETS[oi], dtype=float)
    radius = float(np.sqrt((off ** 2).sum()))
    if radius != round(radius):
        raise HarnessError("exact-radius palette is not exact")
    a = np.array(PT["A"][1])
    tgt = a + off
    if split == "integer":
        on = row(0, 1, xyz=tgt.tolist(), shift=[0.0, 0.0, 0.0])
    elif split == "half-shift":
        on = row(0, 1, xyz=(tgt - np.array([0.5, -0.5, 0.25])).tolist(), shift=[0.5, -0.5, 0.25])
    else:
        on = row(0, 1, xyz=a.tolist(), shift=off.tolist())
    beyond = row(1, 1, xyz=(a + off * 1.25).tolist(), shift=[0.0, 0.0, 0.0])      # 1.25 r away
    inside = row(2, 1, xyz=(a + off * 0.5).tolist(), shift=[0.0, 0.0, 0.0])       # 0.5 r away
    other = row(3, 2, xyz=tgt.tolist(), shift=[0.0, 0.0, 0.0])                    # same place, tomogram without that point
    rows = [beyond, on, inside, other]
    pts_df = dist_points(("A",), odd=False)
    m = obs.lib("Motl.__init__", cm.Motl, make_frame(rows, gapped_index=(oi % 2 == 1)))
    with quiet():
        res = obs.lib(SITE_DIST, m.clean_by_distance_to_points, pts_df, radius, inplace=inplace)
    out = m.df if inplace else getattr(res, "df", None)
    kept = judge_survivors(obs, SITE_DIST, out, rows)
    obs.nontrivial = True
    if kept is None:
        obs.outcome = ("bad-result",)
        return
    obs.check(on["subtomo_id"] not in kept, SITE_DIST, "within-radius-kept",
              f"particle exactly {radius} voxels from point A (offset {off.tolist()}, {split} split) was kept with radius {radius}", "exactly-at-radius")
    obs.check(inside["subtomo_id"] not in kept, SITE_DIST, "within-radius-kept", "particle at half the radius was kept", "")
    obs.check(beyond["subtomo_id"] in kept, SITE_DIST, "outside-radius-removed", "particle at 1.25 radius was removed", "")
    obs.check(other["subtomo_id"] in kept, SITE_DIST, "other-tomogram-point-used", "particle of a tomogram without that point was removed", "")
    obs.outcome = tuple(sorted(kept))


def dist_describe(seed, cfgs):
    dirs = dist_dirs(seed)

    def describe(case):
        kinds, ci = case
        chosen, radius, inplace = cfgs[ci]
        rows = [dist_row(k, j, dirs) for j, k in enumerate(kinds)]
        return {"kinds": list(kinds), "points": {p: [PT[p][0], *PT[p][1]] for p in chosen}, "radius": radius, "inplace": inplace, "config": ci,
                "particles": [{f: round(r[f], 4) for f in ("subtomo_id", "tomo_id", "x", "y", "z", "shift_x", "shift_y", "shift_z")} for r in rows]}
    return describe


# ==================================================================================================================
# 4. clean_by_tomo_mask

MASK_KINDS = {  # kind -> (tomogram, per-axis block index or ("beyond"|"neg"|"negbig"))
    "Z1a": (1, (0, 1, 2)), "Z1b": (1, (1, 2, 3)), "O1a": (1, (0, 2, 1)), "O1b": (1, (1, 1, 0)),
    "BEYx": (1, ("beyond", 1, 2)), "BEYy": (1, (0, "beyond", 2)), "BEYz": (1, (0, 1, "beyond")), "NEGx": (1, ("neg", 2, 3)), "NEGBIGz": (1, (0, 1, "negbig")),
    "P2a": (2, (1, 0, 1)), "P2b": (2, (2, 1, 0)), "P2c": (2, (0, 1, 2)),
    "U3": (3, (0, 1, 2)),
}
MASK_ALL = list(MASK_KINDS)
MASK_REDUCED = ["Z1a", "O1a", "BEYx", "NEGx", "P2a", "P2b", "U3"]
BLOCKS1 = (2, 3, 4)      # mask of tomogram 1: 6 x 9 x 12 voxels
BLOCKS2 = (3, 2, 2)      # mask of tomogram 2: 9 x 6 x 6 voxels
MASK_MODES = ["per-tomogram-arrays", "single-array", "per-tomogram-em-files", "single-mrc-file",
              "single-array-all-zero", "per-tomogram-arrays-first-all-zero"]


def mask_blocks(seed):
    """Block values (0/1) of the two masks.  The blocks the kinds sit on are pinned, the rest is a parity / seeded pattern."""
    def base(shape, salt):
        if seed == 0:
            return np.fromfunction(lambda i, j, k: (i + j + k + salt) % 2, shape, dtype=int).astype(np.int8)
        return np.random.RandomState(640 + seed + salt).randint(0, 2, shape).astype(np.int8)
    b1 = base(BLOCKS1, 0)
    b1[0, 1, 2] = 0   # Z1a, P2c, U3
    b1[1, 2, 3] = 0   # Z1b – also the block a negative x index wraps to for NEGx
    b1[0, 2, 1] = 1   # O1a
    b1[1, 2, 0] = 0   # what O1a would read with x and z swapped
    b1[1, 1, 0] = 1   # O1b
    b1[0, 1, 1] = 0   # what O1b would read with x and z swapped
    b1[1, 0, 1] = 1   # P2a under the mask of tomogram 1
    b1[0, 1, 3] = 0   # the voxel BEYz / NEGBIGz would read if their z were clipped or wrapped
    b1[1, 1, 2] = 0   # the voxel BEYx would read if its x were clipped
    b1[0, 2, 2] = 0   # the voxel BEYy would read if its y were clipped (y = 11 is beyond 9 but below the z edge 12)
    b2 = base(BLOCKS2, 1)
    b2[1, 0, 1] = 0   # P2a under its own mask
    b2[2, 1, 0] = 0   # P2b under its own mask (beyond the volume of mask 1)
    b2[0, 1, 1] = 1
    return b1, b2


def expand(blocks, dtype):
    return np.kron(blocks, np.ones((3, 3, 3), dtype=blocks.dtype)).astype(dtype)


def mask_row(kind, j, seed, shape1):
    tomo, spec = MASK_KINDS[kind]
    xyz, sh = [], []
    for a, b in enumerate(spec):
        f = jitter(seed, ("mask", kind, j, a), (0.0, 0.25, 0.45)[(a + j) % 3], 0.9)
        if b == "beyond":
            xyz.append(float(shape1[a] + 2))
            sh.append(0.25)
        elif b == "neg":
            xyz.append(-1.0)
            sh.append(-0.25)
        elif b == "negbig":
            xyz.append(-40.0)
            sh.append(-0.5)
        else:
            xyz.append(float(3 * b + 1))
            sh.append(f)
    return row(j, tomo, xyz=xyz, shift=sh)


def mask_model(r, blocks):
    """'zero' / 'one' / 'outside' under every index convention, else None."""
    shape = np.array(blocks.shape) * 3
    verdicts = set()
    for c in (np.array([r["x"], r["y"], r["z"]]), complete(r)):
        for idx in (np.trunc(c).astype(int), np.trunc(c).astype(int) - 1, np.floor(c + 0.5).astype(int), np.floor(c).astype(int)):
            if np.any(idx < 0) or np.any(idx >= shape):
                verdicts.add("outside")
            else:
                verdicts.add("zero" if blocks[tuple(idx // 3)] == 0 else "one")
    return verdicts.pop() if len(verdicts) == 1 else None


def make_mask_execute(seed, cfgs):
    b1, b2 = mask_blocks(seed)
    shape1 = tuple(3 * v for v in BLOCKS1)

    def execute(case, obs):
        from cryocat import cryomotl as cm
        from ..motlgen import df_key

        kinds, ci = case
        mode, inplace = cfgs[ci]
        rows = [mask_row(k, j, seed, shape1) for j, k in enumerate(kinds)]
        per_tomo = mode.startswith("per-tomogram")
        blocks_of = {1: b1, 2: b2 if per_tomo else b1}
        if mode.endswith("all-zero"):
            z1 = np.zeros_like(b1)
            blocks_of = {1: z1, 2: b2 if per_tomo else z1}
        truth = {}
        out_of_volume_in = set()
        for k, r in zip(kinds, rows):
            t = int(r["tomo_id"])
            if t not in blocks_of:
                truth[r["subtomo_id"]] = "unlisted"
                continue
            v = mask_model(r, blocks_of[t])
            if v is None:
                raise HarnessError(f"palette precondition: kind {k} reads different voxels under different index conventions")
            truth[r["subtomo_id"]] = v
            if v == "outside":
                out_of_volume_in.add(t)
        obs.nontrivial = "zero" in truth.values() and len(set(truth.values())) >= 2
        # arguments
        if mode == "per-tomogram-arrays":
            tomo_list, masks = [1, 2], [expand(b1, np.int8), expand(b2, np.int8)]
        elif mode == "single-array":
            tomo_list, masks = np.array([2, 1, 5]), expand(b1, np.float32)      # tomogram 5 has no particles
        elif mode == "per-tomogram-em-files":
            emfmt.write("c09_m2.em", expand(b2, np.float32))
            emfmt.write("c09_m1.em", expand(b1, np.int8))
            tomo_list, masks = np.array([2.0, 1.0]), ["c09_m2.em", "c09_m1.em"]
        elif mode == "single-mrc-file":
            mrcfmt.write("c09_m.mrc", expand(b1, np.float32))
            tomo_list, masks = [1, 2], "c09_m.mrc"
        elif mode == "single-array-all-zero":
            tomo_list, masks = [1, 2], expand(blocks_of[1], np.float32)
        elif mode == "per-tomogram-arrays-first-all-zero":
            tomo_list, masks = [1, 2], [expand(blocks_of[1], np.int8), expand(b2, np.int8)]
        else:
            raise HarnessError(mode)
        m = obs.lib("Motl.__init__", cm.Motl, make_frame(rows, gapped_index=(ci % 2 == 1)))
        before = df_key(m.df)
        has_neg = any(k.startswith("NEG") for k in kinds)
        has_bey = any(k.startswith("BEY") for k in kinds) or (not per_tomo and "P2b" in kinds) or (per_tomo and "P2c" in kinds)
        list_cls = "with-negative-coordinate" if has_neg else ("with-particle-beyond-volume" if has_bey else "all-inside-volume")
        snap = (_snap(tomo_list), _snap(masks))
        try:
            with quiet():
                res = obs.lib(SITE_MASK, m.clean_by_tomo_mask, tomo_list, masks, inplace=inplace)
            check_args_untouched(obs, SITE_MASK, snap, tomo_list, masks)
        except LibError as le:
            e = le.exc
            obs.fail(SITE_MASK, f"exception:{type(e).__name__}", repr(e), cls=list_cls)
            obs.outcome = ("exc", type(e).__name__)
            return
        if inplace:
            out = m.df
        else:
            original_untouched(obs, SITE_MASK, m, rows, before)
            out = getattr(res, "df", None)
        kept = judge_survivors(obs, SITE_MASK, out, rows)
        if kept is None:
            obs.outcome = ("bad-result",)
            return
        for k, r in zip(kinds, rows):
            tag = r["subtomo_id"]
            t = int(r["tomo_id"])
            v = truth[tag]
            got_kept = tag in kept
            want_kept = v != "zero"
            cls = "with-out-of-volume-particle-in-tomogram" if t in out_of_volume_in else "all-inside-volume"
            if v == "zero":
                clause = "zero-voxel-kept"
            elif v == "one":
                clause = "one-voxel-removed"
            elif v == "outside":
                clause, cls = "outside-volume-removed", ("negative-coordinate" if k.startswith("NEG") else "beyond-upper-face")
            else:
                clause, cls = "unlisted-tomogram-removed", ""
            obs.check(got_kept == want_kept, SITE_MASK, clause,
                      lambda: f"{k} particle {tag} (tomogram {t}, x,y,z {[r['x'], r['y'], r['z']]} + shift "
                              f"{[round(r['shift_x'], 3), round(r['shift_y'], 3), round(r['shift_z'], 3)]}; model: {v}) was "
                              f"{'kept' if got_kept else 'removed'}; masks {mode}", cls)
        obs.outcome = tuple(out["subtomo_id"].tolist())

    return execute


def mask_describe(seed, cfgs):
    shape1 = tuple(3 * v for v in BLOCKS1)
    b1, b2 = mask_blocks(seed)

    def describe(case):
        kinds, ci = case
        mode, inplace = cfgs[ci]
        rows = [mask_row(k, j, seed, shape1) for j, k in enumerate(kinds)]
        return {"kinds": list(kinds), "masks": mode, "inplace": inplace, "mask1_blocks_3x3x3": b1.tolist(), "mask2_blocks_3x3x3": b2.tolist(),
                "particles": [{f: r[f] for f in ("subtomo_id", "tomo_id", "x", "y", "z", "shift_x", "shift_y", "shift_z")} for r in rows]}
    return describe


# ==================================================================================================================


def seq_space(*levels):
    """Union of 'all sequences over alphabet with lmin <= length <= lmax' for each (alphabet, lmin, lmax), shortest first."""
    parts = [sequences(alpha, lmin, lmax) for alpha, lmin, lmax in levels if lmax >= lmin]
    return Union(*parts) if len(parts) > 1 else parts[0]


def families(tier, seed):
    thorough = tier == "thorough"
    fams = []

    # ---- out of bounds ------------------------------------------------------------------------------------------
    # ("center", 8): a box size handed over together with boundary_type="center" (option interaction) - the box must be ignored
    bnds = [("center", None), ("whole", 4), ("whole", 7), ("center", 8)] + ([("whole", 10)] if thorough else [])
    oob_cfgs = [(b, s, form, order) for (b, s) in bnds for (form, order) in OOB_FORMS]
    if thorough:
        seqs = seq_space((OOB_ALL, 1, 3), (OOB_MEDIUM, 4, 4))
        parts = [Product(seqs, oob_cfgs), Product(sequences(OOB_REDUCED, 5, 5), oob_cfgs[0::4])]
    else:
        seqs = seq_space((OOB_ALL, 1, 2), (OOB_MEDIUM, 3, 3))
        parts = [Product(seqs, oob_cfgs), Product(sequences(OOB_REDUCED, 4, 4), oob_cfgs[0::4])]
    fams.append(Family("out-of-bounds", Union(*parts), make_oob_execute(seed), describe=oob_describe(seed),
                       expect=("inside-removed", "lower-face-kept", "upper-face-kept", "wrong-tomogram-dimensions", "shift-ignored",
                               "survivor-altered", "row-duplicated", "row-unknown")))
    single_cfgs = [(b, s, form, ()) for (b, s) in bnds for form in SINGLE_FORMS]
    fams.append(Family("out-of-bounds-single-tomogram-1x3", Product(sequences(OOB_SINGLE, 1, 3 if thorough else 2), single_cfgs),
                       make_oob_execute(seed), describe=oob_describe(seed), expect=(), min_outcomes=1))

    # ---- trimming -----------------------------------------------------------------------------------------------
    boxes = trim_boxes(seed, tier)
    grid = [(a, b, c) for a in TRIM_CODES for b in TRIM_CODES for c in TRIM_CODES]
    grid.sort(key=lambda c3: sum(c != "mid" for c in c3))
    singles = [(bi, (c3,), form) for c3 in grid for bi in range(len(boxes)) for form in ("array", "list")]
    whole = [(bi, tuple(order), "array") for bi in range(len(boxes)) for order in (grid, grid[::-1])]
    kinds_seq = seq_space((list(TRIM_KINDS), 2, 4 if thorough else 3), (TRIM_REDUCED, 5 if thorough else 4, 5 if thorough else 4))
    seqs = Mapped(Product(kinds_seq, list(range(len(boxes)))), lambda c: (c[1], tuple(TRIM_KINDS[k] for k in c[0]), "array" if len(c[0]) % 2 else "list"))
    fams.append(Family("trimming", Union(Listed(singles), seqs, Listed(whole)), make_trim_execute(seed, boxes), describe=trim_describe(boxes),
                       expect=("before-start-kept", "after-end-kept", "start-voxel-removed", "end-voxel-removed", "inside-removed", "offset-value",
                               "survivor-altered", "row-duplicated", "row-unknown")))

    # ---- distance to points -------------------------------------------------------------------------------------
    point_sets = [(), ("A",), ("B",), ("A", "B"), ("C",), ("A", "C"), ("B", "C"), ("A", "B", "C"), ("A", "D"), ("D", "A"), ("D",), ("C", "D", "B", "A")]
    dcfgs = [(ps, r, inpl) for ps in point_sets for r in RADII for inpl in (True, False)]
    every = list(range(len(dcfgs)))
    # one configuration per reference-point set, radius and inplace alternating
    spread = [4 * i + (i % 4) for i in range(len(point_sets))]
    deep = [dcfgs.index((("A", "B", "C"), 1.6, True)), dcfgs.index((("A",), 0.9, False))]
    if thorough:
        dparts = [Product(sequences(DIST_KINDS, 1, 3), every), Product(sequences(DIST_KINDS, 4, 4), spread)]
    else:
        dparts = [Product(sequences(DIST_KINDS, 1, 2), every), Product(sequences(DIST_KINDS, 3, 3), spread), Product(sequences(DIST_REDUCED, 4, 4), deep)]
    fams.append(Family("distance-to-points", Union(*dparts), make_dist_execute(seed, dcfgs), describe=dist_describe(seed, dcfgs),
                       expect=("within-radius-kept", "outside-radius-removed", "shift-ignored", "other-tomogram-point-used", "survivor-altered",
                               "row-duplicated", "row-unknown", "inplace-false-original-changed")))

    fams.append(Family("distance-exactly-radius", Mapped(Product(list(range(len(EXACT_OFFSETS))), ["integer", "half-shift", "all-shift"], [True, False]), lambda c: c + (seed,)),
                       exec_exact_radius, describe=lambda c: {"offset": list(EXACT_OFFSETS[c[0]]), "position_split": c[1], "inplace": c[2]},
                       expect=("within-radius-kept", "outside-radius-removed"), min_outcomes=1))

    # ---- tomogram mask ------------------------------------------------------------------------------------------
    mcfgs = [(mode, inpl) for mode in MASK_MODES for inpl in (True, False)]
    mevery = list(range(len(mcfgs)))
    mspread = [0, 3, 4, 7, 8, 11]  # every mask mode once, inplace alternating
    mdeep = [mcfgs.index(("per-tomogram-arrays", True)), mcfgs.index(("single-array", False))]
    if thorough:
        mparts = [Product(sequences(MASK_ALL, 1, 3), mevery), Product(sequences(MASK_ALL, 4, 4), mspread)]
    else:
        mparts = [Product(sequences(MASK_ALL, 1, 2), mevery), Product(sequences(MASK_ALL, 3, 3), mspread), Product(sequences(MASK_REDUCED, 4, 4), mdeep)]
    fams.append(Family("tomogram-mask", Union(*mparts), make_mask_execute(seed, mcfgs), describe=mask_describe(seed, mcfgs),
                       expect=("zero-voxel-kept", "one-voxel-removed", "outside-volume-removed", "unlisted-tomogram-removed", "survivor-altered",
                               "row-duplicated", "row-unknown", "inplace-false-original-changed")))
    return fams
