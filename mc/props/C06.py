"""C06 — rotation geometry primitives agree with SO(3) ground truth.

Drives cryocat.geom.{angular_distance, cone_distance, inplane_distance, cone_inplane_distance, compare_rotations,
euler_angles_to_normals, normals_to_euler_angles, visualize_angles, visualize_rotations} on a finite rotation set G and
judges every returned number against explicit 3x3 matrices (mc.oracles.so3).
"""
import hashlib

import numpy as np

from ..engine import Family, HarnessError
from ..space import Listed, Product
from ..oracles import so3

RULE = (
    "G = 24 cube rotations (as right-angle zxz triples) + zxz Euler lattice in 45-degree steps + gimbal family "
    "(theta in {0,180}, several phi/psi splits of the same rotation, out-of-range angles) + eps-neighbours "
    "(1e-9, 1e-6, 1e-3 degrees) of identity and of half-turns + seed-dependent generic rotations.  Families: "
    "pairs-batch = ALL ordered pairs of G, one cyclic shift of G per case through the library's batch interface, in 3 "
    "input modes (angle arrays / Rotation objects / Rotation objects with the first quaternion sign-flipped); "
    "pairs-single = all ordered pairs of a core, one library call per pair (1-D angle triple / single Rotation); "
    "triangle = all ordered triples of a core; invariance = all pairs of the core x every Q in cube group + generic "
    "x {left,right} x 2 input modes; normals = every cyclic window of G for every batch size; normals-to-euler = "
    "26 lattice directions + z-axes of G, 3 lengths, both output orders, ndarray/DataFrame, singly and in batches. "
    "Non-trivial = the case contains two different rotations (pair families) / a batch of more than one orientation "
    "or a non-axis direction (normals); distinct = distinct case descriptions."
)
BOUNDS = {
    "quick": "|G|~370 (all ~1.4e5 ordered pairs x 3 modes); core 34 single-call pairs x 2 modes; triangle core 60 "
             "(2.2e5 triples); invariance core 60 x 26 Q x 2 sides x 2 modes; batch sizes 1..12; 44 normal directions (26 lattice + z-axes of G + negative-zero y) "
             "x lengths {0.5,1,3}",
    "thorough": "|G|~1400 (adds the 30-degree lattice and 10 generic; ~2e6 ordered pairs x 3 modes); core 60 single-call "
                "pairs; triangle core 100 (1e6 triples); invariance core 100 x 34 Q; euler-to-normals batch sizes 1..12 at every start, 13..500 at every 23rd start; normals-to-euler batch sizes 1..12, 50, 200, 500",
}
ASSUMPTIONS = [
    "tolerances per DESIGN 2.6: angles from acos judged with 2e-5 degrees, triangle inequality with 1e-4 degrees slack, "
    "unit vectors with 1e-10",
    "c_symmetry = 1, convention zxz, degrees (the statement does not mention symmetry-reduced distances)",
    "in-plane distance is judged only for range [0,180] and for vanishing on equal orientations (all the statement says)",
    "Rotation-object inputs are built with scipy Rotation.from_matrix from the oracle's own matrices (input "
    "construction only; every expected value comes from mc.oracles.so3)",
]
BUDGET_S = {"quick": 300, "thorough": 2400}

TOL = 2e-5        # degrees, DESIGN 2.6
TRI_SLACK = 1e-4  # degrees
UNIT_TOL = 1e-10
EQ_ROT = 1e-9     # oracle angle (degrees) below which two inputs are "equal rotations"


# ------------------------------------------------------------------------------------------------
# the rotation set


def _generic(seed, n):
    fixed = [(12.3, 77.7, -133.1), (201.9, 33.3, 58.2), (-61.4, 121.9, 17.6), (95.2, 8.4, -171.3), (-148.8, 163.2, 99.9),
             (33.3, 66.6, 111.1), (-5.5, 91.7, 179.2), (170.1, 45.9, -44.4), (-100.6, 140.2, -12.8), (64.7, 19.3, 143.0)]
    if seed == 0:
        return fixed[:n]
    rng = np.random.RandomState(60600 + seed)
    out = []
    while len(out) < n:
        t = (round(float(rng.uniform(-180, 180)), 3), round(float(rng.uniform(5, 175)), 3), round(float(rng.uniform(-180, 180)), 3))
        out.append(t)
    return out


def _gimbal():
    return [
        (30.0, 0.0, 0.0), (0.0, 0.0, 30.0), (10.0, 0.0, 20.0), (-170.0, 0.0, 200.0), (360.0, 0.0, 0.0), (0.0, 0.0, -360.0),
        (30.0, 180.0, 0.0), (0.0, 180.0, -30.0), (50.0, 180.0, 20.0), (200.0, 180.0, 170.0), (0.0, 360.0, 0.0), (77.0, 0.0, -77.0),
    ]


def _eps(tier):
    out = []
    for e in (1e-9, 1e-6, 1e-3):
        out += [(e, 0.0, 0.0), (0.0, e, 0.0), (0.0, 0.0, -e)]          # neighbours of the identity
        out += [(180.0 + e, 0.0, 0.0), (0.0, 180.0 - e, 0.0), (90.0, 180.0 - e, -90.0)]  # neighbours of half-turns
    out += [(0.0, 180.0, 0.0), (180.0, 0.0, 0.0), (0.0, 180.0, 180.0)]  # the half-turns about x, z, y themselves
    return out


def rotation_set(tier, seed):
    """-> labels, angles (n,3).  Simplest first; exact duplicates of a triple removed, equal rotations with different
    triples kept on purpose."""
    items = [("cube", t) for t in so3.distinct_right_angle_triples()]
    items += [("gimbal", t) for t in _gimbal()]
    items += [("eps", t) for t in _eps(tier)]
    items += [("generic", t) for t in _generic(seed, 2 if tier == "quick" else 10)]
    items += [("lattice45", t) for t in so3.euler_lattice(45, 45)]
    if tier == "thorough":
        items += [("lattice30", t) for t in so3.euler_lattice(30, 30)]
    seen, labels, ang = set(), [], []
    for lab, t in items:
        t = tuple(float(x) for x in t)
        if t in seen:
            continue
        seen.add(t)
        labels.append(lab)
        ang.append(t)
    return labels, np.array(ang, dtype=float)


def core_set(tier, seed, size):
    """A small core: cube + gimbal + eps + generic + a few odd lattice members, truncated/padded to `size`."""
    labels, G = rotation_set(tier, seed)
    pick = [i for i, l in enumerate(labels) if l == "cube"]
    pick += [i for i, l in enumerate(labels) if l == "generic"][:2]
    pick += [i for i, l in enumerate(labels) if l == "eps"]
    pick += [i for i, l in enumerate(labels) if l == "gimbal"]
    lat = [i for i, l in enumerate(labels) if l == "lattice45" and (G[i] % 90 != 0).any()]
    step = max(1, len(lat) // 40)
    pick += lat[::step]
    pick += [i for i, l in enumerate(labels) if l == "generic"][2:]
    out = []
    for i in pick:
        if i not in out:
            out.append(i)
    if len(out) < size:
        raise HarnessError(f"C06: core of {size} requested, only {len(out)} available")
    out = out[:size]
    return [labels[i] for i in out], G[out]


def q_set(tier, seed):
    """Common rotations for the invariance clause: the 24 cube rotations + generic (seed-dependent)."""
    qs = [np.array(m, dtype=float) for m in so3.cube_group()]
    gen = _generic(seed, 10)
    if seed == 0:
        gen = [(-73.9, 52.1, 164.4), (141.2, 108.6, -27.5)] + gen[2:]
    for t in gen[: (2 if tier == "quick" else 10)]:
        qs.append(so3.zxz(*t))
    return qs


# ------------------------------------------------------------------------------------------------
# inputs


def _srot():
    from scipy.spatial.transform import Rotation as srot  # input construction only

    return srot


def make_input(angles, mats, mode, single=False):
    """What is handed to the library.  `mats` are the oracle's matrices of `angles`."""
    if mode == "angles":
        a = np.array(angles, dtype=float)
        return a[0].copy() if single else a.copy()
    srot = _srot()
    r = srot.from_matrix(mats[0] if single else mats)
    if mode == "rotation-negq":
        r = srot.from_quat(-np.asarray(r.as_quat()))
    back = np.asarray(r.as_matrix()).reshape(-1, 3, 3)
    if np.abs(back - np.asarray(mats).reshape(-1, 3, 3)[: len(back)]).max() > 1e-12:
        raise HarnessError("C06: Rotation.from_matrix did not reproduce the oracle matrix")
    return r


def _digest(*arrs):
    h = hashlib.blake2b(digest_size=8)
    for a in arrs:
        a = np.asarray(a, dtype=float)
        h.update(np.where(np.isfinite(a), np.round(a, 3) + 0.0, -1.0).tobytes())
    return h.hexdigest()


def _pair_class(w):
    if w <= EQ_ROT:
        return "equal-rotations"
    if w < 0.01:
        return "near-equal"
    if w > 179.99:
        return "half-turn"
    return "generic-pair"


def _vec(site, obs, x, n, what):
    """Library result -> float vector of length n, or None after recording a shape violation."""
    try:
        a = np.asarray(x, dtype=float).reshape(-1)
    except Exception:  # noqa: BLE001
        a = None
    ok = a is not None and a.shape == (n,)
    obs.check(ok, site, "result-shape", lambda: f"{what}: expected {n} value(s), got {type(x).__name__} {getattr(a, 'shape', None)}")
    return a if ok else None


def _report(obs, bad, site, clause, want, detail, classes=True):
    """One violation per input class among the failing rows `bad` (bool array)."""
    obs.fire(clause)
    if not bad.any():
        return
    done = set()
    for j in np.flatnonzero(bad):
        c = _pair_class(want[j]) if classes else ""
        if c in done:
            continue
        done.add(c)
        obs.fail(site, clause, detail(int(j)), cls=c)
        if len(done) == 4:
            break


def judge_angular(obs, site, d, want, A, B):
    fin = np.isfinite(d)
    _report(obs, ~fin, site, "angular-finite", want, lambda j: f"pair {A[j].tolist()} / {B[j].tolist()}: returned {d[j]!r}, rotation angle of R1^T R2 = {want[j]:.9g}")
    dd = np.where(fin, d, 0.0)
    _report(obs, fin & ((dd < 0) | (dd > 180.0 + 1e-9)), site, "angular-in-0-180", want,
            lambda j: f"pair {A[j].tolist()} / {B[j].tolist()}: returned {d[j]!r} outside [0,180]; truth {want[j]:.9g}")
    _report(obs, fin & (np.abs(dd - want) > TOL), site, "angular-equals-rotation-angle", want,
            lambda j: f"pair {A[j].tolist()} / {B[j].tolist()}: returned {d[j]!r}, rotation angle of R1^T R2 = {want[j]:.9g}")
    eq = want <= EQ_ROT
    if eq.any():
        _report(obs, eq & fin & (dd > TOL), site, "angular-zero-for-equal", want,
                lambda j: f"equal rotations {A[j].tolist()} / {B[j].tolist()}: returned {d[j]!r}")
    ne = want >= 1e-3 - 1e-12
    if ne.any():
        _report(obs, ne & fin & (dd <= 0.5e-3), site, "angular-nonzero-for-different", want,
                lambda j: f"different rotations {A[j].tolist()} / {B[j].tolist()} (truth {want[j]:.9g}): returned {d[j]!r}")


def judge_cone(obs, site, c, wantc, want, A, B):
    fin = np.isfinite(c)
    cc = np.where(fin, c, 0.0)
    _report(obs, ~fin | (np.abs(cc - wantc) > TOL), site, "cone-equals-zaxis-angle", want,
            lambda j: f"pair {A[j].tolist()} / {B[j].tolist()}: returned {c[j]!r}, angle between z-axes = {wantc[j]:.9g}")


def judge_inplane(obs, site, p, want, same, A, B):
    fin = np.isfinite(p)
    pp = np.where(fin, p, 0.0)
    _report(obs, ~fin | (pp < 0) | (pp > 180.0 + 1e-9), site, "inplane-in-0-180", want,
            lambda j: f"pair {A[j].tolist()} / {B[j].tolist()}: returned {p[j]!r}")
    eq = same | (want <= EQ_ROT)
    if eq.any():
        _report(obs, eq & fin & (pp > TOL), site, "inplane-zero-for-equal", want,
                lambda j: f"equal orientations {A[j].tolist()} / {B[j].tolist()}: returned {p[j]!r}")


def judge_pairs(obs, A, B, MA, MB, mode, single=False, full=True):
    """All pair clauses for rows (A[j], B[j]).  Returns the library's angular distances (or None)."""
    from cryocat import geom

    n = 1 if single else len(A)
    if single:
        A, B, MA, MB = A[:1], B[:1], MA[:1], MB[:1]
    want = so3.rel_angle_batch(MA, MB)
    wantc = so3.vec_angle_deg_batch(MA[:, :, 2], MB[:, :, 2])
    same = np.all(A == B, axis=1)
    a_in = make_input(A, MA, mode, single)
    b_in = make_input(B, MB, "rotation" if mode == "rotation-negq" else mode, single)
    digest = []

    r = obs.lib("angular_distance", geom.angular_distance, a_in, b_in)
    d = None
    if obs.check(isinstance(r, tuple) and len(r) == 2, "angular_distance", "result-shape", lambda: f"expected (angle, dist) tuple, got {type(r).__name__}"):
        d = _vec("angular_distance", obs, r[0], n, "angle")
    if d is not None:
        judge_angular(obs, "angular_distance", d, want, A, B)
        digest.append(d)
        r2 = obs.lib("angular_distance", geom.angular_distance, b_in, a_in)
        d2 = _vec("angular_distance", obs, r2[0], n, "angle (swapped)") if isinstance(r2, tuple) else None
        if d2 is not None:
            both = np.isfinite(d) & np.isfinite(d2)
            _report(obs, both & (np.abs(np.where(both, d - d2, 0.0)) > TOL), "angular_distance", "angular-symmetric", want,
                    lambda j: f"d({A[j].tolist()},{B[j].tolist()}) = {d[j]!r} but swapped = {d2[j]!r}")

    c = p = None
    r = obs.lib("cone_inplane_distance", geom.cone_inplane_distance, a_in, b_in)
    if obs.check(isinstance(r, tuple) and len(r) == 2, "cone_inplane_distance", "result-shape", lambda: f"expected (cone, inplane), got {type(r).__name__}"):
        c = _vec("cone_inplane_distance", obs, r[0], n, "cone")
        p = _vec("cone_inplane_distance", obs, r[1], n, "inplane")
        if c is not None:
            judge_cone(obs, "cone_inplane_distance", c, wantc, want, A, B)
            digest.append(c)
        if p is not None:
            judge_inplane(obs, "cone_inplane_distance", p, want, same, A, B)
            digest.append(p)

    if full:
        # compare_rotations is a dispatcher over the three primitives judged above: it must hand back exactly
        # their values under the documented names (a defect of a primitive is reported at the primitive only)
        ref = {"angular_distance": d, "cone_distance": c, "in_plane_distance": p}
        r = obs.lib("compare_rotations", geom.compare_rotations, a_in, b_in, rotation_type="all")
        if obs.check(isinstance(r, tuple) and len(r) == 3, "compare_rotations", "result-shape", lambda: f"rotation_type='all': expected 3 results, got {type(r).__name__}"):
            for pos, rt in enumerate(("angular_distance", "cone_distance", "in_plane_distance")):
                x = _vec("compare_rotations", obs, r[pos], n, f"all[{pos}]")
                if x is not None and ref[rt] is not None:
                    obs.check(np.allclose(x, ref[rt], rtol=0, atol=1e-12, equal_nan=True), "compare_rotations", "dispatch-all-" + rt,
                              lambda: f"element {pos} of rotation_type='all' differs from geom.{rt if pos == 0 else 'cone_inplane_distance'}: {x[:3].tolist()} vs {ref[rt][:3].tolist()}")
        for rt in ("angular_distance", "cone_distance", "in_plane_distance"):
            r = obs.lib("compare_rotations", geom.compare_rotations, a_in, b_in, rotation_type=rt)
            x = _vec("compare_rotations", obs, r, n, rt)
            if x is not None and ref[rt] is not None:
                obs.check(np.allclose(x, ref[rt], rtol=0, atol=1e-12, equal_nan=True), "compare_rotations", "dispatch-" + rt,
                          lambda: f"rotation_type={rt!r} differs from the primitive: {x[:3].tolist()} vs {ref[rt][:3].tolist()}")
        if mode != "angles":
            r = obs.lib("cone_distance", geom.cone_distance, a_in, b_in)
            x = _vec("cone_distance", obs, r, n, "cone")
            if x is not None:
                judge_cone(obs, "cone_distance", x, wantc, want, A, B)
            r = obs.lib("inplane_distance", geom.inplane_distance, a_in, b_in)
            x = _vec("inplane_distance", obs, r, n, "inplane")
            if x is not None:
                judge_inplane(obs, "inplane_distance", x, want, same, A, B)

    obs.nontrivial = bool((want > EQ_ROT).any())
    obs.outcome = _digest(*digest) if digest else ("no-result",)
    return d


# ------------------------------------------------------------------------------------------------
# families


def _pairs_batch(tier, seed):
    labels, G = rotation_set(tier, seed)
    GM = so3.zxz_batch(G)
    # cross-check of the two independent matrix constructions of the oracle (harness self-test)
    chk = np.stack([so3.zxz(*a) for a in G[:: max(1, len(G) // 50)]])
    if np.abs(chk - GM[:: max(1, len(G) // 50)]).max() > 1e-14:
        raise HarnessError("C06: so3.zxz and so3.zxz_batch disagree")
    n = len(G)
    modes = ["angles", "rotation", "rotation-negq"]

    def execute(case, obs):
        s, mode = case
        B = np.roll(G, -s, axis=0)
        MB = np.roll(GM, -s, axis=0)
        judge_pairs(obs, G, B, GM, MB, mode, full=True)

    def describe(case):
        s, mode = case
        return {"pairs": f"(G[j], G[(j+{s}) mod {n}]) for all j < {n}", "shift": s, "input": mode,
                "first_pair": [G[0].tolist(), G[s % n].tolist()]}

    return Family("pairs-batch", Product(list(range(n)), modes), execute, describe=describe,
                  expect=("angular-finite", "angular-in-0-180", "angular-equals-rotation-angle", "angular-zero-for-equal",
                          "angular-nonzero-for-different", "angular-symmetric", "cone-equals-zaxis-angle",
                          "inplane-in-0-180", "inplane-zero-for-equal", "dispatch-all-angular_distance", "dispatch-all-cone_distance",
                          "dispatch-all-in_plane_distance", "dispatch-angular_distance", "dispatch-cone_distance", "dispatch-in_plane_distance"))


def _pairs_single(tier, seed):
    labels, C = core_set(tier, seed, 34 if tier == "quick" else 60)
    CM = so3.zxz_batch(C)
    n = len(C)

    def execute(case, obs):
        i, j, mode = case
        judge_pairs(obs, C[[i]], C[[j]], CM[[i]], CM[[j]], mode, single=True, full=True)

    def describe(case):
        i, j, mode = case
        return {"angles1": C[i].tolist(), "angles2": C[j].tolist(), "input": mode, "call": "one library call per pair (1-D triple / single Rotation)"}

    return Family("pairs-single", Product(list(range(n)), list(range(n)), ["angles", "rotation"]), execute, describe=describe,
                  expect=("angular-equals-rotation-angle", "angular-zero-for-equal", "angular-symmetric", "cone-equals-zaxis-angle",
                          "inplane-in-0-180", "inplane-zero-for-equal"))


def _triangle(tier, seed):
    labels, C = core_set(tier, seed, 60 if tier == "quick" else 100)
    CM = so3.zxz_batch(C)
    n = len(C)

    def execute(case, obs):
        from cryocat import geom

        a, b = case
        rab = obs.lib("angular_distance", geom.angular_distance, C[a].copy(), C[b].copy())
        A = np.repeat(C[[a]], n, axis=0)
        Bm = np.repeat(C[[b]], n, axis=0)
        rac = obs.lib("angular_distance", geom.angular_distance, A, C.copy())
        rbc = obs.lib("angular_distance", geom.angular_distance, Bm, C.copy())
        dab = _vec("angular_distance", obs, rab[0], 1, "d(a,b)")
        dac = _vec("angular_distance", obs, rac[0], n, "d(a,.)")
        dbc = _vec("angular_distance", obs, rbc[0], n, "d(b,.)")
        if dab is None or dac is None or dbc is None:
            obs.outcome = ("no-result",)
            return
        fin = np.isfinite(dac) & np.isfinite(dbc) & np.isfinite(dab[0])
        obs.check(fin.all(), "angular_distance", "angular-finite", lambda: f"non-finite distance among d({C[a].tolist()},.), d({C[b].tolist()},.)")
        viol = fin & (dac > dab[0] + dbc + TRI_SLACK)
        if viol.any():
            c = int(np.flatnonzero(viol)[0])
            obs.fail("angular_distance", "triangle-inequality",
                     f"a={C[a].tolist()} b={C[b].tolist()} c={C[c].tolist()}: d(a,c)={dac[c]!r} > d(a,b)+d(b,c)={dab[0]!r}+{dbc[c]!r}")
        obs.fire("triangle-inequality")
        obs.transitions += n - 1  # n triples judged
        obs.nontrivial = a != b
        obs.outcome = _digest(dab, dac, dbc)

    def describe(case):
        a, b = case
        return {"a": C[a].tolist(), "b": C[b].tolist(), "c": f"every member of the {n}-element core"}

    return Family("triangle", Product(list(range(n)), list(range(n))), execute, describe=describe, expect=("triangle-inequality",))


def _invariance(tier, seed):
    labels, C = core_set(tier, seed, 60 if tier == "quick" else 100)
    CM = so3.zxz_batch(C)
    n = len(C)
    Q = q_set(tier, seed)

    def moved(M, q, side):
        return np.einsum("ij,njk->nik", q, M) if side == "left" else np.einsum("nij,jk->nik", M, q)

    def execute(case, obs):
        from cryocat import geom

        qi, side, mode, s = case
        q = Q[qi]
        A, MA = C, CM
        B, MB = np.roll(C, -s, axis=0), np.roll(CM, -s, axis=0)
        MA2, MB2 = moved(MA, q, side), moved(MB, q, side)
        if mode == "angles":
            A2 = np.array([so3.mat_to_zxz(m) for m in MA2])
            B2 = np.array([so3.mat_to_zxz(m) for m in MB2])
            MA2x, MB2x = so3.zxz_batch(A2), so3.zxz_batch(B2)
            if max(np.abs(MA2x - MA2).max(), np.abs(MB2x - MB2).max()) > 1e-12:
                raise HarnessError("C06: mat_to_zxz did not reproduce a composed rotation")
            MA2, MB2 = MA2x, MB2x
        else:
            A2 = np.array([so3.mat_to_zxz(m) for m in MA2])  # labels for messages only
            B2 = np.array([so3.mat_to_zxz(m) for m in MB2])
        # the transformed pair is judged against ITS OWN relative rotation ...
        d2 = judge_pairs(obs, A2, B2, MA2, MB2, mode, full=False)
        # ... and against the library's answer for the original pair
        r = obs.lib("angular_distance", geom.angular_distance, make_input(A, MA, mode), make_input(B, MB, mode))
        d1 = _vec("angular_distance", obs, r[0], n, "angle") if isinstance(r, tuple) else None
        clause = "angular-invariant-left" if side == "left" else "angular-invariant-right"
        if d1 is not None and d2 is not None:
            want = so3.rel_angle_batch(MA, MB)
            both = np.isfinite(d1) & np.isfinite(d2)
            _report(obs, both & (np.abs(np.where(both, d1 - d2, 0.0)) > TOL), "angular_distance", clause, want,
                    lambda j: f"d({A[j].tolist()},{B[j].tolist()}) = {d1[j]!r}; after composing both with Q#{qi} on the {side}: {d2[j]!r}")
        obs.nontrivial = qi != 0 and s != 0

    def describe(case):
        qi, side, mode, s = case
        return {"Q": np.round(Q[qi], 12).tolist(), "side": side, "input": mode, "pairs": f"(core[j], core[(j+{s}) mod {n}]) for all j < {n}"}

    return Family("invariance", Product(list(range(len(Q))), ["left", "right"], ["angles", "rotation"], list(range(n))), execute,
                  describe=describe, expect=("angular-invariant-left", "angular-invariant-right", "angular-equals-rotation-angle"))


def _normals(tier, seed):
    labels, G = rotation_set(tier, seed)
    GM = so3.zxz_batch(G)
    n = len(G)
    if tier == "quick":
        cases = [(k, s) for k in range(1, 13) for s in range(n)]
    else:
        cases = [(k, s) for k in range(1, 13) for s in range(n)]
        cases += [(k, s) for k in range(13, 501) for s in range(0, n, 23)]
    cases = [(0, s) for s in range(n)] + cases  # k = 0: a single 1-D triple

    def execute(case, obs):
        from cryocat import geom

        k, s = case
        idx = (s + np.arange(max(k, 1))) % n
        ang = G[idx]
        want = GM[idx][:, :, 2]
        arg = ang[0].copy() if k == 0 else ang.copy()
        m = len(idx)
        cls = "batch=1" if m == 1 else "batch>1"
        v = obs.lib("euler_angles_to_normals", geom.euler_angles_to_normals, arg)
        v = np.asarray(v, dtype=float)
        ok = obs.check(v.shape == (m, 3), "euler_angles_to_normals", "normals-one-per-orientation", lambda: f"{m} orientation(s) in, result shape {v.shape}", cls=cls)
        if ok:
            ln = np.linalg.norm(v, axis=1)
            bad = ~(np.abs(ln - 1.0) <= UNIT_TOL)
            obs.check(not bad.any(), "euler_angles_to_normals", "normals-unit-length",
                      lambda: f"batch of {m}: row {int(np.flatnonzero(bad)[0])} angles {ang[np.flatnonzero(bad)[0]].tolist()} has length {ln[np.flatnonzero(bad)[0]]!r}", cls=cls)
            with np.errstate(invalid="ignore", divide="ignore"):
                u = v / ln[:, None]
            badd = ~(np.abs(u - want).max(axis=1) <= UNIT_TOL)
            obs.check(not badd.any(), "euler_angles_to_normals", "normals-direction-is-R-ez",
                      lambda: f"batch of {m}: row {int(np.flatnonzero(badd)[0])} angles {ang[np.flatnonzero(badd)[0]].tolist()} -> {v[np.flatnonzero(badd)[0]].tolist()}, R e_z = {want[np.flatnonzero(badd)[0]].tolist()}", cls=cls)
        # the mechanism underneath (anchors visualize_angles / visualize_rotations): the image of e_z itself
        w = np.asarray(obs.lib("visualize_angles", geom.visualize_angles, arg, plot_rotations=False), dtype=float)
        obs.check(w.shape == (m, 3) and np.abs(w - want).max() <= UNIT_TOL, "visualize_angles", "zaxis-image",
                  lambda: f"batch of {m}: shape {w.shape}, first row {w.reshape(-1)[:3].tolist()} vs R e_z {want[0].tolist()}", cls=cls)
        # ... in input order whatever the display options are (per-point colour values, here descending)
        w3 = np.asarray(obs.lib("visualize_angles", geom.visualize_angles, arg, plot_rotations=False, color_map=np.arange(m, 0, -1.0)), dtype=float)
        obs.check(w3.shape == (m, 3) and np.abs(w3 - want).max() <= UNIT_TOL, "visualize_angles", "zaxis-image",
                  lambda: f"batch of {m} with per-point colour values: row order / values differ from R e_z in input order", cls=cls + ",colour-values")
        rot = _srot().from_matrix(GM[idx] if k != 0 else GM[idx][0])
        w2 = np.asarray(obs.lib("visualize_rotations", geom.visualize_rotations, rot, plot_rotations=False), dtype=float)
        obs.check(w2.shape == (m, 3) and np.abs(w2 - want).max() <= UNIT_TOL, "visualize_rotations", "zaxis-image",
                  lambda: f"batch of {m}: shape {w2.shape}, first row {w2.reshape(-1)[:3].tolist()} vs R e_z {want[0].tolist()}", cls=cls)
        # the frame axes themselves (what cone / in-plane distances are built from): column j of R, single rotation or batch
        for j, axn in enumerate("xyz"):
            ax = np.asarray(obs.lib("get_axis_from_rotation", geom.get_axis_from_rotation, rot, axn), dtype=float)
            wa = GM[idx][:, :, j] if k != 0 else GM[idx][0][:, j]
            obs.check(ax.shape == wa.shape and np.abs(ax - wa).max() <= UNIT_TOL, "get_axis_from_rotation", "axis-is-column-of-R",
                      lambda: f"axis {axn}, batch of {m}: shape {ax.shape}, first {ax.reshape(-1)[:3].tolist()} vs {wa.reshape(-1)[:3].tolist()}", cls=cls)
        if m > 1:
            w1, w2 = want, np.roll(want, 1, axis=0)
            ang = np.asarray(obs.lib("angle_between_vectors", geom.angle_between_vectors, w1 * 2.5, w2 * 0.5), dtype=float)
            wang = np.degrees(np.arctan2(np.linalg.norm(np.cross(w1, w2), axis=1), np.einsum("ij,ij->i", w1, w2)))
            obs.check(ang.shape == (m,) and np.abs(ang - wang).max() <= 1e-5, "angle_between_vectors", "angle-is-angle-between-directions",
                      lambda: f"batch of {m}: {ang[:4].tolist()} vs {wang[:4].tolist()}", cls=cls)
            # parallel and antiparallel directions of different lengths: exactly 0 / 180 (the cosine may round beyond +-1)
            par = np.asarray(obs.lib("angle_between_vectors", geom.angle_between_vectors, w1 * 3.0, w1 / 7.0), dtype=float)
            anti = np.asarray(obs.lib("angle_between_vectors", geom.angle_between_vectors, w1 * 3.0, -w1 / 7.0), dtype=float)
            obs.check(par.shape == (m,) and bool(np.all(np.abs(par) <= 1e-5)) and anti.shape == (m,) and bool(np.all(np.abs(anti - 180.0) <= 1e-5)),
                      "angle_between_vectors", "angle-is-angle-between-directions", lambda: f"parallel {par[:4].tolist()}, antiparallel {anti[:4].tolist()}", cls=cls + ",parallel")
        obs.nontrivial = m > 1
        obs.outcome = _digest(v)

    def describe(case):
        k, s = case
        idx = (s + np.arange(max(k, 1))) % n
        return {"batch_size": max(k, 1), "input_ndim": 1 if k == 0 else 2, "angles": G[idx][:12].tolist() + (["..."] if len(idx) > 12 else [])}

    return Family("euler-to-normals", Listed(cases), execute, describe=describe,
                  expect=("normals-one-per-orientation", "normals-unit-length", "normals-direction-is-R-ez", "zaxis-image"))


def _normal_class(v):
    x, y, z = v
    if x == 0 and y == 0:
        return "+z" if z > 0 else "-z"
    if y == 0:
        return "ny=0,nx>0" if x > 0 else "ny=0,nx<0"
    if x == 0:
        return "nx=0"
    return "generic-normal"


def direction_set(tier, seed):
    dirs = []
    for d in sorted(((x, y, z) for x in (-1, 0, 1) for y in (-1, 0, 1) for z in (-1, 0, 1) if (x, y, z) != (0, 0, 0)),
                    key=lambda t: (sum(abs(c) for c in t), t)):
        dirs.append(tuple(float(c) for c in d))
    labels, G = rotation_set("quick", seed)
    seen = set(tuple(np.round(np.array(d) / np.linalg.norm(d), 9) + 0.0) for d in dirs)
    for m in so3.zxz_batch(G):
        z = m[:, 2]
        key = tuple(np.round(z, 9) + 0.0)
        if key in seen:
            continue
        seen.add(key)
        dirs.append(tuple(float(c) for c in z))
    # explicit negative zero in y (atan2(-0, x) == 0 as well)
    dirs.append((1.0, -0.0, 0.0))
    dirs.append((2.0, -0.0, 1.0))
    return np.array(dirs, dtype=float)


def _normals_to_euler(tier, seed):
    D = direction_set(tier, seed)
    n = len(D)
    lengths = [0.5, 1.0, 3.0]
    sizes = list(range(1, 13)) if tier == "quick" else list(range(1, 13)) + [50, 200, 500]
    cases = Product(sizes, list(range(n)), [0, 1, 2], ["zxz", "zzx"], ["ndarray", "DataFrame"])

    def build(case):
        k, s, l0, order, kind = case
        idx = (s + np.arange(k)) % n
        ln = np.array([lengths[(l0 + j) % 3] for j in range(k)])
        return idx, D[idx] * ln[:, None]

    def execute(case, obs):
        import pandas as pd
        from cryocat import geom

        k, s, l0, order, kind = case
        idx, N = build(case)
        arg = N.copy() if kind == "ndarray" else pd.DataFrame({"z": N[:, 2], "x": N[:, 0], "y": N[:, 1]})
        out = obs.lib("normals_to_euler_angles", geom.normals_to_euler_angles, arg, output_order=order)
        out = np.asarray(out, dtype=float)
        if not obs.check(out.shape == (k, 3), "normals_to_euler_angles", "angles-one-per-normal", lambda: f"{k} normal(s) in, result shape {out.shape}"):
            obs.outcome = ("bad-shape",)
            return
        ang = out if order == "zxz" else out[:, [0, 2, 1]]   # zzx = (phi, psi, theta)
        obs.check(bool(np.isfinite(ang).all()), "normals_to_euler_angles", "angles-finite", lambda: f"non-finite angle for normals {N.tolist()[:4]}")
        z = so3.zxz_batch(np.where(np.isfinite(ang), ang, 0.0))[:, :, 2]
        want = N / np.linalg.norm(N, axis=1)[:, None]
        bad = ~(np.abs(z - want).max(axis=1) <= UNIT_TOL)
        obs.fire("zaxis-equals-normalised-normal")
        done = set()
        for j in np.flatnonzero(bad):
            c = _normal_class(N[j])
            if c in done:
                continue
            done.add(c)
            obs.fail("normals_to_euler_angles", "zaxis-equals-normalised-normal",
                     f"normal {N[j].tolist()} (row {int(j)} of {k}, {kind}, order {order}) -> angles {out[j].tolist()} whose z-axis is {np.round(z[j], 12).tolist()}, expected {np.round(want[j], 12).tolist()}", cls=c)
        obs.nontrivial = bool(np.any((N[:, 0] != 0) | (N[:, 1] != 0)))
        obs.outcome = _digest(ang[:, 1:], z)   # phi is random by design: not part of the outcome

    def describe(case):
        k, s, l0, order, kind = case
        idx, N = build(case)
        return {"normals": N[:12].tolist() + (["..."] if k > 12 else []), "batch_size": k, "output_order": order, "input": kind}

    return Family("normals-to-euler", cases, execute, describe=describe,
                  expect=("angles-one-per-normal", "angles-finite", "zaxis-equals-normalised-normal"))


def families(tier, seed):
    return [
        _pairs_single(tier, seed),
        _normals(tier, seed),
        _normals_to_euler(tier, seed),
        _pairs_batch(tier, seed),
        _triangle(tier, seed),
        _invariance(tier, seed),
        _layouts(tier, seed),
    ]


def _layouts(tier, seed):
    from ..engine import with_array_layouts
    return with_array_layouts(_pairs_batch(tier, seed), expect=("angular-equals-rotation-angle",))
