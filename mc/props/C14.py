"""C14 — map rotation, placement, windowing and symmetrisation share one active convention.

Anchors: cryomap.rotate, get_start_end_indices / extract_subvolume / crop, place_object, symmetrize_volume and
Motl.get_rotations / Motl.shift_positions (the particle-side twin of the same convention).
"""
import contextlib
import itertools

import numpy as np

from ..engine import Family, HarnessError, h64
from ..space import Listed, Mapped, Product, Union
from ..motlgen import frame
from ..oracles import so3

RULE = (
    "rot90-*: every multiple-of-90 zxz triple (64, covering the 24 cube rotations) x box x every voxel at least one voxel "
    "away from every face, as a single delta and as one volume of unique codes; non-trivial = rotation matrix != identity. "
    "link: Euler lattice (+ generic triples) x off-centre Gaussian blob x box; non-trivial = blob centre moves by > 0.5 voxel. "
    "place-*: asymmetric L-shaped 6^3 template x cube pose x integer complete position (inside / touching / clipped / "
    "outside per axis) x (x, shift) split x colour field x template-form/container; lists of 1..3 overlapping particles in "
    "every order and 20-pose lists; non-trivial = at least one voxel stamped (and for lists: at least one voxel "
    "overwritten by a later particle). window: every integer and half-integer centre in [-3, dim+3] per axis (full product) "
    "x even box; non-trivial = window partly outside. symmetrize: n in 2..12 as int and 'Cn' x volume; non-trivial = "
    "volume not already C_n symmetric.  distinct = distinct case descriptions."
)
BOUNDS = {
    "quick": "boxes 5^3,6^3 (27+64 interior voxels) x 64 triples; lattice 30 deg (12x7x12) + 8 generic x 3 blob offsets x boxes 20,21; "
             "place: 24 poses x 29 positions (inside, touching, clipped, outside per axis and corners) x 3 colours x 3 splits x 3 forms, all 2- and 3-lists over 4 poses x 3 offsets, 24 lists of 20; "
             "windows: volume (5,6,7), 23x25x27 centres x boxes 2,4,6,(2,4,6); symmetrize n=2..12 x {int,'Cn'} x 4 blobs + exact n=2,4 on 5..8^3",
    "thorough": "as quick plus boxes 7^3,8^3 (125+216 interior voxels); lattice 15 deg (24x13x24); place: 64 triples; windows also volume (6,5,4) x boxes (4,2,6),(6,6,2)",
}
ASSUMPTIONS = [
    "right-angle rotations are judged only on output voxels whose source voxel is at least one voxel away from every face (statement)",
    "interpolated rotations: centre of mass within 0.1 voxel, relative L2 <= 0.1 on Gaussian blobs with sigma = 2 fully inside the box (DESIGN 2.6)",
    "place_object: even (6^3) templates whose non-zero voxels are away from the faces, right-angle poses, integer complete positions; no template value within 1e-3 of the 0.1 threshold",
    "window start for half-integer centres is floor(centre - size/2) (DESIGN 3/C14); reported under its own input class",
    "np.empty is an environment answer owned by the harness: symmetrize_volume is run once with zero-filled and once with poison-filled np.empty and must not notice",
    "float64 volumes; symmetry given as int or 'Cn' string",
]
BUDGET_S = {"quick": 400, "thorough": 2400}

TOL_EXACT = 1e-6       # right-angle permutations (relative to max |value|)
TOL_COM = 0.1          # voxels
TOL_L2 = 0.1           # relative
POISON = 3.0e33


# ----------------------------------------------------------------------------------------------
# helpers (independent of cryocat)

def centre(shape):
    return np.array([s // 2 for s in shape], dtype=int)


def is_identity(R):
    return np.allclose(R, np.eye(3), atol=1e-9)


def rint_rot(angles):
    R = so3.zxz(*angles)
    Ri = np.rint(R)
    if not np.allclose(R, Ri, atol=1e-9):
        raise HarnessError(f"{angles} is not a right-angle rotation")
    return Ri.astype(int)


def permuted(vol, R):
    """Reference for right-angle rotations: out[c + R v] = in[c + v].  Returns (expected, judged) where judged marks the
    output voxels whose source voxel exists and is at least one voxel away from every face."""
    shape = vol.shape
    c = centre(shape)
    q = np.stack(np.meshgrid(*[np.arange(s) for s in shape], indexing="ij"), axis=-1).reshape(-1, 3)
    src = (q - c) @ R + c            # row form of R^T (q - c)
    ok = np.all((src >= 1) & (src <= np.array(shape) - 2), axis=1)
    exp = np.zeros(shape)
    judged = np.zeros(shape, dtype=bool)
    qs, ss = q[ok], src[ok]
    exp[qs[:, 0], qs[:, 1], qs[:, 2]] = vol[ss[:, 0], ss[:, 1], ss[:, 2]]
    judged[qs[:, 0], qs[:, 1], qs[:, 2]] = True
    return exp, judged


def blob(shape, pos, sigma):
    g = np.meshgrid(*[np.arange(s, dtype=float) for s in shape], indexing="ij")
    r2 = sum((gi - p) ** 2 for gi, p in zip(g, pos))
    return np.exp(-r2 / (2.0 * sigma * sigma))


def com(vol):
    g = np.meshgrid(*[np.arange(s, dtype=float) for s in vol.shape], indexing="ij")
    t = vol.sum()
    return np.array([(gi * vol).sum() / t for gi in g])


def rel_l2(a, b):
    return float(np.linalg.norm(a - b) / max(np.linalg.norm(b), 1e-300))


def fmt(v, k=3):
    return "(" + ", ".join(f"{float(x):.{k}f}" for x in v) + ")"


def digest(a):
    a = np.asarray(a, dtype=float)
    return h64(np.round(a, 5).tobytes() + repr(a.shape).encode())


@contextlib.contextmanager
def owned_empty(fill):
    """np.empty returns arbitrary memory; inside this block the harness decides what 'arbitrary' is."""
    orig = np.empty

    def empty(shape, dtype=float, *a, **k):
        arr = orig(shape, dtype, *a, **k)
        if arr.dtype.kind in "fc":
            arr.fill(fill)
        return arr

    np.empty = empty
    try:
        yield
    finally:
        np.empty = orig


def motl_of(rows):
    from cryocat import cryomotl

    return cryomotl.Motl(frame(rows))


# ----------------------------------------------------------------------------------------------
# 1. right-angle rotations

def interior_voxels(n):
    return list(itertools.product(range(1, n - 1), repeat=3))


def exec_rot_delta(case, obs):
    from cryocat import cryomap

    angles, n, p = case
    R = rint_rot(angles)
    cls = "even-box" if n % 2 == 0 else "odd-box"
    vol = np.zeros((n, n, n))
    vol[p] = 1.0
    out = obs.lib("rotate", cryomap.rotate, vol, rotation_angles=list(angles))
    obs.nontrivial = not is_identity(R)
    c = centre(vol.shape)
    dest = tuple(int(x) for x in (c + R @ (np.array(p) - c)))
    exp, judged = permuted(vol, R)
    if not (judged[dest] and exp[dest] == 1.0):
        raise HarnessError(f"reference permutation inconsistent for {case}")
    shape_ok = obs.check(getattr(out, "shape", None) == vol.shape, "rotate", "output-shape", f"{getattr(out, 'shape', None)}", cls)
    if not shape_ok:
        obs.outcome = ("bad-shape",)
        return
    where = tuple(int(x) for x in np.unravel_index(np.argmax(np.abs(np.nan_to_num(out))), out.shape))

    def diag():
        alt = tuple(int(x) for x in (c + R.T @ (np.array(p) - c)))
        hint = " (that is c + R^T v: passive/transposed convention)" if where == alt and alt != dest else ""
        return f"delta at {p} (offset {tuple(int(x) for x in np.array(p) - c)}), angles {angles}: expected 1 at {dest}, found {float(out[dest]):.6g}; maximum {float(out[where]):.6g} at {where}{hint}"

    obs.check(abs(out[dest] - 1.0) <= TOL_EXACT, "rotate", "delta-lands-at-Rv", diag, cls)
    rest = judged.copy()
    rest[dest] = False
    obs.check(bool(np.all(np.abs(out[rest]) <= TOL_EXACT)), "rotate", "delta-elsewhere-zero", diag, cls)
    obs.outcome = (n, where, round(float(out[where]), 5))


def exec_rot_codes(case, obs):
    from cryocat import cryomap

    angles, shape, seed = case
    R = rint_rot(angles)
    cls = "even-box" if shape[0] % 2 == 0 else "odd-box"
    vol = (np.arange(np.prod(shape), dtype=float).reshape(shape) * 1.25 + 3.0 + seed) * np.where(np.indices(shape).sum(0) % 2, 1.0, -1.0)
    out = obs.lib("rotate", cryomap.rotate, vol, rotation_angles=list(angles))
    obs.nontrivial = not is_identity(R)
    exp, judged = permuted(vol, R)
    scale = np.abs(vol).max()
    err = np.abs(out - exp)[judged]
    obs.check(bool(np.all(err <= TOL_EXACT * scale)), "rotate", "codes-permuted-exactly",
              lambda: f"angles {angles} box {shape}: {int((err > TOL_EXACT * scale).sum())} of {int(judged.sum())} judged voxels differ, max error {err.max():.4g}", cls)
    # composition: rotating the result by the inverse triple restores the interior of the interior
    inv = (-angles[2] % 360, -angles[1] % 360, -angles[0] % 360)
    back = obs.lib("rotate", cryomap.rotate, out, rotation_angles=list(inv))
    # only voxels whose whole two-step history stayed among judged voxels: the source (in `out`) of q is away from the
    # faces AND was itself a judged voxel of the first rotation
    srcmask, _ = permuted(judged.astype(float), rint_rot(inv))
    j = srcmask > 0.5
    if j.any():
        obs.check(bool(np.all(np.abs(back - vol)[j] <= TOL_EXACT * scale)), "rotate", "right-angle-inverse-restores",
                  lambda: f"angles {angles} then {inv}: max error {np.abs(back - vol)[j].max():.4g}", cls)
    obs.outcome = digest(out)


# ----------------------------------------------------------------------------------------------
# 2. convention link with Motl.get_rotations / shift_positions, inverse restores

GENERIC0 = [(17.3, 48.9, 211.4), (291.2, 133.7, 5.5), (103.6, 12.2, 77.7), (-64.4, 95.1, -140.9),
            (200.1, 171.3, 33.3), (45.0, 45.0, 45.0), (359.5, 0.5, 0.7), (10.0, 179.2, 250.0)]
OFFSETS0 = [(2.0, 1.0, -1.5), (-1.0, 2.5, 1.0), (0.5, -1.5, 2.4)]
SIGMA = 2.0


def generic_triples(seed):
    if seed == 0:
        return list(GENERIC0)
    rs = np.random.RandomState(1400 + seed)
    return [(round(float(rs.uniform(-360, 360)), 2), round(float(rs.uniform(0.5, 179.5)), 2), round(float(rs.uniform(-360, 360)), 2)) for _ in range(8)]


def blob_offsets(seed, half):
    """3 off-centre offsets with |v| + 3 sigma <= N/2 - 1 (proved here)."""
    offs = [np.array(o) for o in OFFSETS0]
    if seed:
        rs = np.random.RandomState(1450 + seed)
        offs = [o + rs.uniform(-0.2, 0.2, 3) for o in offs]
    out = []
    for o in offs:
        lim = half - 1 - 3 * SIGMA
        if np.linalg.norm(o) > lim:
            o = o * (lim / np.linalg.norm(o)) * 0.999
        if not (np.linalg.norm(o) + 3 * SIGMA <= half - 1 and np.linalg.norm(o) > 1.5):
            raise HarnessError(f"blob offset {o} violates containment precondition")
        out.append(tuple(round(float(x), 4) for x in o))
    return out


def exec_link(case, obs):
    from cryocat import cryomap

    angles, v, n = case
    v = np.array(v, dtype=float)
    shape = (n, n, n)
    c = centre(shape).astype(float)
    R = so3.zxz(*angles)
    vol = blob(shape, c + v, SIGMA)
    obs.nontrivial = bool(np.linalg.norm(R @ v - v) > 0.5)
    cls = "even-box" if n % 2 == 0 else "odd-box"
    # particle side
    m = obs.lib("Motl.__init__", motl_of, [{"phi": angles[0], "theta": angles[1], "psi": angles[2], "x": 30.0, "y": 31.0, "z": 32.0, "subtomo_id": 1.0, "tomo_id": 1.0}])
    rots = obs.lib("Motl.get_rotations", m.get_rotations)
    Rm = np.asarray(rots.as_matrix()).reshape(-1, 3, 3)[0]
    obs.check(bool(np.allclose(Rm, R, atol=1e-9)), "Motl.get_rotations", "motl-rotation-is-active-zxz",
              lambda: f"angles {angles}: get_rotations matrix differs from Rz(psi)Rx(theta)Rz(phi) by {np.abs(Rm - R).max():.3g}")
    m2 = obs.lib("Motl.shift_positions", m.shift_positions, list(v), inplace=False)
    sh = m2.df.loc[0, ["shift_x", "shift_y", "shift_z"]].to_numpy(dtype=float)
    obs.check(bool(np.allclose(sh, R @ v, atol=1e-9)), "Motl.shift_positions", "shift-is-R-times-offset",
              lambda: f"angles {angles} offset {fmt(v)}: shift {fmt(sh, 6)}, R v = {fmt(R @ v, 6)}")
    # map side
    out = obs.lib("rotate", cryomap.rotate, vol, rotation_angles=list(angles))
    got = com(out) - c

    def d(ref, name):
        return lambda: (f"angles {angles}, blob offset {fmt(v)}, box {n}: centre of mass offset {fmt(got)}, {name} = {fmt(ref)}"
                        f" (R^T v = {fmt(R.T @ v)})")

    obs.check(float(np.linalg.norm(got - R @ v)) <= TOL_COM, "rotate", "density-moves-to-Rv", d(R @ v, "R v"), cls)
    obs.check(float(np.linalg.norm(got - Rm @ v)) <= TOL_COM, "rotate", "map-rotation-matches-motl-rotation", d(Rm @ v, "get_rotations() v"), cls)
    obs.check(float(np.linalg.norm(got - sh)) <= TOL_COM, "rotate", "map-rotation-matches-shift-positions", d(sh, "shift_positions(v)"), cls)
    mass = float(out.sum() / vol.sum())
    obs.check(abs(mass - 1.0) <= 0.02, "rotate", "contained-blob-mass-kept", lambda: f"sum ratio {mass:.5f}", cls)
    # inverse restores
    inv = (-angles[2], -angles[1], -angles[0])
    back = obs.lib("rotate", cryomap.rotate, out, rotation_angles=list(inv))
    e = rel_l2(back, vol)
    obs.check(e <= TOL_L2, "rotate", "inverse-restores", lambda: f"angles {angles} then {inv}: relative L2 error {e:.4f}", cls)
    obs.outcome = tuple(np.round(got, 2))


# ----------------------------------------------------------------------------------------------
# 3. place_object

def template_L(variant=0):
    """Asymmetric L-shaped 6^3 template, all non-zero voxels at indices 1..4 (away from the faces)."""
    t = np.zeros((6, 6, 6))
    if variant == 0:
        t[1:5, 2, 2] = 1.0          # long arm along x
        t[1, 3:5, 2] = 1.0          # short arm along y
        t[1, 2, 3] = 7.0            # spur along z, not unit valued: thresholding must binarise it
        t[4, 2, 3] = 0.3            # above the 0.1 threshold
        t[3, 3, 3] = 0.05           # below the threshold: never stamped
        t[2, 4, 4] = -1.0           # negative: never stamped
    else:
        t[2, 1:5, 3] = 1.0
        t[3:5, 1, 3] = 2.5
        t[2, 1, 1:3] = 1.0
        t[4, 4, 4] = 0.09
    return t


COLOUR_FIELDS = ["object_id", "class", "geom1"]
SPLITS = [(0.0, 0.0, 0.0), (2.0, -3.25, 0.5), (-1.75, 4.0, -0.5)]
FORMS = ["single+shape", "list+shape", "single+volume"]
CONTAINER = (9, 10, 11)


def cube_triples():
    """24 right-angle triples with pairwise distinct matrices (first representative of each), identity first."""
    seen, out = [], []
    for t in so3.right_angle_triples():
        R = rint_rot(t)
        if not any(np.array_equal(R, s) for s in seen):
            seen.append(R)
            out.append(t)
    if len(out) != 24:
        raise HarnessError("cube triples != 24")
    return out


def positions(dim):
    """0-based integer centres; per axis: outside-low, clipped-low, touching-low, inside, touching-high, clipped-high, outside-high."""
    per = [[-4, -1, 3, 4, d - 3, d - 2, d + 4] for d in dim]
    base = [4, 5, 5]
    pos = [tuple(base)]
    for ax in range(3):
        for val in per[ax]:
            p = list(base)
            p[ax] = val
            if tuple(p) not in pos:
                pos.append(tuple(p))
    extra = [(-1, -1, -1), (dim[0] - 2, dim[1] - 2, dim[2] - 2), (-1, dim[1] - 2, 3), (3, 3, 3), (dim[0] - 3, dim[1] - 3, dim[2] - 3),
             (-4, 5, dim[2] + 4), (-4, -4, -4), (1, dim[1] - 1, 0)]
    for p in extra:
        if p not in pos:
            pos.append(p)
    return pos


def particle_row(k, angles, pos0, split, seed):
    """pos0: 0-based integer complete position; the table carries the 1-based position split into (x, shift)."""
    r = {"phi": float(angles[0]), "theta": float(angles[1]), "psi": float(angles[2]), "subtomo_id": float(k + 1), "tomo_id": 1.0,
         "object_id": float(11 + k + seed), "class": float(21 + 2 * k + seed), "geom1": 3.5 + k + 0.25 * seed, "score": 0.5}
    for ax, name in enumerate("xyz"):
        r[name] = float(pos0[ax] + 1) - split[ax]
        r["shift_" + name] = float(split[ax])
    return r


def stamp_model(container, templates, rows, field, rot=lambda R: R, one_based=True, use_shift=True, colour=None):
    """Independent stamping routine: for every particle in list order, every template voxel above the threshold is carried
    by the active rotation about the template centre floor(N/2) to (complete position - 1) + R (u - centre)."""
    out = container.copy()
    dims = np.array(out.shape)
    for k, r in enumerate(rows):
        t = templates[k] if isinstance(templates, list) else templates
        n = t.shape[0]
        c = n // 2
        R = rot(rint_rot((r["phi"], r["theta"], r["psi"])))
        p0 = np.array([r[a] + (r["shift_" + a] if use_shift else 0.0) - (1.0 if one_based else 0.0) for a in "xyz"])
        if not np.all(p0 == np.rint(p0)):
            raise HarnessError("complete position is not an integer")
        p0 = p0.astype(int)
        col = r[field] if colour is None else colour(k, r)
        for u in np.argwhere(t > 0.1):
            w = R @ (u - c)
            if np.any(w + c < 0) or np.any(w + c >= n):
                continue
            q = p0 + w
            if np.all(q >= 0) and np.all(q < dims):
                out[tuple(q)] = col
    return out


def judge_place(obs, got, container, templates, rows, field, cls):
    want = stamp_model(container, templates, rows, field)
    ok_shape = obs.check(getattr(got, "shape", None) == want.shape, "place_object", "container-shape", f"{getattr(got, 'shape', None)} vs {want.shape}", cls)
    if not ok_shape:
        return want

    def diag():
        alts = {
            "the passive (transposed) rotation": dict(rot=lambda R: R.T),
            "no 1-based to 0-based conversion": dict(one_based=False),
            "shifts ignored": dict(use_shift=False),
            "the row index as colour": dict(colour=lambda k, r: float(k)),
            "passive rotation and row index as colour": dict(rot=lambda R: R.T, colour=lambda k, r: float(k)),
        }
        hint = ""
        for name, kw in alts.items():
            try:
                if np.array_equal(stamp_model(container, templates, rows, field, **kw), got):
                    hint = f"; the result equals stamping with {name}"
                    break
            except HarnessError:
                pass
        bad = np.argwhere(got != want)
        b0 = tuple(int(x) for x in bad[0])
        return (f"{len(bad)} voxels differ, first {b0}: got {float(got[b0])!r} want {float(want[b0])!r}; "
                f"rows {[(r['phi'], r['theta'], r['psi'], r['x'] + r['shift_x'], r['y'] + r['shift_y'], r['z'] + r['shift_z'], r[field]) for r in rows][:4]}{hint}")

    changed_w = want != container
    changed_g = got != container
    obs.check(bool(np.array_equal(changed_w, changed_g)), "place_object", "stamped-voxel-set", diag, cls)
    both = changed_w & changed_g
    obs.check(bool(np.array_equal(got[both], want[both])), "place_object", "stamp-colour", diag, cls)
    keep = ~changed_w & ~changed_g
    obs.check(bool(np.array_equal(got[keep], container[keep])), "place_object", "background-kept", diag, cls)
    return want


def call_place(obs, templates, rows, field, form, container_shape, seed):
    from cryocat import cryomap

    m = obs.lib("Motl.__init__", motl_of, rows)
    if form.endswith("+volume"):
        container = np.arange(np.prod(container_shape), dtype=float).reshape(container_shape) * 0.5 + 1000.0 + seed
        got = obs.lib("place_object", cryomap.place_object, templates, m, volume=container.copy(), feature_to_color=field)
    else:
        container = np.zeros(container_shape)
        got = obs.lib("place_object", cryomap.place_object, templates, m, volume_shape=container_shape, feature_to_color=field)
    return container, got


def pos_class(pos0, dim):
    k = []
    for p, d in zip(pos0, dim):
        lo, hi = p - 3, p + 3
        if hi <= 0 or lo >= d:
            k.append("out")
        elif lo < 0 or hi > d:
            k.append("clip")
        else:
            k.append("in")
    return "outside" if "out" in k else ("clipped" if "clip" in k else "inside")


def exec_place_one(case, obs):
    angles, pos0, field, split, form, seed = case
    rows = [particle_row(0, angles, pos0, split, seed)]
    t = template_L(0)
    templates = [t] if form.startswith("list") else t
    container, got = call_place(obs, templates, rows, field, form, CONTAINER, seed)
    cls = pos_class(pos0, CONTAINER)
    want = judge_place(obs, got, container, templates, rows, field, cls)
    obs.nontrivial = bool((want != container).any())
    obs.outcome = digest(got)


def template_grey(n, variant):
    """Smooth grey-valued density (two anisotropic Gaussian lobes, values in (0, 1)), decayed below 0.01 at the faces."""
    g = np.stack(np.meshgrid(*[np.arange(n, dtype=float)] * 3, indexing="ij"), axis=-1) - n // 2
    a = np.exp(-((g[..., 0] / 2.2) ** 2 + (g[..., 1] / 1.1) ** 2 + (g[..., 2] / 1.4) ** 2))
    c2 = np.array([1.5, -1.0, 1.0]) if variant == 0 else np.array([-1.0, 1.5, -1.5])
    b = 0.6 * np.exp(-(((g - c2) ** 2).sum(axis=-1)) / 1.2)
    return np.clip(a + b, 0.0, 1.0)


def exec_place_grey(case, obs):
    """A grey-valued template at a generic orientation: the stamp is the ROTATED density thresholded (not the thresholded
    template rotated).  The rotated density comes from cryomap.rotate with the particle's own angles (the convention link is
    the subject of family link-motl-map); voxels whose rotated value is within 0.02 of the threshold are not judged."""
    from cryocat import cryomap

    n, variant, angles, form, seed = case
    field = "geom1"
    dim = (2 * n, 2 * n + 1, 2 * n + 2)
    pos0 = (n, n, n + 1)
    rows = [particle_row(0, angles, pos0, SPLITS[(variant + n) % 3], seed)]
    t = template_grey(n, variant)
    templates = [t.copy()] if form.startswith("list") else t.copy()
    container, got = call_place(obs, templates, rows, field, form, dim, seed)
    rot = np.asarray(obs.lib("cryomap.rotate", cryomap.rotate, t.copy(), rotation_angles=list(angles)), dtype=float)
    lo = tuple(p - n // 2 for p in pos0)
    sl = tuple(slice(a, a + n) for a in lo)
    region = np.asarray(got)[sl]
    stamped = region != container[sl]
    must = rot > 0.12
    mustnot = rot < 0.08
    obs.nontrivial = bool(must.any() and (mustnot & (t > 0.1)).any() or must.any())
    obs.check(bool(stamped[must].all()), "place_object", "stamped-voxel-set",
              lambda: f"grey template {n}^3 angles {angles}: {int((~stamped[must]).sum())} voxels with rotated density > 0.12 were not stamped", "grey-template")
    obs.check(not bool(stamped[mustnot].any()), "place_object", "stamped-voxel-set",
              lambda: f"grey template {n}^3 angles {angles}: {int(stamped[mustnot].sum())} voxels stamped where the rotated density is below 0.08 (max {float(rot[mustnot & stamped].max()):.3f})", "grey-template")
    outside = np.ones(dim, dtype=bool)
    outside[sl] = False
    obs.check(bool(np.array_equal(np.asarray(got)[outside], container[outside])), "place_object", "background-kept", "voxels outside the template box changed", "grey-template")
    vals = np.unique(region[stamped])
    obs.check(len(vals) <= 1 and (len(vals) == 0 or vals[0] == rows[0][field]), "place_object", "stamp-colour", lambda: f"stamped values {vals[:4]} vs {rows[0][field]}", "grey-template")
    obs.outcome = (int(stamped.sum()), digest(got))


OVERLAP_OFFSETS = [(0, 0, 0), (1, 0, 0), (0, -1, 1)]


def exec_place_list(case, obs):
    poses, offs, field, form, seed = case
    base = (4, 5, 5)
    rows = []
    for k, (a, o) in enumerate(zip(poses, offs)):
        rows.append(particle_row(k, a, tuple(b + x for b, x in zip(base, o)), SPLITS[k % 3], seed))
    if form.startswith("list"):
        templates = [template_L(k % 2) for k in range(len(rows))]
    else:
        templates = template_L(0)
    container, got = call_place(obs, templates, rows, field, form, CONTAINER, seed)
    want = judge_place(obs, got, container, templates, rows, field, f"{len(rows)}-particles")
    # vacuity: a later particle overwrites a voxel of an earlier one
    first = stamp_model(container, templates if not isinstance(templates, list) else templates[:1], rows[:1], field)
    obs.nontrivial = bool(((first != container) & (want != first)).any())
    if obs.nontrivial:
        obs.fire("later-overwrites-earlier")
    obs.outcome = digest(got)


def exec_place_many(case, obs):
    start, field, form, seed = case
    cube = cube_triples()
    dim = (16, 17, 18)
    rows = []
    for k in range(20):
        a = cube[(start + 5 * k) % 24]
        gx, gy, gz = k % 3, (k // 3) % 3, k // 9
        pos0 = (2 + 5 * gx + (k % 2), 3 + 4 * gy, 1 + 7 * gz + (k % 4))
        rows.append(particle_row(k, a, pos0, SPLITS[k % 3], seed))
    templates = [template_L((k // 2) % 2) for k in range(20)] if form.startswith("list") else template_L(0)
    container, got = call_place(obs, templates, rows, field, form, dim, seed)
    want = judge_place(obs, got, container, templates, rows, field, "20-particles")
    obs.nontrivial = bool((want != container).any())
    obs.outcome = digest(got)


# ----------------------------------------------------------------------------------------------
# 4. extract_subvolume (and crop on windows fully inside)

def window_model(vol, cen, box):
    """window voxel i <-> volume voxel floor(c - s/2) + i; outside -> volume mean."""
    out = np.full(box, vol.mean())
    start = [int(np.floor(c - s / 2.0)) for c, s in zip(cen, box)]
    inside = 0
    for i in itertools.product(*[range(s) for s in box]):
        q = tuple(a + b for a, b in zip(start, i))
        if all(0 <= x < d for x, d in zip(q, vol.shape)):
            out[i] = vol[q]
            inside += 1
    return out, inside, start


def exec_window(case, obs):
    from cryocat import cryomap

    vshape, cen, box, seed = case
    vol = np.arange(np.prod(vshape), dtype=float).reshape(vshape) * 1.5 + 7.0 + seed
    vol[0, 0, 0] = -300.25   # mean is not a voxel code
    half_int = any(float(c) != np.floor(c) for c in cen)
    want, inside, start = window_model(vol, cen, box)
    total = int(np.prod(box))
    kind = "inside" if inside == total else ("outside" if inside == 0 else "partial")
    cls = ("half-integer-centre" if half_int else "integer-centre") + "/" + kind
    got = obs.lib("extract_subvolume", cryomap.extract_subvolume, vol, np.array(cen, dtype=float), tuple(box))
    obs.nontrivial = kind == "partial"
    if not obs.check(getattr(got, "shape", None) == tuple(box), "extract_subvolume", "window-shape", f"{getattr(got, 'shape', None)} vs {box}", cls):
        obs.outcome = ("bad-shape",)
        return
    is_in = np.zeros(box, dtype=bool)
    for i in itertools.product(*[range(s) for s in box]):
        q = tuple(a + b for a, b in zip(start, i))
        is_in[i] = all(0 <= x < d for x, d in zip(q, vol.shape))

    def diag():
        bad = np.argwhere(got != want)
        b = tuple(int(x) for x in bad[0])
        return (f"volume {vshape} centre {cen} box {box}: window voxel {b} = {float(got[b])!r}, expected {float(want[b])!r} "
                f"(volume voxel {tuple(s + i for s, i in zip(start, b))}, volume mean {float(vol.mean())!r}); {len(bad)} voxels differ")

    if is_in.any():
        obs.check(bool(np.array_equal(got[is_in], want[is_in])), "extract_subvolume", "window-voxels", diag, cls)
    if (~is_in).any():
        obs.check(bool(np.allclose(got[~is_in], vol.mean(), rtol=1e-12, atol=0)), "extract_subvolume", "outside-is-volume-mean", diag, cls)
    if (~is_in).any():
        # Non-initial state: the caller normalises the SAME array in place and extracts again (a processing loop does
        # exactly this).  The fill value must be the mean of the volume as it is now.
        keep_in = got[is_in].copy()
        vol -= 1000.0
        vol *= 0.5
        got2 = obs.lib("extract_subvolume", cryomap.extract_subvolume, vol, np.array(cen, dtype=float), tuple(box))
        ok2 = getattr(got2, "shape", None) == tuple(box) and bool(np.allclose(got2[~is_in], vol.mean(), rtol=1e-12, atol=1e-12))
        obs.check(ok2, "extract_subvolume", "outside-is-current-volume-mean",
                  lambda: f"after the caller edited the volume in place: outside voxels {np.unique(np.asarray(got2)[~is_in])[:3].tolist()}, volume mean {float(vol.mean())!r}", cls)
        if ok2 and is_in.any():
            obs.check(bool(np.allclose(got2[is_in], (keep_in - 1000.0) * 0.5, rtol=0, atol=1e-9)), "extract_subvolume", "window-voxels-after-edit",
                      "window voxels do not follow the in-place edit of the volume", cls)
        vol *= 2.0
        vol += 1000.0
    # enforce_shape: the result keeps the volume's own shape - the window's voxels at their own place, the volume mean elsewhere
    ge = obs.lib("extract_subvolume", cryomap.extract_subvolume, vol, np.array(cen, dtype=float), tuple(box), enforce_shape=True)
    if obs.check(getattr(ge, "shape", None) == tuple(vshape), "extract_subvolume", "enforce-shape-is-volume-shape", f"{getattr(ge, 'shape', None)} vs {vshape}", cls):
        in_win = np.ones(vshape, dtype=bool)
        for ax in range(3):
            idx = np.arange(vshape[ax])
            sel = (idx >= start[ax]) & (idx < start[ax] + box[ax])
            in_win &= sel.reshape([-1 if a == ax else 1 for a in range(3)])
        obs.check(bool(np.array_equal(ge[in_win], vol[in_win])), "extract_subvolume", "enforce-shape-window-voxels-kept",
                  lambda: f"volume {vshape} centre {cen} box {box}: {int((ge[in_win] != vol[in_win]).sum())} window voxels differ from the volume", cls)
        obs.check(bool(np.allclose(ge[~in_win], vol.mean(), rtol=1e-12, atol=0)) if (~in_win).any() else True, "extract_subvolume",
                  "enforce-shape-elsewhere-is-volume-mean", lambda: f"volume {vshape} centre {cen} box {box}: values outside the window {np.unique(ge[~in_win])[:3].tolist()}, mean {float(vol.mean())!r}", cls)
    if kind == "inside":
        # padding back: the window sits in the middle of the new box (equal margins up to one voxel), the rest is the fill
        for fill in (None, -2.5):
            pd_ = obs.lib("pad", cryomap.pad, want.copy(), tuple(vshape), fill)
            okp = getattr(pd_, "shape", None) == tuple(vshape)
            if okp:
                fv = want.mean() if fill is None else fill
                found = False
                for off in itertools.product(*[sorted({(m - n) // 2, -((n - m) // 2)}) for m, n in zip(vshape, box)]):
                    sl = tuple(slice(o, o + n) for o, n in zip(off, box))
                    rest = np.ones(vshape, dtype=bool)
                    rest[sl] = False
                    if np.array_equal(pd_[sl], want) and (not rest.any() or np.allclose(pd_[rest], fv, rtol=1e-12, atol=0)):
                        found = True
                okp = found
            obs.check(okp, "pad", "pad-centres-volume-in-fill", lambda: f"window {box} padded to {vshape} with fill {fill}: not the window centred (margins equal up to one voxel) in a box of the fill value", cls)
        cr = obs.lib("crop", cryomap.crop, vol, tuple(box), None, tuple(cen))
        obs.check(getattr(cr, "shape", None) == tuple(box) and bool(np.array_equal(cr, want)), "crop", "crop-equals-window",
                  lambda: f"volume {vshape} centre {cen} box {box}: crop returns shape {getattr(cr, 'shape', None)}", cls)
    obs.outcome = digest(got)


def centres(dim):
    return [x / 2.0 for x in range(-6, 2 * (dim + 3) + 1)]


def exec_rot_nosource(case, obs):
    """Rotation moves density, it does not create any: an output voxel whose pre-image lies well outside the box (under
    the rotation AND under its inverse, so the clause does not depend on the convention) has no source and stays 0,
    also when the map is non-zero right up to its faces; deep inside a constant map stays that constant."""
    from cryocat import cryomap

    shape, angles, kind, seed = case
    R = so3.zxz(*angles)
    c = np.array([s // 2 for s in shape], dtype=float)
    if kind == "constant":
        vol = np.full(shape, 1.0 + 0.25 * seed)
    else:   # bright slabs on all six faces, dark inside
        vol = np.zeros(shape)
        for ax in range(3):
            sl = [slice(None)] * 3
            for face in (0, -1):
                sl[ax] = face
                vol[tuple(sl)] = 2.0 + seed
    got = np.asarray(obs.lib("cryomap.rotate", cryomap.rotate, vol.copy(), rotation_angles=list(angles)), dtype=float)
    if not obs.check(got.shape == tuple(shape), "cryomap.rotate", "rotate-shape", f"{got.shape} vs {shape}"):
        return
    idx = np.stack(np.meshgrid(*[np.arange(s) for s in shape], indexing="ij"), axis=-1).reshape(-1, 3).astype(float)
    hi = np.array(shape, dtype=float) - 1.0
    def outside_by(P, m):
        return np.any((P < -m) | (P > hi + m), axis=1)
    def inside_by(P, m):
        return np.all((P >= m) & (P <= hi - m), axis=1)
    pa = (idx - c) @ R + c        # R^T (w - c) + c
    pb = (idx - c) @ R.T + c      # R (w - c) + c
    nosrc = (outside_by(pa, 2.0) & outside_by(pb, 2.0)).reshape(shape)
    obs.nontrivial = bool(nosrc.any())
    if nosrc.any():
        worst = float(np.abs(got[nosrc]).max())
        obs.check(worst <= 1e-9, "cryomap.rotate", "no-density-without-source",
                  lambda: f"shape {shape} angles {angles} ({kind} map): {int((np.abs(got[nosrc]) > 1e-9).sum())} of {int(nosrc.sum())} voxels whose pre-image is more than 2 voxels outside the box hold up to {worst:.4f}",
                  "map-nonzero-at-faces")
    if kind == "constant":
        deep = (inside_by(pa, 4.0) & inside_by(pb, 4.0)).reshape(shape)
        if deep.any():
            dev = float(np.abs(got[deep] - vol.flat[0]).max())
            obs.check(dev <= 1e-6, "cryomap.rotate", "constant-stays-constant-inside", lambda: f"shape {shape} angles {angles}: deviation {dev:.3e} deep inside a constant map", "")
    obs.outcome = (int(nosrc.sum()), h64(np.round(got, 6).tobytes()))


# ----------------------------------------------------------------------------------------------
# 5. symmetrize_volume

def sym_reference_exact(vol, n):
    """Mean of the n right-angle rotated copies (n in {2,4}) on voxels whose every source is away from the faces."""
    acc = np.zeros(vol.shape)
    judged = np.ones(vol.shape, dtype=bool)
    for k in range(n):
        e, j = permuted(vol, rint_rot((0, 0, (360 // n) * k)))
        acc += e
        judged &= j
    return acc / n, judged


def run_sym(obs, vol, sym):
    from cryocat import cryomap

    with owned_empty(0.0):
        clean = obs.lib("symmetrize_volume", cryomap.symmetrize_volume, vol.copy(), sym)
    with owned_empty(POISON):
        dirty = obs.lib("symmetrize_volume", cryomap.symmetrize_volume, vol.copy(), sym)
    clean = np.asarray(clean, dtype=float)
    dirty = np.asarray(dirty, dtype=float)
    same = clean.shape == dirty.shape and bool(np.allclose(clean, dirty, rtol=1e-9, atol=1e-9 * max(1.0, np.abs(vol).max()), equal_nan=False))
    obs.check(same, "symmetrize_volume", "independent-of-uninitialised-memory",
              lambda: (f"symmetry {sym!r}: the result depends on the contents np.empty happens to return: with zero-filled np.empty max |value| "
                       f"{np.abs(clean).max():.4g}, with {POISON:g}-filled np.empty max |value| {np.nanmax(np.abs(dirty)):.4g}"))
    return clean


def exec_sym_blob(case, obs):
    from cryocat import cryomap

    n, as_str, box, v = case
    sym = f"C{n}" if as_str else n
    shape = (box, box, box)
    c = centre(shape).astype(float)
    vol = blob(shape, c + np.array(v), SIGMA) + 0.5 * blob(shape, c + np.array([-v[1], v[0] * 0.5, -v[2]]), SIGMA)
    out = run_sym(obs, vol, sym)
    step = 360.0 / n
    if not obs.check(out.shape == vol.shape, "symmetrize_volume", "output-shape", f"{out.shape}"):
        obs.outcome = ("bad-shape",)
        return
    with owned_empty(0.0):
        copies = [obs.lib("rotate", cryomap.rotate, vol, rotation_angles=[0, 0, k * step]) for k in range(n)]
    ref = np.mean(copies, axis=0)
    obs.nontrivial = rel_l2(ref, vol) > 0.05
    e = rel_l2(out, ref)
    obs.check(e <= 1e-6, "symmetrize_volume", "equals-mean-of-n-rotated-copies",
              lambda: f"symmetry {sym!r} box {box}: relative L2 distance to mean of rotate(vol, [0,0,k*{step:.6g}]), k=0..{n - 1}, is {e:.4g}; distance to the input itself {rel_l2(out, vol):.4g}")
    with owned_empty(0.0):
        again = obs.lib("rotate", cryomap.rotate, out, rotation_angles=[0, 0, step])
    e2 = rel_l2(again, out)
    obs.check(e2 <= TOL_L2, "symmetrize_volume", "invariant-under-360/n",
              lambda: f"symmetry {sym!r} box {box}: rotating the result by {step:.6g} deg changes it by relative L2 {e2:.4f}")
    ratio = float(out.sum() / vol.sum())
    obs.check(abs(ratio - 1.0) <= 0.02, "symmetrize_volume", "total-density-kept", lambda: f"symmetry {sym!r}: sum(result)/sum(input) = {ratio:.5f}")
    obs.outcome = (n, round(e2, 3), round(ratio, 3), digest(out))


def exec_sym_exact(case, obs):
    n, as_str, box, seed = case
    sym = f"C{n}" if as_str else n
    shape = (box, box, box)
    vol = np.zeros(shape)
    inner = interior_voxels(box)
    for k, p in enumerate(inner):
        if (p[0] * 7 + p[1] * 3 + p[2] + seed) % 3 == 0:
            vol[p] = 1.0 + k
    out = run_sym(obs, vol, sym)
    if not obs.check(out.shape == vol.shape, "symmetrize_volume", "output-shape", f"{out.shape}"):
        obs.outcome = ("bad-shape",)
        return
    ref, judged = sym_reference_exact(vol, n)
    obs.nontrivial = not np.array_equal(ref, vol)
    scale = np.abs(vol).max()
    err = np.abs(out - ref)[judged]
    obs.check(bool(np.all(err <= TOL_EXACT * scale)), "symmetrize_volume", "equals-mean-of-n-rotated-copies",
              lambda: f"symmetry {sym!r} box {box} (delta set, exact reference): {int((err > TOL_EXACT * scale).sum())} of {int(judged.sum())} judged voxels differ, max error {err.max():.4g}")
    s_out, s_in = float(out[judged].sum()), float(ref[judged].sum())
    obs.check(abs(s_out - s_in) <= TOL_EXACT * scale * judged.sum(), "symmetrize_volume", "total-density-kept", f"sum over judged voxels {s_out} vs {s_in}")
    obs.outcome = (n, digest(out))


# ----------------------------------------------------------------------------------------------

def families(tier, seed):
    thorough = tier == "thorough"
    triples = so3.right_angle_triples()
    triples.sort(key=lambda t: (sum(1 for a in t if a), t))          # simplest first

    boxes = [5, 6] + ([7, 8] if thorough else [])
    delta_cases = Union(*[Product(triples, [n], interior_voxels(n)) for n in boxes])
    code_boxes = [5, 6, 7, 8]
    code_cases = Mapped(Product(triples, code_boxes), lambda c: (c[0], (c[1],) * 3, seed))

    step = 15 if thorough else 30
    lattice = [(float(p), float(t), float(s)) for p in range(0, 360, step) for t in range(0, 181, step) for s in range(0, 360, step)]
    lattice.sort(key=lambda a: (sum(1 for x in a if x), a))
    lattice += generic_triples(seed)
    link_cases = Union(*[Product(lattice, blob_offsets(seed, n // 2), [n]) for n in (20, 21)])

    cube = cube_triples()
    poses = triples if thorough else cube
    pos = positions(CONTAINER)
    one_cases = Mapped(Product(poses, pos, COLOUR_FIELDS, SPLITS, FORMS), lambda c: c + (seed,))
    sel = [cube[0], cube[5], cube[11], cube[22]]
    lists = []
    for k in (2, 3):
        for ps in itertools.product(sel, repeat=k):
            for offs in itertools.product(OVERLAP_OFFSETS, repeat=k):
                if k == 3 and len(set(offs)) < 2:
                    continue
                lists.append((ps, offs))
    list_cases = Mapped(Product(lists, COLOUR_FIELDS, ["single+shape", "list+shape"]), lambda c: (c[0][0], c[0][1], c[1], c[2], seed))
    many_cases = Mapped(Product(range(24), COLOUR_FIELDS, FORMS), lambda c: c + (seed,))

    wins = [((5, 6, 7), (2, 2, 2)), ((5, 6, 7), (4, 4, 4)), ((5, 6, 7), (6, 6, 6)), ((5, 6, 7), (2, 4, 6))]
    if thorough:
        wins += [((6, 5, 4), (4, 2, 6)), ((6, 5, 4), (6, 6, 2))]
    win_cases = Union(*[Mapped(Product([vs], Product(centres(vs[0]), centres(vs[1]), centres(vs[2])), [bx]), lambda c: c + (seed,)) for vs, bx in wins])

    sym_offs = {20: [(2.0, 1.2, 0.5), (-1.1, 2.3, -1.0)], 21: [(2.2, -1.0, 1.5), (0.8, 2.4, -2.0)]}
    for box, offs in sym_offs.items():
        for o in offs:
            if not (np.hypot(o[0], o[1]) + 3 * SIGMA <= box // 2 - 1 and abs(o[2]) + 3 * SIGMA <= box // 2 - 1 and np.hypot(o[0], o[1]) > 1.5):
                raise HarnessError(f"symmetrize blob {o} not inside the inscribed cylinder of box {box}")
    sym_blob = Listed([(n, s, box, o) for n in range(2, 13) for s in (False, True) for box in (20, 21) for o in sym_offs[box]])
    sym_exact = Listed([(n, s, box, seed) for n in (2, 4) for s in (False, True) for box in (5, 6, 7, 8)])

    def d_delta(c):
        return {"angles_zxz": list(c[0]), "box": c[1], "delta_at": list(c[2])}

    def d_codes(c):
        return {"angles_zxz": list(c[0]), "box": list(c[1])}

    def d_link(c):
        return {"angles_zxz": list(c[0]), "blob_offset": list(c[1]), "box": c[2], "sigma": SIGMA}

    def d_one(c):
        return {"angles_zxz": list(c[0]), "position0": list(c[1]), "colour": c[2], "split": list(c[3]), "form": c[4]}

    def d_list(c):
        return {"poses": [list(a) for a in c[0]], "offsets": [list(o) for o in c[1]], "colour": c[2], "form": c[3]}

    def d_many(c):
        return {"first_pose": c[0], "colour": c[1], "form": c[2], "particles": 20}

    def d_win(c):
        return {"volume": list(c[0]), "centre": list(c[1]), "box": list(c[2])}

    def d_symb(c):
        return {"n": c[0], "as": "Cn-string" if c[1] else "int", "box": c[2], "blob_offset": list(c[3])}

    def d_syme(c):
        return {"n": c[0], "as": "Cn-string" if c[1] else "int", "box": c[2], "volume": "delta set"}

    from ..engine import with_array_layouts
    _codes = Family("rot90-codes", code_cases, exec_rot_codes, describe=d_codes)
    _win = Family("window", win_cases, exec_window, describe=d_win)
    _one = Family("place-one", one_cases, exec_place_one, describe=d_one)
    layout_fams = [
        with_array_layouts(_codes, expect=("codes-permuted-exactly",)),
        with_array_layouts(_win, select=lambda c: tuple(c[2]) == (4, 4, 4), expect=("window-voxels", "outside-is-volume-mean")),
        with_array_layouts(_one, select=lambda c: tuple(c[3]) == (0.0, 0.0, 0.0) and c[2] == "geom1", expect=("stamped-voxel-set",)),
    ]
    from ..motlgen import with_row_index_kinds
    _link = Family("link-motl-map", link_cases, exec_link, describe=d_link)
    _plist = Family("place-list", list_cases, exec_place_list, describe=d_list)
    layout_fams += [
        with_row_index_kinds(_plist, kinds=("gapped", "reversed", "repeated"), expect=("stamped-voxel-set", "stamp-colour")),
        with_row_index_kinds(_link, select=lambda c: c[2] == 20 and c[0][1] in (0.0, 90.0, 180.0), expect=("map-rotation-matches-shift-positions",)),
    ]
    return layout_fams + [
        Family("rot90-delta", delta_cases, exec_rot_delta, describe=d_delta, expect=("delta-lands-at-Rv", "delta-elsewhere-zero")),
        Family("rot90-codes", code_cases, exec_rot_codes, describe=d_codes, expect=("codes-permuted-exactly", "right-angle-inverse-restores")),
        Family("link-motl-map", link_cases, exec_link, describe=d_link,
               expect=("density-moves-to-Rv", "map-rotation-matches-motl-rotation", "map-rotation-matches-shift-positions",
                       "inverse-restores", "motl-rotation-is-active-zxz", "shift-is-R-times-offset")),
        Family("place-one", one_cases, exec_place_one, describe=d_one, expect=("stamped-voxel-set", "stamp-colour", "background-kept")),
        Family("place-list", list_cases, exec_place_list, describe=d_list, expect=("stamped-voxel-set", "stamp-colour", "later-overwrites-earlier")),
        Family("place-20", many_cases, exec_place_many, describe=d_many, expect=("stamped-voxel-set", "stamp-colour")),
        Family("place-grey-template", Mapped(Product([10, 12], [0, 1], [(30.0, 40.0, 50.0), (45.0, 0.0, 0.0), (0.0, 33.0, 0.0), (77.0, 120.0, -33.0), (0.0, 0.0, 0.0), (90.0, 90.0, 0.0)],
                                                    ["single+shape", "list+shape"]), lambda c: c + (seed,)), exec_place_grey,
               describe=lambda c: {"template_edge": c[0], "template": c[1], "zxz_angles": list(c[2]), "form": c[3]}, expect=("stamped-voxel-set", "stamp-colour", "background-kept")),
        Family("rotate-no-source", Mapped(Product([(12, 12, 12), (13, 12, 11), (16, 10, 12)], [(45.0, 0.0, 0.0), (0.0, 45.0, 0.0), (30.0, 40.0, 50.0), (77.0, 120.0, -33.0), (10.0, 0.0, 0.0), (0.0, 180.0, 45.0)],
                                                 ["constant", "face-slabs"]), lambda c: c + (seed,)), exec_rot_nosource,
               describe=lambda c: {"shape": list(c[0]), "zxz_angles": list(c[1]), "map": c[2]}, expect=("no-density-without-source", "constant-stays-constant-inside")),
        Family("window", win_cases, exec_window, describe=d_win, expect=("window-voxels", "outside-is-volume-mean", "crop-equals-window", "enforce-shape-window-voxels-kept", "enforce-shape-elsewhere-is-volume-mean", "pad-centres-volume-in-fill")),
        Family("symmetrize-exact", sym_exact, exec_sym_exact, describe=d_syme,
               expect=("equals-mean-of-n-rotated-copies", "independent-of-uninitialised-memory", "total-density-kept")),
        Family("symmetrize-blob", sym_blob, exec_sym_blob, describe=d_symb,
               expect=("equals-mean-of-n-rotated-copies", "invariant-under-360/n", "total-density-kept", "independent-of-uninitialised-memory")),
    ]
