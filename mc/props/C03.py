"""C03 — RELION <-> cryoCAT conversion preserves each particle's pose and identity.

Oracle = an INDEPENDENT statement of the convention (never a self round trip only):
    Rz(rot) Ry(tilt) Rz(psi)  *  Rz(psi_p) Rx(theta_p) Rz(phi_p)  =  I          (explicit matrices, mc/oracles/so3.py)
    rlnCoordinate = x + shift, rlnOrigin* = 0 on export;  x = rlnCoordinate, shift = -origin (/pixel size for >= 3.1) on import
    tomogram number / class kept, subtomogram number in the generated names / geom3, half-set 1 <=> odd, 2 <=> even.
STAR texts written by cryoCAT are read with a private tokenizer; RELION / STOPGAP inputs are written by a private writer.
"""
import hashlib
import os
import re

import numpy as np
import pandas as pd

from ..engine import Family, LibError, _exc_site
from ..space import Listed, Mapped, Product, Union
from ..motlgen import COLS
from ..oracles import so3, emfmt

RULE = (
    "cases = direction (export in memory / export to file / import of an independently written RELION table or file / "
    "export->import in memory / through a file / the four helper functions) x configuration (version, pixel size, name "
    "format, optics on/off, binning given/default, pixel-size source, name style, half-set column style, column order, "
    "version argument) x particle chunk.  The 1.1k orientations (30-degree zxz / ZYZ lattice incl. both gimbal planes, "
    "out-of-range and near-gimbal triples) ride in 4 chunks of <= 300 rows; every configuration is also run on hand-picked "
    "1-row and 2-row lists (all half-set parity combinations).  Positions/shifts/origins run over all 9^3 sign "
    "combinations.  Non-trivial = the chunk has a particle with a non-identity rotation and one with a non-zero shift "
    "(origin); distinct = distinct (configuration, chunk)."
)
BOUNDS = {
    "quick": "versions {3.0,3.1,4.0} x pixel size {1.0,2.5} x 4 documented name formats per version x optics on/off (>=3.1) x "
             "binning {default,1.0} x version/pixel size given to the constructor or to the call; import: full product version x "
             "pixel size x pixel-size source {argument, rlnPixelSize, optics block, 2 optics groups, 2 optics groups listed in reverse} x file/table, plus every single "
             "deviation in name style / half-set style / column order / version argument / extra columns; chunks: 8 one-row, "
             "8 two-row, 4 x <=300 rows (1052 orientations = 1008 lattice + 44 special); helpers: 4 functions x their options",
    "thorough": "as quick plus pixel size 0.8375, two more name formats per version (docstring examples), import with every PAIR of "
                "deviations, 106 one-row and 104 two-row lists, chunkings of 300 and 97 rows",
}
ASSUMPTIONS = [
    "float64 particle tables; subtomogram numbers unique positive integers; tomogram numbers and classes non-negative integers",
    "binning 1.0 (or the constructor default) – the statement does not define coordinates under binning != 1",
    "name formats and RELION input names are the ones documented in prepare_particles_data / parse_tomo_id / parse_subtomo_id",
    "RELION 3.0 with write_optics=True is not enumerated (3.0 has no optics block)",
    "use_original_entries=False; RELION 5 not covered",
    "STAR precision: 6 decimals => coordinates within 0.5e-6 (+1e-9), rotation matrices within 1e-6; in memory 1e-9 / 1e-6",
]
BUDGET_S = {"quick": 400, "thorough": 3000}

TOL_POS_MEM = 1e-9
TOL_ROT_MEM = 1e-6  # scipy treats |middle angle| < 1e-7 rad as gimbal lock: exact code is off by up to 1e-7
TOL_POS_FILE = 0.5e-6 + 1e-9
TOL_ROT_FILE = 1e-6
TOL_RT_POS_FILE = 2e-6

# =================================================================================================
# private STAR tokenizer + writer (re / plain python only)


class StarError(Exception):
    pass


def star_parse(text):
    """-> list of blocks {name, labels, rows}; rows are lists of string tokens.  '#' starts a comment when it starts a
    token; labels may carry '#n'; key-value (non-loop) blocks become one row."""
    blocks = []
    cur = None
    for ln, raw in enumerate(text.splitlines(), 1):
        toks = raw.split()
        for k, t in enumerate(toks):
            if t.startswith("#"):
                toks = toks[:k]
                break
        if not toks:
            continue
        t0 = toks[0]
        if t0.startswith("data_"):
            cur = {"name": t0, "labels": [], "rows": [], "loop": False}
            blocks.append(cur)
        elif cur is None:
            raise StarError(f"line {ln}: token {t0!r} before any data_ block")
        elif t0 == "loop_":
            cur["loop"] = True
        elif t0.startswith("_"):
            if cur["rows"] and cur["loop"]:
                raise StarError(f"line {ln}: label after data rows")
            cur["labels"].append(t0[1:])
            if not cur["loop"]:
                if len(toks) != 2:
                    raise StarError(f"line {ln}: key-value entry with {len(toks) - 1} values")
                if not cur["rows"]:
                    cur["rows"].append([])
                cur["rows"][0].append(toks[1])
        else:
            if len(toks) != len(cur["labels"]):
                raise StarError(f"line {ln}: {len(toks)} tokens for {len(cur['labels'])} labels")
            cur["rows"].append(toks)
    return blocks


def star_text(blocks, numbered=True):
    """blocks: list of (name, labels, rows-of-string-tokens) -> RELION-style text."""
    out = ["", "# version 30001", ""]
    for name, labels, rows in blocks:
        out += [name, "", "loop_ "]
        for k, lab in enumerate(labels, 1):
            out.append(f"_{lab} #{k} " if numbered else f"_{lab}")
        if not numbered:
            out.append("")
        for r in rows:
            out.append(" ".join(f"{t:>12}" for t in r) + " ")
        out += ["", ""]
    return "\n".join(out)


# =================================================================================================
# vectorised explicit matrices (self-checked against so3 at import time)


def _rz(a):
    a = np.radians(np.asarray(a, float))
    c, s = np.cos(a), np.sin(a)
    m = np.zeros(a.shape + (3, 3))
    m[..., 0, 0] = c
    m[..., 0, 1] = -s
    m[..., 1, 0] = s
    m[..., 1, 1] = c
    m[..., 2, 2] = 1.0
    return m


def _rx(a):
    a = np.radians(np.asarray(a, float))
    c, s = np.cos(a), np.sin(a)
    m = np.zeros(a.shape + (3, 3))
    m[..., 0, 0] = 1.0
    m[..., 1, 1] = c
    m[..., 1, 2] = -s
    m[..., 2, 1] = s
    m[..., 2, 2] = c
    return m


def _ry(a):
    a = np.radians(np.asarray(a, float))
    c, s = np.cos(a), np.sin(a)
    m = np.zeros(a.shape + (3, 3))
    m[..., 0, 0] = c
    m[..., 0, 2] = s
    m[..., 1, 1] = 1.0
    m[..., 2, 0] = -s
    m[..., 2, 2] = c
    return m


def zxz_mats(phi, theta, psi):
    """particle rotation, cryoCAT zxz: Rz(psi) Rx(theta) Rz(phi)."""
    return _rz(psi) @ _rx(theta) @ _rz(phi)


def relion_mats(rot, tilt, psi):
    """RELION ZYZ: Rz(rot) Ry(tilt) Rz(psi)."""
    return _rz(rot) @ _ry(tilt) @ _rz(psi)


for _a in (-200.0, 33.0, 180.0):
    assert np.array_equal(_rz([_a])[0], so3.Rz(_a)) and np.array_equal(_rx([_a])[0], so3.Rx(_a)) and np.array_equal(_ry([_a])[0], so3.Ry(_a))
assert np.allclose(zxz_mats([10.0], [20.0], [30.0])[0], so3.zxz(10, 20, 30), atol=0, rtol=0)
assert np.allclose(relion_mats([10.0], [20.0], [30.0])[0], so3.relion(10, 20, 30), atol=0, rtol=0)


def inv_err(A, B):
    """max |A_i B_i - I| per row."""
    E = A @ B - np.eye(3)
    return np.abs(E).reshape(len(E), -1).max(axis=1) if len(E) else np.zeros(0)


def same_err(A, B):
    return np.abs(A - B).reshape(len(A), -1).max(axis=1) if len(A) else np.zeros(0)


# =================================================================================================
# particle pools (deterministic; the seed only changes representative numbers)

_POOLS = {}


def _orientation_list(seed):
    """zxz / ZYZ triples (a, b, c) with b the middle angle: specials first, then the 30-degree lattice."""
    sp = []
    for a in (-200.0, 400.0, 30.0):
        for c in (-200.0, 400.0, -75.0):
            for b in (-30.0, 200.0, 360.0, 60.0):
                if (a, b, c) != (30.0, 60.0, -75.0):
                    sp.append((a, b, c))
    sp += [(12.3, 1e-4, -77.7), (12.3, 179.9999, 40.0), (-91.0, 1e-6, 0.0), (0.0, 0.0, 0.0), (33.125, 71.5, -128.875)]
    rs = np.random.RandomState(9000 + seed)
    for _ in range(4 if seed else 0):
        sp.append((float(rs.uniform(-180, 180)), float(rs.uniform(0.5, 179.5)), float(rs.uniform(-180, 180))))
    if not seed:
        sp += [(101.0, 17.0, 3.0), (-5.5, 133.25, 170.0), (77.77, 90.0, -90.0), (-179.5, 45.0, 179.5)]
    lat = so3.euler_lattice(30, 30)  # (phi, theta, psi) order of the triple = (first z, middle, last z)
    return sp + [(p, t, s) for (p, t, s) in lat]


def _sign_palette(seed, a_vals, b_vals, n):
    """all 9^3 combinations of (a,b) per axis spread over n rows (row i -> combination (i*stride) mod 729)."""
    rs = np.random.RandomState(7000 + seed)
    ja = rs.uniform(-0.2, 0.2, 3) if seed else np.zeros(3)
    jb = rs.uniform(-0.02, 0.02, 3) if seed else np.zeros(3)
    pairs = [(a, b) for a in a_vals for b in b_vals]  # 9
    A = np.zeros((n, 3))
    B = np.zeros((n, 3))
    for i in range(n):
        k = (i * 410 + 1) % 729  # 410 is coprime to 729: rows 0..728 hit every combination once
        for ax in range(3):
            k, r = divmod(k, 9)
            a, b = pairs[r]
            A[i, ax] = a + (ja[ax] if a != 0 else 0.0)
            B[i, ax] = b + (jb[ax] if b != 0 else 0.0)
    return A, B


def _ids(n):
    i = np.arange(n)
    sub = 5 + 3 * i + (i % 4 == 2)  # unique, non-sequential, runs of equal parity and alternations
    tomo = np.array([5, 12, 103, 1])[(i // 3) % 4]
    cls = (i * 3 + 1) % 5
    return sub.astype(float), tomo.astype(float), cls.astype(float)


def pool(kind, seed):
    """kind 'motl' (cryoCAT particles) or 'rln' (RELION rows).  Cached dict of arrays."""
    key = (kind, seed)
    if key in _POOLS:
        return _POOLS[key]
    ang = np.array(_orientation_list(seed), dtype=float)
    n = len(ang)
    sub, tomo, cls = _ids(n)
    if kind == "motl":
        pos, shift = _sign_palette(seed, (-10.5, 0.0, 7.25), (-0.4, 0.0, 0.3), n)
        # long-decimal positions on a few rows (STAR rounding)
        pos[3] += 123.4567891234
        shift[4] += 0.000000749
        p = {"phi": ang[:, 0], "theta": ang[:, 1], "psi": ang[:, 2], "pos": pos, "shift": shift, "sub": sub, "tomo": tomo, "cls": cls}
        p["R"] = zxz_mats(p["phi"], p["theta"], p["psi"])
    else:
        coord, origin = _sign_palette(seed, (-10.5, 0.0, 321.75), (-3.75, 0.0, 2.5), n)
        coord = np.round(coord, 6)
        origin = np.round(origin, 6)
        coord[3] += 123.456789
        p = {"rot": ang[:, 0], "tilt": ang[:, 1], "psi": ang[:, 2], "coord": coord, "origin": origin, "sub": sub, "tomo": tomo, "cls": cls}
        p["M"] = relion_mats(p["rot"], p["tilt"], p["psi"])
    p["n"] = n
    _POOLS[key] = p
    return p


def chunk_indices(chunk):
    if chunk[0] == "one":
        return np.array([chunk[1]])
    if chunk[0] == "two":
        return np.array([chunk[1], chunk[2]])
    return np.arange(chunk[1], chunk[2])


def take(p, chunk):
    idx = chunk_indices(chunk)
    return {k: (v[idx] if isinstance(v, np.ndarray) else v) for k, v in p.items() if k != "n"} | {"n": len(idx)}


def chunks_for(n, tier):
    """simplest first: one-row lists, two-row lists, then blocks covering the whole pool."""
    sub, tomo, _ = _ids(n)
    odd = [int(i) for i in range(n) if sub[i] % 2 == 1]
    even = [int(i) for i in range(n) if sub[i] % 2 == 0]
    if tier == "quick":
        # specials: out-of-range (0), near gimbal (35), identity (38), generic (39), lattice rows (gimbal 0, gimbal 180, generic)
        lat0 = n - 1008
        ones = [39, 0, 35, 38, lat0 + 0, lat0 + 6 * 12 + 5, lat0 + 2 * 12 + 7 + 84 * 3, 1]
        twos = [(39, 0), (odd[1], odd[2]), (even[1], even[2]), (odd[3], even[3]), (even[4], odd[4]), (lat0, lat0 + 72), (35, 36), (n - 1, n - 2)]
        sizes = [300]
    else:
        ones = list(range(0, n, 10))
        twos = [(i, (i + 1) % n) for i in range(1, n, 21)] + [(i, (i + 2) % n) for i in range(2, n, 21)]
        twos += [(odd[1], odd[2]), (even[1], even[2])]
        sizes = [300, 97]
    out = [("one", i) for i in ones] + [("two", a, b) for a, b in twos]
    for s in sizes:
        out += [("blk", a, min(n, a + s)) for a in range(0, n, s)]
    return out


def motl_df(rows):
    n = rows["n"]
    data = {c: np.zeros(n, dtype=np.float64) for c in COLS}
    data["score"] = np.linspace(0.1, 0.9, n) if n > 1 else np.array([0.5])
    data["object_id"] = np.arange(1, n + 1, dtype=float)
    data["subtomo_id"] = rows["sub"].copy()
    data["tomo_id"] = rows["tomo"].copy()
    data["class"] = rows["cls"].copy()
    for k, ax in enumerate("xyz"):
        data[ax] = rows["pos"][:, k].copy()
        data["shift_" + ax] = rows["shift"][:, k].copy()
    data["phi"] = rows["phi"].copy()
    data["theta"] = rows["theta"].copy()
    data["psi"] = rows["psi"].copy()
    df = pd.DataFrame(data, columns=COLS)
    from .. import motlgen
    kind = getattr(motlgen, "_FORCED", None)
    if kind and kind != "default" and n:
        df.index = motlgen.index_labels(n, kind)   # the same list as sort_values / a row selection leaves it behind
    return df


# =================================================================================================
# name formats (the expected name is written by hand, not by re-implementing the library's substitution)

FORMATS = {
    # id: (tomo_format, subtomo_format, expected tomo name, expected subtomo name)
    "3:plain": ("", "", None, None),
    "3:tomo": ("$xxx.rec", "", lambda t, s: f"{t:03d}.rec", None),
    "3:sub": ("", "/p/$xxxx/$xxxx_$yyy_2.6A.mrc", None, lambda t, s: f"/p/{t:04d}/{t:04d}_{s:03d}_2.6A.mrc"),
    "3:both": ("$xxx.rec", "/p/$xxxx/$xxxx_$yyy_2.6A.mrc", lambda t, s: f"{t:03d}.rec", lambda t, s: f"/p/{t:04d}/{t:04d}_{s:03d}_2.6A.mrc"),
    "3:doc1": ("/path/to/$xxxx.rec", "/path/to/$xxxx/$xxxx_$yy_2.6A.mrc", lambda t, s: f"/path/to/{t:04d}.rec", lambda t, s: f"/path/to/{t:04d}/{t:04d}_{s:02d}_2.6A.mrc"),
    "3:doc2": ("/path/to/$xxxx/$xxxx_$xx.mrc", "/path/to/$xxx/$xxx_$yy_$yyyyy_2.6A.mrc", lambda t, s: f"/path/to/{t:04d}/{t:04d}_$xx.mrc", lambda t, s: f"/path/to/{t:03d}/{t:03d}_$yy_{s:05d}_2.6A.mrc"),
    "4:plain": ("", "", None, None),
    "4:tomo": ("TS_$xx", "", lambda t, s: f"TS_{t:02d}", None),
    "4:sub": ("", "TS_$xx/$yyy", None, lambda t, s: f"TS_{t:02d}/{s:03d}"),
    "4:both": ("TS_$xx", "TS_$xx/$yyy", lambda t, s: f"TS_{t:02d}", lambda t, s: f"TS_{t:02d}/{s:03d}"),
    "4:doc1": ("/path/to/$xxxx", "/path/to/$xxxx/$yyyy", lambda t, s: f"/path/to/{t:04d}", lambda t, s: f"/path/to/{t:04d}/{s:04d}"),
    "4:doc2": ("TS_$xxx", "sub/TS_$xxx/$y", lambda t, s: f"TS_{t:03d}", lambda t, s: f"sub/TS_{t:03d}/{s:d}"),
}
# formats whose generated names are NOT documented as parseable on import (second number of the last entry etc.)
NOT_REIMPORTABLE = {"3:doc2"}


def formats_for(ver, tier):
    pre = "4:" if ver >= 4.0 else "3:"
    ids = [pre + k for k in ("plain", "tomo", "sub", "both")]
    if tier != "quick":
        ids += [pre + "doc1", pre + "doc2"]
    return ids


def names_of(ver):
    """(tomogram name label, subtomogram name label, origin labels, particle block name) – my own table of the RELION forms."""
    if ver == 3.0:
        return "rlnMicrographName", "rlnImageName", ["rlnOriginX", "rlnOriginY", "rlnOriginZ"], "data_"
    if ver == 3.1:
        return "rlnMicrographName", "rlnImageName", ["rlnOriginXAngst", "rlnOriginYAngst", "rlnOriginZAngst"], "data_particles"
    return "rlnTomoName", "rlnTomoParticleName", ["rlnOriginXAngst", "rlnOriginYAngst", "rlnOriginZAngst"], "data_particles"


COORD = ["rlnCoordinateX", "rlnCoordinateY", "rlnCoordinateZ"]
ANGLES = ["rlnAngleRot", "rlnAngleTilt", "rlnAnglePsi"]


# =================================================================================================
# judging


def _num(obs, site, clause, table, label, n):
    """numeric column of a table (dict label -> list) as float array, or None (+violation)."""
    if label not in table:
        obs.check(False, site, clause, f"column {label} missing; have {sorted(table)[:30]}", cls="missing-column")
        return None
    try:
        a = np.array([float(v) for v in table[label]], dtype=float)
    except (TypeError, ValueError):
        obs.check(False, site, clause, f"column {label} not numeric: {table[label][:3]!r}", cls="non-numeric")
        return None
    if a.shape != (n,):
        obs.check(False, site, clause, f"column {label} has {a.shape} values for {n} particles", cls="row-count")
        return None
    return a


def _first_bad(mask):
    return int(np.argmax(~mask))


def judge_export(obs, site, pfx, table, rows, ver, fmt, tol_pos, tol_rot, pos=None, Rp=None):
    """table: dict label -> list of values (floats/str from a DataFrame, str tokens from a file).
    rows: the particles that were exported.  pos/Rp override the expected complete position / rotation."""
    n = rows["n"]
    tomo_l, sub_l, origin_l, _ = names_of(ver)
    want = rows["pos"] + rows["shift"] if pos is None else pos
    Rp = rows["R"] if Rp is None else Rp
    # coordinates
    cols = [_num(obs, site, pfx + "-coordinate", table, l, n) for l in COORD]
    if all(c is not None for c in cols):
        got = np.stack(cols, axis=1)
        ok = np.abs(got - want) <= tol_pos
        obs.check(ok.all(), site, pfx + "-coordinate",
                  lambda: "row {0}: rlnCoordinate {1} expected x+shift {2}".format(_first_bad(ok.all(axis=1)), got[_first_bad(ok.all(axis=1))].tolist(), want[_first_bad(ok.all(axis=1))].tolist()))
    # origins
    cols = [_num(obs, site, pfx + "-origin-zero", table, l, n) for l in origin_l]
    if all(c is not None for c in cols):
        got_o = np.stack(cols, axis=1)
        obs.check(bool((got_o == 0).all()), site, pfx + "-origin-zero", lambda: f"non-zero origin shifts {got_o[np.any(got_o != 0, axis=1)][:2].tolist()}")
    # angles: Rz(rot)Ry(tilt)Rz(psi) * R_particle = I
    cols = [_num(obs, site, pfx + "-angles-inverse", table, l, n) for l in ANGLES]
    if all(c is not None for c in cols):
        M = relion_mats(*cols)
        err = inv_err(M, Rp)
        ok = err <= tol_rot
        if not ok.all():
            i = _first_bad(ok)
            z = rows["theta"][i] if "theta" in rows else float("nan")
            kind = "gimbal" if abs(np.sin(np.radians(z))) < 1e-3 else "generic"
            # what WOULD it be: transpose (same rotation instead of inverse)?
            alt = same_err(M[i:i + 1], Rp[i:i + 1])[0]
            obs.check(False, site, pfx + "-angles-inverse",
                      f"row {i}: particle zxz (phi,theta,psi)=({rows.get('phi', [0]*n)[i]},{z},{rows.get('psi', [0]*n)[i]}) exported as (rot,tilt,psi)=({cols[0][i]},{cols[1][i]},{cols[2][i]}); "
                      f"|M*R-I|={err[i]:.3g} (|M-R|={alt:.3g}); {int((~ok).sum())}/{n} rows wrong", cls=kind)
        else:
            obs.fire(pfx + "-angles-inverse")
    # names
    tf, sf, tomo_exp, sub_exp = FORMATS[fmt]
    for label, fn, ident, clause in ((tomo_l, tomo_exp, rows["tomo"], pfx + "-tomo-name"), (sub_l, sub_exp, rows["sub"], pfx + "-subtomo-name")):
        if label not in table:
            obs.check(False, site, clause, f"column {label} missing", cls="missing-column")
            continue
        vals = table[label]
        if len(vals) != n:
            obs.check(False, site, clause, f"{len(vals)} names for {n} particles", cls="row-count")
            continue
        if fn is None:
            try:
                ok = all(float(v) == t for v, t in zip(vals, ident))
            except (TypeError, ValueError):
                ok = False
            obs.check(ok, site, clause, lambda: f"plain ids expected {ident[:3].tolist()}, got {list(vals[:3])!r}", cls="plain")
        else:
            exp = [fn(int(t), int(s)) for t, s in zip(rows["tomo"], rows["sub"])]
            got_s = [str(v).strip() for v in vals]
            bad = [i for i in range(n) if got_s[i] != exp[i]]
            obs.check(not bad, site, clause, lambda: f"row {bad[0]}: name {got_s[bad[0]]!r}, expected {exp[bad[0]]!r} from format {tf if label == tomo_l else sf!r}", cls="format")
    # class, half-set
    c = _num(obs, site, pfx + "-class", table, "rlnClassNumber", n)
    if c is not None:
        obs.check(bool((c == rows["cls"]).all()), site, pfx + "-class", lambda: f"class {c[:4].tolist()} expected {rows['cls'][:4].tolist()}")
    h = _num(obs, site, pfx + "-halfset", table, "rlnRandomSubset", n)
    if h is not None:
        exp_h = np.where(rows["sub"] % 2 == 1, 1.0, 2.0)
        ok = h == exp_h
        obs.check(ok.all(), site, pfx + "-halfset",
                  lambda: f"row {_first_bad(ok)}: subtomo {rows['sub'][_first_bad(ok)]} has rlnRandomSubset {h[_first_bad(ok)]} (1 <=> odd, 2 <=> even)")


def judge_import(obs, site, pfx, mdf, exp, tol_pos, tol_rot, split=True):
    """mdf: the cryoCAT table after import.  exp: dict with coord, shift, M (RELION matrices), tomo, cls, sub, half (or None).
    split=False: only the complete position x+shift is pinned (update_coordinates was requested)."""
    n = exp["n"]
    ok_shape = obs.check(isinstance(mdf, pd.DataFrame) and len(mdf) == n and set(COLS) <= set(mdf.columns), site, pfx + "-shape",
                         lambda: f"{len(mdf)} rows for {n} particles / columns {list(getattr(mdf, 'columns', []))[:25]}")
    if not ok_shape:
        return False
    g = {c: np.asarray(mdf[c], dtype=float) for c in COLS}
    xyz = np.stack([g["x"], g["y"], g["z"]], axis=1)
    sh = np.stack([g["shift_x"], g["shift_y"], g["shift_z"]], axis=1)
    if split:
        ok = np.abs(xyz - exp["coord"]) <= tol_pos
        obs.check(ok.all(), site, pfx + "-coordinate",
                  lambda: f"row {_first_bad(ok.all(axis=1))}: x,y,z {xyz[_first_bad(ok.all(axis=1))].tolist()} expected rlnCoordinate {exp['coord'][_first_bad(ok.all(axis=1))].tolist()}")
        ok2 = np.abs(sh - exp["shift"]) <= tol_pos
        ok2 &= ~np.isnan(sh)
        obs.check(ok2.all(), site, pfx + "-shift",
                  lambda: f"row {_first_bad(ok2.all(axis=1))}: shift {sh[_first_bad(ok2.all(axis=1))].tolist()} expected -origin{'/px' if exp.get('angst') else ''} {exp['shift'][_first_bad(ok2.all(axis=1))].tolist()}",
                  cls=exp.get("shift_cls", ""))
    else:
        tot = xyz + sh
        wt = exp["coord"] + exp["shift"]
        ok = np.abs(tot - wt) <= 2 * tol_pos
        obs.check(ok.all(), site, pfx + "-position", lambda: f"row {_first_bad(ok.all(axis=1))}: x+shift {tot[_first_bad(ok.all(axis=1))].tolist()} expected {wt[_first_bad(ok.all(axis=1))].tolist()}")
        intg = xyz == np.round(xyz)
        obs.check(bool(intg.all()), site, pfx + "-integer-xyz", "update_coordinates requested but x,y,z are not integers")
    R = zxz_mats(g["phi"], g["theta"], g["psi"])
    err = inv_err(exp["M"], R)
    okr = err <= tol_rot
    if not okr.all():
        i = _first_bad(okr)
        kind = "gimbal" if abs(np.sin(np.radians(exp["tilt"][i]))) < 1e-3 else "generic"
        obs.check(False, site, pfx + "-rotation-inverse",
                  f"row {i}: RELION (rot,tilt,psi)=({exp['rot'][i]},{exp['tilt'][i]},{exp['psi'][i]}) imported as zxz (phi,theta,psi)=({g['phi'][i]},{g['theta'][i]},{g['psi'][i]}); "
                  f"|M*R-I|={err[i]:.3g} (|M-R|={same_err(exp['M'][i:i+1], R[i:i+1])[0]:.3g}); {int((~okr).sum())}/{n} rows wrong", cls=kind)
    else:
        obs.fire(pfx + "-rotation-inverse")
    obs.check(bool((g["tomo_id"] == exp["tomo"]).all()), site, pfx + "-tomo", lambda: f"tomo_id {g['tomo_id'][:4].tolist()} expected {exp['tomo'][:4].tolist()}", cls=exp.get("name_cls", ""))
    obs.check(bool((g["class"] == exp["cls"]).all()), site, pfx + "-class", lambda: f"class {g['class'][:4].tolist()} expected {exp['cls'][:4].tolist()}")
    obs.check(bool((g["geom3"] == exp["sub"]).all()), site, pfx + "-geom3", lambda: f"geom3 {g['geom3'][:4].tolist()} expected subtomogram numbers {exp['sub'][:4].tolist()}", cls=exp.get("name_cls", ""))
    if exp.get("half") is not None and exp.get("half_cls") == "half-single-value":
        # A file whose rlnRandomSubset column holds a single value carries no half-set *partition*; cryoCAT then keeps the
        # numbers found in the particle names (cryomotl.py parse_subtomo_id: "nunique() == 2").  The statement's
        # "half-set 1/2 corresponds to odd/even" cannot be demanded of such a file without saying which of the two
        # conflicting sources (name number vs. subset) wins, so this class is executed but not judged.
        obs.fire(pfx + "-halfset-single-value-not-judged")
    elif exp.get("half") is not None:
        par = np.where(g["subtomo_id"] % 2 == 1, 1.0, 2.0)
        ok = par == exp["half"]
        obs.check(ok.all(), site, pfx + "-halfset-parity",
                  lambda: f"row {_first_bad(ok)}: half-set {exp['half'][_first_bad(ok)]} but subtomo_id {g['subtomo_id'][_first_bad(ok)]} (1 <=> odd, 2 <=> even)", cls=exp.get("half_cls", ""))
    return True


def judge_roundtrip(obs, site, pfx, mdf, rows, tol_pos, tol_rot, reimportable=True):
    """export followed by import: same complete position, same rotation, same tomogram/class, number in geom3, parity kept."""
    n = rows["n"]
    if not obs.check(isinstance(mdf, pd.DataFrame) and len(mdf) == n and set(COLS) <= set(mdf.columns), site, pfx + "-shape", lambda: f"{len(mdf)} rows for {n} particles"):
        return
    g = {c: np.asarray(mdf[c], dtype=float) for c in COLS}
    tot = np.stack([g["x"] + g["shift_x"], g["y"] + g["shift_y"], g["z"] + g["shift_z"]], axis=1)
    want = rows["pos"] + rows["shift"]
    ok = np.abs(tot - want) <= tol_pos
    obs.check(ok.all(), site, pfx + "-position", lambda: f"row {_first_bad(ok.all(axis=1))}: x+shift {tot[_first_bad(ok.all(axis=1))].tolist()} expected {want[_first_bad(ok.all(axis=1))].tolist()}")
    R = zxz_mats(g["phi"], g["theta"], g["psi"])
    err = same_err(R, rows["R"])
    okr = err <= tol_rot
    obs.check(okr.all(), site, pfx + "-rotation",
              lambda: f"row {_first_bad(okr)}: zxz ({rows['phi'][_first_bad(okr)]},{rows['theta'][_first_bad(okr)]},{rows['psi'][_first_bad(okr)]}) came back as "
                      f"({g['phi'][_first_bad(okr)]},{g['theta'][_first_bad(okr)]},{g['psi'][_first_bad(okr)]}), |dR|={err[_first_bad(okr)]:.3g}; {int((~okr).sum())}/{n} rows")
    if reimportable:
        obs.check(bool((g["tomo_id"] == rows["tomo"]).all()), site, pfx + "-tomo", lambda: f"tomo_id {g['tomo_id'][:4].tolist()} expected {rows['tomo'][:4].tolist()}")
        obs.check(bool((g["geom3"] == rows["sub"]).all()), site, pfx + "-geom3", lambda: f"geom3 {g['geom3'][:4].tolist()} expected {rows['sub'][:4].tolist()}")
    obs.check(bool((g["class"] == rows["cls"]).all()), site, pfx + "-class", lambda: f"class {g['class'][:4].tolist()} expected {rows['cls'][:4].tolist()}")
    ok = (g["subtomo_id"] % 2) == (rows["sub"] % 2)
    obs.check(ok.all(), site, pfx + "-halfset-parity", lambda: f"row {_first_bad(ok)}: subtomogram {rows['sub'][_first_bad(ok)]} came back as subtomo_id {g['subtomo_id'][_first_bad(ok)]} (other half-set)")


class _Abort(Exception):
    """the library raised; the violation is already recorded with the input class in `cls`."""


def _lib(obs, site, tag, fn, *a, **k):
    """obs.lib, but the violation signature carries the INPUT CLASS that is known to matter (tag) next to the raising
    cryoCAT function, so that e.g. 'version 4 with the default binning' and any other TypeError stay distinguishable."""
    if not tag:
        return obs.lib(site, fn, *a, **k)
    try:
        return obs.lib(site, fn, *a, **k)
    except LibError as le:
        inner = _exc_site(le.exc) or ""
        obs.fail(site, f"exception:{type(le.exc).__name__}", f"{inner}: {le.exc}", cls=f"{inner}|{tag}")
        obs.outcome = ("exc", site, type(le.exc).__name__, tag)
        raise _Abort() from le


def _guard(execute):
    def run(case, obs):
        try:
            execute(case, obs)
        except _Abort:
            pass
    run.__name__ = execute.__name__
    return run


def _export_tag(ver, binning):
    return "v4-binning-default" if (binning == "default" and ver >= 4.0) else ""


def _nontrivial_motl(rows):
    rot = same_err(rows["R"], np.broadcast_to(np.eye(3), rows["R"].shape)) > 1e-6
    return bool(rot.any() and (rows["shift"] != 0).any())


def _nontrivial_rln(rows):
    rot = same_err(rows["M"], np.broadcast_to(np.eye(3), rows["M"].shape)) > 1e-6
    return bool(rot.any() and (rows["origin"] != 0).any())


def _digest(*parts):
    h = hashlib.blake2b(digest_size=8)
    for p in parts:
        if isinstance(p, np.ndarray):
            a = np.round(np.asarray(p, dtype=float), 6) + 0.0
            h.update(a.tobytes())
        else:
            h.update(repr(p).encode())
    return h.hexdigest()


def _df_table(r):
    return {c: r[c].tolist() for c in r.columns}


def _block_table(b):
    return {lab: [row[j] for row in b["rows"]] for j, lab in enumerate(b["labels"])}


def _ctor_kw(ver, px, binning):
    kw = {"version": ver, "pixel_size": px}
    if binning != "default":
        kw["binning"] = binning
    return kw


def _read_star(obs, site, path):
    try:
        with open(path) as f:
            text = f.read()
        return star_parse(text)
    except (OSError, StarError) as e:
        obs.check(False, site, "file-parse", f"{type(e).__name__}: {e}")
        return None


def judge_relion_file(obs, site, path, rows, ver, fmt, optics, pos=None, Rp=None):
    blocks = _read_star(obs, site, path)
    if blocks is None:
        return None
    _, _, _, bname = names_of(ver)
    want_blocks = (["data_optics"] if optics else []) + [bname]
    got_blocks = [b["name"] for b in blocks]
    obs.check(got_blocks == want_blocks, site, "file-blocks", f"blocks {got_blocks}, expected {want_blocks} for RELION {ver}", cls=f"v{ver}")
    pb = [b for b in blocks if b["name"] != "data_optics"]
    if len(pb) != 1:
        return None
    if optics:
        ob = [b for b in blocks if b["name"] == "data_optics"]
        obs.check(len(ob) == 1 and len(ob[0]["rows"]) >= 1, site, "file-optics-rows", "optics block requested but it has no rows")
    obs.check(len(pb[0]["rows"]) == rows["n"], site, "file-row-count", f"{len(pb[0]['rows'])} data rows for {rows['n']} particles")
    table = _block_table(pb[0])
    judge_export(obs, site, "file", table, rows, ver, fmt, TOL_POS_FILE, TOL_ROT_FILE, pos=pos, Rp=Rp)
    return table


# =================================================================================================
# directions: export


def ex_export_mem(case, obs):
    from cryocat import cryomotl as cm

    (ver, px, fmt, binning, where), chunk, seed = case
    rows = take(pool("motl", seed), chunk)
    obs.nontrivial = _nontrivial_motl(rows)
    tf, sf = FORMATS[fmt][:2]
    if where == "ctor":
        m = obs.lib("RelionMotl(motl_df)", cm.RelionMotl, motl_df(rows), **_ctor_kw(ver, px, binning))
        r = _lib(obs, "RelionMotl.create_relion_df", _export_tag(ver, binning), m.create_relion_df, tomo_format=tf, subtomo_format=sf)
    else:
        m = obs.lib("RelionMotl(motl_df)", cm.RelionMotl, motl_df(rows))
        kw = {} if binning == "default" else {"binning": binning}
        r = _lib(obs, "RelionMotl.create_relion_df", _export_tag(ver, binning), m.create_relion_df, tomo_format=tf, subtomo_format=sf, version=ver, pixel_size=px, **kw)
    if not obs.check(isinstance(r, pd.DataFrame) and len(r) == rows["n"], "RelionMotl.create_relion_df", "export-shape", lambda: f"{type(r).__name__} with {len(r)} rows for {rows['n']} particles"):
        obs.outcome = ("bad-shape",)
        return
    table = _df_table(r)
    judge_export(obs, "RelionMotl.create_relion_df", "export", table, rows, ver, fmt, TOL_POS_MEM, TOL_ROT_MEM)
    obs.outcome = _digest(*[np.asarray(table.get(l, [0.0]), dtype=float) for l in COORD + ANGLES], tuple(map(str, table.get(names_of(ver)[1], []))))


def ex_export_file(case, obs):
    from cryocat import cryomotl as cm

    (ver, px, fmt, binning, where, optics), chunk, seed = case
    rows = take(pool("motl", seed), chunk)
    obs.nontrivial = _nontrivial_motl(rows)
    tf, sf = FORMATS[fmt][:2]
    path = "c03_out.star"
    if where == "ctor":
        m = obs.lib("RelionMotl(motl_df)", cm.RelionMotl, motl_df(rows), **_ctor_kw(ver, px, binning))
        _lib(obs, "RelionMotl.write_out", _export_tag(ver, binning), m.write_out, path, write_optics=optics, tomo_format=tf, subtomo_format=sf)
    else:
        m = obs.lib("RelionMotl(motl_df)", cm.RelionMotl, motl_df(rows))
        kw = {} if binning == "default" else {"binning": binning}
        _lib(obs, "RelionMotl.write_out", _export_tag(ver, binning), m.write_out, path, write_optics=optics, tomo_format=tf, subtomo_format=sf, version=ver, pixel_size=px, **kw)
    table = judge_relion_file(obs, "RelionMotl.write_out", path, rows, ver, fmt, optics)
    with open(path, "rb") as f:
        obs.outcome = hashlib.blake2b(f.read(), digest_size=8).hexdigest()


def ex_roundtrip(case, obs):
    """export followed by import, in memory (via='mem') or through a STAR file (via='file')."""
    from cryocat import cryomotl as cm

    (ver, px, fmt, optics, via, back), chunk, seed = case
    rows = take(pool("motl", seed), chunk)
    obs.nontrivial = _nontrivial_motl(rows)
    tf, sf = FORMATS[fmt][:2]
    m = obs.lib("RelionMotl(motl_df)", cm.RelionMotl, motl_df(rows), version=ver, pixel_size=px, binning=1.0)
    # how the second object learns version / pixel size: nothing given (auto-detection) or the same arguments again
    kw = {} if back == "auto" else {"version": ver, "pixel_size": px, "binning": 1.0}
    if via == "mem":
        r = obs.lib("RelionMotl.create_relion_df", m.create_relion_df, tomo_format=tf, subtomo_format=sf)
        m2 = obs.lib("RelionMotl(relion_df)", cm.RelionMotl, r, **kw)
        site, tp, tr = "RelionMotl(relion_df)", TOL_POS_MEM, TOL_ROT_MEM
    else:
        path = "c03_rt.star"
        obs.lib("RelionMotl.write_out", m.write_out, path, write_optics=optics, tomo_format=tf, subtomo_format=sf)
        m2 = obs.lib("RelionMotl(path)", cm.RelionMotl, path, **kw)
        site, tp, tr = "RelionMotl(path)", TOL_RT_POS_FILE, TOL_ROT_FILE
    judge_roundtrip(obs, site, "roundtrip", m2.df, rows, tp, tr, reimportable=fmt not in NOT_REIMPORTABLE)
    d = m2.df
    obs.outcome = _digest(*[np.asarray(d[c], dtype=float) for c in ("x", "y", "z", "phi", "theta", "psi", "subtomo_id", "geom3")]) if set(COLS) <= set(d.columns) else ("bad",)


# =================================================================================================
# directions: import of independently written RELION data

IMPORT_DEFAULT = {"names": "fmt", "half": "consistent", "order": "canonical", "verarg": "none", "extra": "no", "rowindex": "default"}
IMPORT_DEVIATIONS = [
    ("names", "num"), ("names", "notomo"), ("names", "padded"),
    ("half", "none"), ("half", "inconsistent"), ("half", "single1"), ("half", "single2"),
    ("order", "reversed"), ("verarg", "given"), ("extra", "yes"),
    # the RELION table handed over in memory with row labels that are not 0..N-1 (after sort_values / a boolean selection)
    ("rowindex", "reversed"), ("rowindex", "gapped"),
]


def pxsrc_for(ver):
    if ver == 3.0:
        return ["arg", "column"]
    if ver == 3.1:
        return ["arg", "column", "optics", "optics2", "optics2rev"]
    return ["arg", "optics", "optics2", "optics2rev"]


def relion_input(rows, ver, px, pxsrc, opt):
    """Independent RELION table: returns (labels, columns{label: list}, optics (labels, rows) or None, expectation dict)."""
    n = rows["n"]
    tomo_l, sub_l, origin_l, bname = names_of(ver)
    t = rows["tomo"].astype(int)
    s = rows["sub"].astype(int)
    cols = {}
    for k, l in enumerate(COORD):
        cols[l] = [float(f"{v:.6f}") for v in rows["coord"][:, k]]
    for l, key in zip(ANGLES, ("rot", "tilt", "psi")):
        cols[l] = [float(f"{v:.6f}") for v in rows[key]]
    for k, l in enumerate(origin_l):
        cols[l] = [float(f"{v:.6f}") for v in rows["origin"][:, k]]
    names = opt["names"]
    if names == "num":
        cols[tomo_l] = [int(v) for v in t]
        cols[sub_l] = [int(v) for v in s]
    else:
        pad = 5 if names == "padded" else 0
        if ver >= 4.0:
            tn = [f"TS_{a:02d}" for a in t]
            sn = [f"TS_{a:02d}/{b:0{pad}d}" if pad else f"TS_{a:02d}/{b}" for a, b in zip(t, s)]
        else:
            tn = [f"/data2/tomos7/{a:04d}_10.8A.mrc" for a in t]
            sn = [f"/data2/sub3/{a:04d}/{a:04d}_{b:0{pad}d}_10.8A.mrc" if pad else f"/data2/sub3/{a:04d}/{a:04d}_{b}_10.8A.mrc" for a, b in zip(t, s)]
        if names != "notomo":
            cols[tomo_l] = tn
        cols[sub_l] = sn
    cols["rlnClassNumber"] = [int(v) for v in rows["cls"]]
    half = None
    if opt["half"] == "consistent":
        half = np.where(rows["sub"] % 2 == 1, 1.0, 2.0)
    elif opt["half"] == "inconsistent":
        # both values, unrelated to the parity of the subtomogram numbers (rows 0,1,1,0,0,1,1,...)
        half = np.where(((np.arange(n) + 1) // 2) % 2 == 0, 1.0, 2.0)
        if n >= 2 and len(set(half.tolist())) < 2:
            half[-1] = 3.0 - half[0]
    elif opt["half"] == "single1":
        half = np.full(n, 1.0)
    elif opt["half"] == "single2":
        half = np.full(n, 2.0)
    if half is not None:
        cols["rlnRandomSubset"] = [int(v) for v in half]
    optics = None
    px_row = np.full(n, float(px))
    if pxsrc == "column":
        cols["rlnPixelSize"] = [float(px)] * n
    elif pxsrc in ("optics", "optics2", "optics2rev"):
        if pxsrc == "optics":
            grp = np.ones(n, dtype=int)
            pxs = [float(px)]
        else:
            grp = (np.arange(n) % 2) + 1 if n > 1 else np.array([2])
            pxs = [float(px), float(px) * 1.6]
            px_row = np.where(grp == 1, pxs[0], pxs[1])
        cols["rlnOpticsGroup"] = [int(v) for v in grp]
        olabels = ["rlnOpticsGroup", "rlnOpticsGroupName", "rlnSphericalAberration", "rlnVoltage", "rlnImagePixelSize", "rlnImageSize", "rlnImageDimensionality"]
        orows = [[k + 1, f"opticsGroup{k + 1}", 2.7, 300.0, p, 64, 3] for k, p in enumerate(pxs)]
        if pxsrc == "optics2rev":
            orows = orows[::-1]  # the optics table lists group 2 before group 1: groups are matched by number, not by row
        optics = (olabels, orows)
    if opt["extra"] == "yes":
        cols["rlnCtfImage"] = [f"/data2/ctf/{a:04d}_{b}_ctf.mrc" for a, b in zip(t, s)]
        cols["rlnMaxValueProbDistribution"] = [round(0.01 + 0.9 * i / max(1, n), 6) for i in range(n)]
    labels = list(cols)
    if opt["order"] == "reversed":
        labels = labels[::-1]
    coord = np.stack([np.array(cols[l]) for l in COORD], axis=1)
    origin = np.stack([np.array(cols[l]) for l in origin_l], axis=1)
    angst = ver >= 3.1
    exp = {
        "n": n, "coord": coord, "shift": -origin / (px_row[:, None] if angst else 1.0), "angst": angst,
        "rot": np.array(cols[ANGLES[0]]), "tilt": np.array(cols[ANGLES[1]]), "psi": np.array(cols[ANGLES[2]]),
        "tomo": rows["tomo"], "cls": rows["cls"], "sub": rows["sub"], "half": half,
        "half_cls": "half-" + (opt["half"] if half is None or len(set(half.tolist())) > 1 else "single-value"), "name_cls": "names-" + names,
        "shift_cls": f"v{ver}-px-from-{pxsrc}",
    }
    exp["M"] = relion_mats(exp["rot"], exp["tilt"], exp["psi"])
    return labels, cols, optics, bname, exp


def _tok(v):
    if isinstance(v, (int, np.integer)):
        return str(int(v))
    if isinstance(v, float):
        return f"{v:.6f}"
    return str(v)


def relion_text(labels, cols, optics, bname):
    blocks = []
    if optics is not None:
        blocks.append(("data_optics", optics[0], [[_tok(v) for v in r] for r in optics[1]]))
    n = len(cols[labels[0]])
    blocks.append((bname, labels, [[_tok(cols[l][i]) for l in labels] for i in range(n)]))
    return star_text(blocks)


def relion_frames(labels, cols, optics):
    df = pd.DataFrame({l: (np.array(cols[l], dtype=float) if isinstance(cols[l][0], float) else cols[l]) for l in labels}, columns=labels)
    odf = None
    if optics is not None:
        odf = pd.DataFrame(optics[1], columns=optics[0])
    return df, odf


def ex_import(case, obs):
    from cryocat import cryomotl as cm

    (ver, px, pxsrc, via, opt_items), chunk, seed = case
    opt = dict(opt_items)
    rows = take(pool("rln", seed), chunk)
    obs.nontrivial = _nontrivial_rln(rows)
    labels, cols, optics, bname, exp = relion_input(rows, ver, px, pxsrc, opt)
    kw = {}
    if pxsrc == "arg":
        kw["pixel_size"] = px
    if opt["verarg"] == "given" or (via == "df" and ver == 3.0 and opt["names"] == "notomo"):
        # a bare 3.0 table without rlnMicrographName does not identify its version by the documented rule: say it
        kw["version"] = ver
    if via == "file":
        text = relion_text(labels, cols, optics, bname)
        # the text I wrote must read back as what I meant (writer/tokenizer cross-check)
        chk = star_parse(text)
        assert [b["name"] for b in chk][-1] == bname and len(chk[-1]["rows"]) == rows["n"] and chk[-1]["labels"] == labels
        with open("c03_in.star", "w") as f:
            f.write(text)
        site = "RelionMotl(path)"
        m = _lib(obs, site, "optics-2-groups" if pxsrc.startswith("optics2") else "", cm.RelionMotl, "c03_in.star", **kw)
    else:
        df, odf = relion_frames(labels, cols, optics)
        if opt.get("rowindex", "default") != "default" and len(df):
            n_ = len(df)
            df.index = list(range(n_ - 1, -1, -1)) if opt["rowindex"] == "reversed" else [3 * i + 2 for i in range(n_)]
        if odf is not None:
            kw["optics_data"] = odf
        site = "RelionMotl(relion_df)"
        m = _lib(obs, site, "optics-2-groups" if pxsrc.startswith("optics2") else "", cm.RelionMotl, df, **kw)
    judge_import(obs, site, "import", m.df, exp, TOL_POS_MEM, TOL_ROT_MEM)
    d = m.df
    obs.outcome = _digest(*[np.asarray(d[c], dtype=float) for c in ("x", "shift_x", "shift_z", "phi", "theta", "psi", "subtomo_id", "geom3", "tomo_id")]) if set(COLS) <= set(d.columns) else ("bad",)


# =================================================================================================
# directions: the four helper functions

SG_COLUMNS = ["motl_idx", "tomo_num", "object", "subtomo_num", "halfset", "orig_x", "orig_y", "orig_z", "score", "x_shift", "y_shift", "z_shift", "phi", "psi", "the", "class"]


def stopgap_text(rows):
    """Independent STOPGAP motivelist (documented column order, un-numbered labels)."""
    n = rows["n"]
    out = []
    for i in range(n):
        s = int(rows["sub"][i])
        out.append([str(s), str(int(rows["tomo"][i])), str(i + 1), str(s), "A" if s % 2 == 0 else "B",
                    _tok(float(rows["pos"][i, 0])), _tok(float(rows["pos"][i, 1])), _tok(float(rows["pos"][i, 2])), _tok(0.25),
                    _tok(float(rows["shift"][i, 0])), _tok(float(rows["shift"][i, 1])), _tok(float(rows["shift"][i, 2])),
                    _tok(float(rows["phi"][i])), _tok(float(rows["psi"][i])), _tok(float(rows["theta"][i])), str(int(rows["cls"][i]))])
    return star_text([("data_stopgap_motivelist", SG_COLUMNS, out)], numbered=False)


def _round_rows(rows):
    """the particles as they stand in a 6-decimal text."""
    r = dict(rows)
    r["pos"] = np.round(rows["pos"], 6)
    r["shift"] = np.round(rows["shift"], 6)
    for k in ("phi", "theta", "psi"):
        r[k] = np.round(rows[k], 6)
    r["R"] = zxz_mats(r["phi"], r["theta"], r["psi"])
    return r


def _judge_motl_pose(obs, site, pfx, mdf, rows, tol_pos, tol_rot):
    """a cryoCAT table must hold the particles `rows` (complete position, rotation, ids)."""
    n = rows["n"]
    if not obs.check(isinstance(mdf, pd.DataFrame) and len(mdf) == n and set(COLS) <= set(mdf.columns), site, pfx + "-shape", lambda: f"{len(mdf)} rows for {n}"):
        return
    g = {c: np.asarray(mdf[c], dtype=float) for c in COLS}
    tot = np.stack([g["x"] + g["shift_x"], g["y"] + g["shift_y"], g["z"] + g["shift_z"]], axis=1)
    want = rows["pos"] + rows["shift"]
    ok = np.abs(tot - want) <= tol_pos
    obs.check(ok.all(), site, pfx + "-position", lambda: f"row {_first_bad(ok.all(axis=1))}: x+shift {tot[_first_bad(ok.all(axis=1))].tolist()} expected {want[_first_bad(ok.all(axis=1))].tolist()}")
    err = same_err(zxz_mats(g["phi"], g["theta"], g["psi"]), rows["R"])
    obs.check(bool((err <= tol_rot).all()), site, pfx + "-rotation", lambda: f"row {int(np.argmax(err))}: |dR|={err.max():.3g}")
    obs.check(bool((g["tomo_id"] == rows["tomo"]).all() and (g["subtomo_id"] == rows["sub"]).all() and (g["class"] == rows["cls"]).all()), site, pfx + "-ids",
              lambda: f"tomo/subtomo/class {g['tomo_id'][:3].tolist()}/{g['subtomo_id'][:3].tolist()}/{g['class'][:3].tolist()}")


def ex_helper_to_relion(case, obs):
    """emmotl2relion / stopgap2relion: input pose -> RELION object (+ file)."""
    from cryocat import cryomotl as cm

    (fn, src, ver, px, fmt, optics, out), chunk, seed = case
    rows = take(pool("motl", seed), chunk)
    obs.nontrivial = _nontrivial_motl(rows)
    tf, sf = FORMATS[fmt][:2]
    tol_p, tol_r = TOL_POS_MEM, TOL_ROT_MEM
    if src == "df":
        inp = motl_df(rows)
        eff = rows
    elif src == "em":
        a = motl_df(rows).to_numpy(dtype=np.float32)  # (n, 20)
        emfmt.write("c03_in.em", a.T.reshape(20, rows["n"], 1))
        inp = "c03_in.em"
        eff = dict(rows)
        eff["pos"] = rows["pos"].astype(np.float32).astype(float)
        eff["shift"] = rows["shift"].astype(np.float32).astype(float)
        for k in ("phi", "theta", "psi"):
            eff[k] = rows[k].astype(np.float32).astype(float)
        eff["R"] = zxz_mats(eff["phi"], eff["theta"], eff["psi"])
        tol_p = 1e-5  # float32 sums
    else:  # independent STOPGAP star file
        with open("c03_in_sg.star", "w") as f:
            f.write(stopgap_text(rows))
        inp = "c03_in_sg.star"
        eff = _round_rows(rows)
    path = "c03_h.star" if out else None
    f = getattr(cm, fn)
    m = obs.lib(fn, f, inp, path, tomo_format=tf, subtomo_format=sf, relion_version=ver, pixel_size=px, binning=1.0, write_optics=optics)
    obs.check(isinstance(m, cm.RelionMotl), fn, "helper-returns-relionmotl", f"returned {type(m).__name__}")
    _judge_motl_pose(obs, fn, "helper", m.df, eff, tol_p, tol_r)
    if out:
        judge_relion_file(obs, fn, path, eff, ver, fmt, optics)
    # the returned object must export the same particles (version / pixel size were given to the helper)
    r = obs.lib("RelionMotl.create_relion_df", m.create_relion_df, tomo_format=tf, subtomo_format=sf)
    judge_export(obs, fn, "helper-export", _df_table(r), eff, ver, fmt, max(tol_p, TOL_POS_MEM), tol_r)
    obs.outcome = _digest(*[np.asarray(r[c], dtype=float) for c in COORD + ANGLES if c in r.columns])


def ex_helper_from_relion(case, obs):
    """relion2emmotl / relion2stopgap: independent RELION input -> cryoCAT pose (+ file)."""
    from cryocat import cryomotl as cm

    (fn, via, ver, px, pxsrc, update, out), chunk, seed = case
    rows = take(pool("rln", seed), chunk)
    obs.nontrivial = _nontrivial_rln(rows)
    opt = dict(IMPORT_DEFAULT)
    labels, cols, optics, bname, exp = relion_input(rows, ver, px, pxsrc, opt)
    if via == "file":
        with open("c03_hin.star", "w") as f:
            f.write(relion_text(labels, cols, optics, bname))
        inp = "c03_hin.star"
    else:
        inp, _ = relion_frames(labels, cols, optics)
    if fn == "relion2emmotl":
        path = "c03_h.em" if out else None
        kw = {"pixel_size": px} if pxsrc == "arg" else {}
        m = obs.lib(fn, cm.relion2emmotl, inp, path, update_coordinates=update, **kw)
        obs.check(isinstance(m, cm.EmMotl), fn, "helper-returns-emmotl", f"returned {type(m).__name__}")
    else:
        path = "c03_h_sg.star" if out else None
        m = obs.lib(fn, cm.relion2stopgap, inp, path, update_coordinates=update)
        obs.check(isinstance(m, cm.StopgapMotl), fn, "helper-returns-stopgapmotl", f"returned {type(m).__name__}")
    judge_import(obs, fn, "helper-import", m.df, exp, TOL_POS_MEM, TOL_ROT_MEM, split=not update)
    d = m.df
    if out and set(COLS) <= set(d.columns) and len(d) == rows["n"]:
        g = {c: np.asarray(d[c], dtype=float) for c in COLS}
        if fn == "relion2emmotl":
            try:
                em = emfmt.parse(path)
                ok = (em["nx"], em["ny"], em["nz"]) == (20, rows["n"], 1)
                disk = np.asarray(em["flat"], dtype=float).reshape(rows["n"], 20) if ok else None
            except (OSError, emfmt.EMError) as e:
                ok, disk = False, None
            obs.check(ok, fn, "helper-em-file", "EM file missing / wrong dims")
            if ok:
                want = np.nan_to_num(d[COLS].to_numpy(dtype=float)).astype(np.float32).astype(float)
                obs.check(bool(np.array_equal(disk, want)), fn, "helper-em-values", "EM file differs from float32 of the returned table")
        else:
            blocks = _read_star(obs, fn, path)
            sg = [b for b in (blocks or []) if b["name"] == "data_stopgap_motivelist"]
            if obs.check(len(sg) == 1 and len(sg[0]["rows"]) == rows["n"], fn, "helper-sg-file", f"blocks {[b['name'] for b in (blocks or [])]}"):
                t = _block_table(sg[0])
                try:
                    tot = np.stack([np.array(t["orig_" + a], dtype=float) + np.array(t[a + "_shift"], dtype=float) for a in "xyz"], axis=1)
                    ang = [np.array(t[k], dtype=float) for k in ("phi", "the", "psi")]
                    ids = (np.array(t["tomo_num"], dtype=float), np.array(t["class"], dtype=float))
                except (KeyError, ValueError) as e:
                    obs.check(False, fn, "helper-sg-columns", f"{type(e).__name__}: {e}")
                else:
                    want = exp["coord"] + exp["shift"]
                    obs.check(bool((np.abs(tot - want) <= 4 * TOL_POS_FILE).all()), fn, "helper-sg-position", lambda: f"orig+shift {tot[0].tolist()} expected {want[0].tolist()}")
                    err = inv_err(exp["M"], zxz_mats(*ang))
                    obs.check(bool((err <= TOL_ROT_FILE).all()), fn, "helper-sg-rotation-inverse", lambda: f"|M*R-I| max {err.max():.3g}")
                    obs.check(bool((ids[0] == exp["tomo"]).all() and (ids[1] == exp["cls"]).all()), fn, "helper-sg-ids", "tomo_num / class differ")
    obs.outcome = _digest(*[np.asarray(d[c], dtype=float) for c in ("x", "shift_x", "phi", "theta", "psi", "geom3")]) if set(COLS) <= set(d.columns) else ("bad",)


# =================================================================================================
# spaces

VERSIONS = [3.1, 3.0, 4.0]


def _cfgs_export(tier, with_optics, where):
    pxs = [1.0, 2.5] if tier == "quick" else [1.0, 2.5, 0.8375]
    out = []
    for where in (where,):
        for ver in VERSIONS:
            for px in pxs:
                for fmt in formats_for(ver, tier):
                    for binning in (1.0, "default"):
                        if where == "call" and (fmt.endswith("tomo") or fmt.endswith("sub") or px == 1.0):
                            continue  # the 'arguments at the call' variant runs on a reduced configuration set
                        if with_optics:
                            for optics in ([False, True] if ver >= 3.1 else [False]):
                                out.append((ver, px, fmt, binning, where, optics))
                        else:
                            out.append((ver, px, fmt, binning, where))
    return out


def _cfgs_roundtrip(tier):
    pxs = [1.0, 2.5] if tier == "quick" else [1.0, 2.5, 0.8375]
    out = []
    for via in ("mem", "file"):
        for ver in VERSIONS:
            for px in pxs:
                for fmt in formats_for(ver, tier):
                    for optics in ([False, True] if (ver >= 3.1 and via == "file") else [False]):
                        for back in ("auto", "args"):
                            out.append((ver, px, fmt, optics, via, back))
    return out


def _cfgs_import(tier):
    pxs = [1.0, 2.5] if tier == "quick" else [1.0, 2.5, 0.8375]
    base = tuple(sorted(IMPORT_DEFAULT.items()))
    out = []
    # full product of the core dimensions with the default styles
    for ver in VERSIONS:
        for px in pxs:
            for pxsrc in pxsrc_for(ver):
                for via in ("file", "df"):
                    out.append((ver, px, pxsrc, via, base))
    # deviation-bounded neighbourhood of the default styles: 1 deviation (quick), 2 deviations (thorough)
    devs = [(d,) for d in IMPORT_DEVIATIONS]
    if tier != "quick":
        devs += [(a, b) for i, a in enumerate(IMPORT_DEVIATIONS) for b in IMPORT_DEVIATIONS[i + 1:] if a[0] != b[0]]
    for dv in devs:
        o = dict(IMPORT_DEFAULT)
        o.update(dict(dv))
        items = tuple(sorted(o.items()))
        for ver in VERSIONS:
            for via in ("file", "df"):
                srcs = pxsrc_for(ver)[:2] if tier == "quick" else pxsrc_for(ver)
                for pxsrc in srcs:
                    out.append((ver, 2.5, pxsrc, via, items))
    return out


def _cfgs_helper_to(tier):
    out = []
    for fn, srcs in (("emmotl2relion", ("df", "em")), ("stopgap2relion", ("sg", "df"))):
        for src in srcs:
            for ver in VERSIONS:
                for px in (2.5,) if tier == "quick" else (1.0, 2.5):
                    for fmt in (formats_for(ver, "quick")[3], formats_for(ver, "quick")[0]):
                        for optics, outp in ((False, False), (False, True)) + (((True, True),) if ver >= 3.1 else ()):
                            out.append((fn, src, ver, px, fmt, optics, outp))
    return out


def _cfgs_helper_from(tier):
    out = []
    for fn in ("relion2emmotl", "relion2stopgap"):
        for via in ("file", "df"):
            for ver in VERSIONS:
                for pxsrc in pxsrc_for(ver):
                    if pxsrc.startswith("optics2"):
                        continue
                    if fn == "relion2stopgap" and pxsrc == "arg" and ver >= 3.1:
                        continue  # relion2stopgap has no pixel-size argument: the size must come from the data
                    if via == "df" and pxsrc == "optics":
                        continue  # the helpers cannot be handed an optics table next to a particle table
                    for update in (False, True):
                        for outp in (False, True):
                            out.append((fn, via, ver, 2.5, pxsrc, update, outp))
    return out


def _space(cfgs, chunks, seed):
    return Mapped(Product(Listed(chunks), Listed(cfgs)), lambda c: (c[1], c[0], seed))


def _describe(fields):
    def d(case):
        cfg, chunk, seed = case
        out = {}
        for k, v in zip(fields, cfg):
            out[k] = dict(v) if k == "style" else v
        out["chunk"] = list(chunk)
        return out
    return d


def families(tier, seed):
    pm = pool("motl", seed)
    pr = pool("rln", seed)
    ch_m = chunks_for(pm["n"], tier)
    ch_r = chunks_for(pr["n"], tier)
    # helper functions: fewer chunkings (they wrap the constructors explored above)
    small = [c for c in ch_m if c[0] != "blk"][:: (2 if tier == "quick" else 6)] + [c for c in ch_m if c[0] == "blk" and c[2] - c[1] > 97 or c[0] == "blk" and tier == "quick"]
    small_r = [c for c in ch_r if c[0] != "blk"][:: (2 if tier == "quick" else 6)] + [c for c in ch_r if c[0] == "blk" and c[2] - c[1] > 97 or c[0] == "blk" and tier == "quick"]
    exp_common = ("-coordinate", "-origin-zero", "-angles-inverse", "-tomo-name", "-subtomo-name", "-class", "-halfset")
    fams = _families(tier, seed, pm, pr, ch_m, ch_r, small, small_r, exp_common)
    from ..motlgen import with_row_index_kinds
    byname = {f.name: f for f in fams}
    # particle tables whose row labels are not 0..n-1 (sorted / filtered lists): plain and formatted names, in memory and via file
    sel = lambda c: c[0][2].endswith(("plain", "both")) and c[0][1] == 2.5 and c[0][3] == 1.0   # noqa: E731
    fams.append(with_row_index_kinds(byname["export-memory"], select=sel, kinds=("gapped", "reversed"), expect=("export-tomo-name", "export-coordinate")))
    fams.append(with_row_index_kinds(byname["export-file"], select=sel, kinds=("gapped", "reversed"), expect=("file-tomo-name", "file-coordinate")))
    fams.append(with_row_index_kinds(byname["roundtrip"], select=lambda c: c[0][2].endswith(("plain", "both")) and c[0][1] == 2.5 and c[0][5] == "auto",
                                     kinds=("gapped", "reversed"), expect=("roundtrip-tomo", "roundtrip-position")))
    return fams


def _families(tier, seed, pm, pr, ch_m, ch_r, small, small_r, exp_common):
    return [
        Family("export-memory", _space(_cfgs_export(tier, False, "ctor"), ch_m, seed), _guard(ex_export_mem),
               describe=_describe(("version", "pixel_size", "format", "binning", "args_at")),
               expect=tuple("export" + c for c in exp_common)),
        Family("import-independent", _space(_cfgs_import(tier), ch_r, seed), _guard(ex_import),
               describe=_describe(("version", "pixel_size", "pixel_size_from", "via", "style")),
               expect=("import-coordinate", "import-shift", "import-rotation-inverse", "import-tomo", "import-class", "import-geom3", "import-halfset-parity")),
        Family("roundtrip", _space(_cfgs_roundtrip(tier), ch_m, seed), ex_roundtrip,
               describe=_describe(("version", "pixel_size", "format", "optics", "via", "second_object_args")),
               expect=("roundtrip-position", "roundtrip-rotation", "roundtrip-tomo", "roundtrip-geom3", "roundtrip-class", "roundtrip-halfset-parity")),
        Family("export-file", _space(_cfgs_export(tier, True, "ctor"), ch_m, seed), _guard(ex_export_file),
               describe=_describe(("version", "pixel_size", "format", "binning", "args_at", "optics")),
               expect=("file-blocks",) + tuple("file" + c for c in exp_common)),
        # version / pixel size / binning handed to create_relion_df / write_out instead of the constructor
        Family("export-memory-callargs", _space(_cfgs_export(tier, False, "call"), ch_m, seed), _guard(ex_export_mem),
               describe=_describe(("version", "pixel_size", "format", "binning", "args_at")),
               expect=tuple("export" + c for c in exp_common)),
        Family("export-file-callargs", _space(_cfgs_export(tier, True, "call"), ch_m, seed), _guard(ex_export_file),
               describe=_describe(("version", "pixel_size", "format", "binning", "args_at", "optics")),
               expect=("file-blocks",) + tuple("file" + c for c in exp_common)),
        Family("helpers-to-relion", _space(_cfgs_helper_to(tier), small, seed), ex_helper_to_relion,
               describe=_describe(("function", "input", "version", "pixel_size", "format", "optics", "write")),
               expect=("helper-position", "helper-rotation", "helper-export-angles-inverse", "file-angles-inverse")),
        Family("helpers-from-relion", _space(_cfgs_helper_from(tier), small_r, seed), ex_helper_from_relion,
               describe=_describe(("function", "via", "version", "pixel_size", "pixel_size_from", "update_coordinates", "write")),
               expect=("helper-import-coordinate", "helper-import-shift", "helper-import-rotation-inverse", "helper-import-position", "helper-sg-rotation-inverse", "helper-em-values")),
    ]
