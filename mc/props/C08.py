"""C08 — particle-list set algebra and identifier discipline (history property, explicit-state BFS)."""
import collections

import numpy as np

from ..bfs import BFSFamily, BFSSpec
from ..motlgen import COLS, frame, df_key

RULE = (
    "explicit-state BFS: a state is a live Motl (plus the merge budget); a transition applies one real Motl method "
    "instance from a 33-instance alphabet and compares the result with a pure-Python row-set model computed from the "
    "pre-state rows; states are de-duplicated on the complete observable DataFrame state (cell bits, row order, index "
    "labels, column order, dtypes, class).  Non-trivial transition = the operation changed the row set, the ids or the "
    "hidden state (key differs from the parent's)."
)
BOUNDS = {
    "quick": "family A: 35 merge-free op instances, all histories of depth <= 4 from 5 initial lists (de-duplicated); family B: histories with one merge (7 merge instances incl. 3-input merges) after <=1 merge-free step, followed by <=1 more step",
    "thorough": "family A: BFS to the fixpoint (measured: 49 363 states, 1.38M transitions, closes at depth 15); family B: histories of <= 4 operations with <= 2 merges, first merge after <= 2 merge-free steps",
}
ASSUMPTIONS = [
    "NaN and 0.0 are the same 'missing' value when comparing payload fields (EmMotl constructors fill NaN with 0.0, cf. C01)",
    "operations on a feature column that holds a missing value in the current list are not enabled (statement does not define them)",
    "row order is judged only where the statement fixes it (subset: grouped by requested value, original order inside)",
]
BUDGET_S = {"quick": 420, "thorough": 3000}

ID_FIELDS = ("subtomo_id", "object_id")
PAYLOAD = [c for c in COLS if c not in ID_FIELDS]


def _row(tag, sid, tomo, obj, cls, score, geom1=None, **kw):
    r = {
        "score": score, "geom1": 0.5 + tag * 0.25 if geom1 is None else geom1, "geom2": 100 + tag, "subtomo_id": sid, "tomo_id": tomo,
        "object_id": obj, "subtomo_mean": 0.125 * tag, "x": 10 + tag, "y": 20 - tag, "z": 3 * tag, "shift_x": 0.1 * tag,
        "shift_y": -0.2 * tag, "shift_z": 0.3, "geom3": 1000 + tag, "geom4": tag, "geom5": -tag, "phi": 10.0 * tag,
        "psi": -5.0 * tag, "theta": 7.5 * tag, "class": cls,
    }
    r.update(kw)
    return r


def initial_lists(seed):
    s = 0.001 * seed  # seed only perturbs payload numbers, never structure
    L = collections.OrderedDict()
    L["empty"] = []
    L["unsorted4"] = [
        _row(1, 7, 1, 1, 1, 0.9 + s), _row(2, 2, 1, 2, 2, 0.4 + s), _row(3, 10, 2, 1, 1, 0.7 + s), _row(4, 3, 2, 1, 2, 0.1 + s),
    ]
    L["dupids5"] = [
        _row(11, 4, 1, 1, 1, 0.5 + s), _row(12, 4, 1, 2, 1, 0.5 + s), _row(13, 9, 2, 2, 2, 0.2 + s), _row(14, 9, 1, 1, 2, 0.8 + s),
        _row(15, 5, 2, 1, 1, 0.3 + s),
    ]
    L["grid6nan"] = [
        _row(21, 31, 1, 1, 1, 0.6 + s), _row(22, 32, 1, 2, 1, 0.5 + s), _row(23, 33, 1, 3, 2, 0.4 + s, shift_y=float("nan")),
        _row(24, 34, 2, 1, 2, 0.3 + s), _row(25, 35, 2, 2, 1, 0.2 + s), _row(26, 36, 2, 3, 1, 0.1 + s),
    ]
    L["objzero3"] = [_row(31, 1, 1, 0, 1, 0.15 + s), _row(32, 2, 1, 0, 2, 0.25 + s), _row(33, 3, 2, 1, 1, 0.35 + s)]
    return L


def operand_A(seed):
    s = 0.001 * seed
    return [_row(41, 2, 1, 1, 1, 0.45 + s), _row(42, 4, 3, 1, 2, 0.95 + s), _row(43, 11, 1, 2, 1, 0.05 + s)]


def operand_B(seed):
    s = 0.001 * seed
    return [_row(51, 3, 2, 1, 1, 0.65 + s), _row(52, 3, 2, 2, 2, 0.05 + s), _row(53, 9, 1, 1, 1, 0.55 + s), _row(54, 12, 2, 4, 1, 0.75 + s)]


MERGE_FREE = (
    [("subset", f, v) for f, v in [
        ("tomo_id", 1.0), ("tomo_id", (1.0, 2.0)), ("tomo_id", (2.0, 1.0)), ("tomo_id", 9.0), ("object_id", 1.0),
        ("object_id", (2.0, 1.0)), ("class", 1.0), ("class", (2.0, 1.0)), ("geom1", 1.25), ("score", (0.5, 0.4))]]
    + [("remove", f, v) for f, v in [("tomo_id", 1.0), ("tomo_id", (1.0, 2.0)), ("object_id", (2.0,)), ("class", 1.0), ("class", 9.0), ("geom1", (3.5, 1.0)), ("subtomo_id", 36.0)]]
    + [("split", f, i) for f, i in [("tomo_id", 0), ("tomo_id", 1), ("object_id", 0), ("object_id", 1), ("class", 0), ("geom1", 1), ("score", 0)]]
    + [("intersect", "A", "subtomo_id"), ("intersect", "B", "subtomo_id"), ("intersect", "A", "tomo_id")]
    + [("dropdup", "subtomo_id", "score", False), ("dropdup", "subtomo_id", "score", True), ("dropdup", "object_id", "geom1", True)]
    + [("renumber_particles",), ("renumber_objects", 1), ("renumber_objects", 5), ("load_copy",)]
)
MERGES = [("merge_renumber", "L,A"), ("merge_renumber", "A,L"), ("merge_renumber", "L"), ("merge_dropdup", "L,B"),
          ("merge_renumber", "L,A,B"), ("merge_renumber", "B,L,A"), ("merge_dropdup", "B,L")]


def canon(v):
    v = float(v)
    return 0.0 if v != v else v + 0.0  # NaN == missing == 0.0; -0.0 -> 0.0


def rows_of(df):
    """rows by field NAME as tuples in COLS order (NaN -> 0.0 canonicalised, -0.0 -> 0.0)."""
    if len(df) == 0:
        return []
    cols = list(df.columns)
    a = df.to_numpy(dtype=float)
    if cols != COLS:
        a = a[:, [cols.index(c) for c in COLS]]
    a = np.where(np.isnan(a), 0.0, a) + 0.0
    return [tuple(r) for r in a.tolist()]


IDX = {c: i for i, c in enumerate(COLS)}


def fld(r, c):
    return r[IDX[c]]


def payload(r):
    return tuple(r[IDX[c]] for c in PAYLOAD)


def sans(r, *drop):
    return tuple(v for c, v in zip(COLS, r) if c not in drop)


class Spec(BFSSpec):
    def __init__(self, seed, ops_pre, pre_depth, post_depth, max_merges, with_merges):
        self.seed = seed
        self.pre_depth = pre_depth
        self.post_depth = post_depth
        self.max_merges = max_merges
        self.with_merges = with_merges
        self.A_rows = operand_A(seed)
        self.B_rows = operand_B(seed)
        self.origin = {}
        for name, rows in list(initial_lists(seed).items()) + [("A", self.A_rows), ("B", self.B_rows)]:
            for r in rows:
                t = tuple(canon(r[c]) for c in COLS)
                self.origin[fld(t, "geom4")] = payload(t)

    # ---- states --------------------------------------------------------------------------------
    def initial(self):
        from cryocat import cryomotl as cm

        out = []
        for name, rows in initial_lists(self.seed).items():
            m = cm.Motl(frame(rows))
            out.append((name, {"m": m, "pre": 0, "post": None, "merges": 0}))
        return out

    def operand(self, which):
        from cryocat import cryomotl as cm
        import pickle

        if not hasattr(self, "_opcache"):
            self._opcache = {}
        if which not in self._opcache:
            self._opcache[which] = pickle.dumps(cm.Motl(frame(self.A_rows if which == "A" else self.B_rows)))
        return pickle.loads(self._opcache[which])

    def key(self, st):
        dk = st.get("dk") or df_key(st["m"].df)
        return "|".join([type(st["m"]).__name__, dk, repr((st["pre"] if self.with_merges else 0, st["post"], st["merges"]))])

    def mkey(self, st):
        try:
            return tuple(sorted(st.get("rows") if st.get("rows") is not None else rows_of(st["m"].df)))
        except Exception:  # noqa: BLE001
            return None

    def ops(self, st):
        df = st["m"].df
        nanf = {f for f in ("tomo_id", "object_id", "class", "subtomo_id", "score", "geom1") if f in df.columns and df[f].isna().any()}
        free = []
        for op in MERGE_FREE:
            used = [op[1]] if op[0] in ("subset", "remove", "split") else []
            if op[0] == "intersect":
                used = [op[2]]
            if op[0] == "dropdup":
                used = [op[1], op[2]]
            if op[0] == "renumber_objects":
                used = ["tomo_id", "object_id"]
            if any(u in nanf for u in used):
                continue
            free.append(op)
        if not self.with_merges:
            return free
        out = []
        if st["post"] is None:  # before the first merge
            if st["pre"] < self.pre_depth:
                out += free
            out += MERGES
        else:
            if st["post"] < self.post_depth:
                out += free
                if st["merges"] < self.max_merges:
                    out += MERGES
        return out

    # ---- transitions ---------------------------------------------------------------------------
    def step(self, st, op, obs):
        from cryocat import cryomotl as cm

        m = st["m"]
        P = st.get("rows")
        if P is None:
            P = rows_of(m.df)
        parent_dk = st.get("dk") or df_key(m.df)
        kind = op[0]
        site = {
            "subset": "get_motl_subset", "remove": "remove_feature", "split": "split_by_feature", "intersect": "get_motl_intersection",
            "dropdup": "drop_duplicates", "renumber_particles": "renumber_particles", "renumber_objects": "renumber_objects_sequentially",
            "load_copy": "Motl.load", "merge_renumber": "merge_and_renumber", "merge_dropdup": "merge_and_drop_duplicates",
        }[kind]
        empty = "empty-list" if not P else ""
        new = None
        if kind == "subset":
            f, v = op[1], op[2]
            vals = list(v) if isinstance(v, tuple) else v
            new = obs.lib(site, m.get_motl_subset, vals, f)
            obs.check(df_key(m.df) == parent_dk, site, "inputs-unmodified", "get_motl_subset modified the list it was called on", cls=empty)
            Q = self._rows(new, obs, site)
            if Q is not None:
                vs = list(v) if isinstance(v, tuple) else [v]
                want = [r for x in vs for r in P if fld(r, f) == x]
                obs.check(Q == want, site, "subset-rows-ordered", lambda: f"{op}: got {self._brief(Q)} want {self._brief(want)}", cls=empty)
                # complementarity with removal (differential, on a copy)
                m2 = cm.Motl(m.df.copy())
                obs.lib("remove_feature", m2.remove_feature, f, vs)
                R = self._rows(m2, obs, "remove_feature")
                if R is not None:
                    obs.check(sorted(Q + R) == sorted(P) and not (set(Q) & set(R)), "remove_feature", "remove-select-complementary",
                              lambda: f"{op}: |select|={len(Q)} |remove|={len(R)} |input|={len(P)}", cls=empty)
        elif kind == "remove":
            f, v = op[1], op[2]
            vs = list(v) if isinstance(v, tuple) else [v]
            arg = list(v) if isinstance(v, tuple) else v
            new = m
            obs.lib(site, m.remove_feature, f, arg)
            Q = self._rows(new, obs, site)
            if Q is not None:
                want = [r for r in P if fld(r, f) not in vs]
                obs.check(sorted(Q) == sorted(want), site, "remove-rows", lambda: f"{op}: got {self._brief(Q)} want {self._brief(want)}", cls=empty)
        elif kind == "split":
            f, i = op[1], op[2]
            parts = obs.lib(site, m.split_by_feature, f)
            obs.check(df_key(m.df) == parent_dk, site, "inputs-unmodified", "split_by_feature modified the list it was called on", cls=empty)
            allrows = []
            ok = True
            vals = []
            for p in parts:
                rp = self._rows(p, obs, site)
                if rp is None:
                    ok = False
                    break
                allrows += rp
                vs = {fld(r, f) for r in rp}
                if len(vs) != 1:
                    ok = False
                    obs.fail(site, "split-part-single-value", f"part holds values {sorted(vs)} of {f}", cls=empty)
                vals += list(vs)
            if ok:
                obs.check(sorted(allrows) == sorted(P) and len(set(vals)) == len(vals), site, "split-partition",
                          lambda: f"split({f}): parts hold {len(allrows)} rows of {len(P)}; values {vals}", cls=empty)
            if i < len(parts):
                new = parts[i]
            else:
                return None
        elif kind == "intersect":
            which, f = op[1], op[2]
            O = self.operand(which)
            Orows = rows_of(O.df)
            okey = df_key(O.df)
            new = obs.lib(site, cm.Motl.get_motl_intersection, m, O, f)
            obs.check(df_key(O.df) == okey and df_key(m.df) == parent_dk, site, "inputs-unmodified", "an operand of the intersection was modified in place", cls=empty)
            Q = self._rows(new, obs, site)
            if Q is not None:
                ids = {fld(r, f) for r in Orows}
                want = [r for r in P if fld(r, f) in ids]
                dup_operand = len(ids) != len(Orows)
                obs.check(sorted(Q) == sorted(want), site, "intersection-rows",
                          lambda: f"{op}: got {self._brief(Q)} want {self._brief(want)}",
                          cls="operand-repeats-key" if (dup_operand and len(Q) > len(want)) else empty)
        elif kind == "dropdup":
            dc, sc, asc = op[1], op[2], op[3]
            new = m
            obs.lib(site, m.drop_duplicates, dc, sc, asc)
            Q = self._rows(new, obs, site)
            if Q is not None:
                best = {}
                for r in P:
                    k = fld(r, dc)
                    s = fld(r, sc)
                    if k not in best or (s < best[k] if asc else s > best[k]):
                        best[k] = s
                qids = [fld(r, dc) for r in Q]
                okk = len(set(qids)) == len(qids) and set(qids) == set(best) and all(r in P for r in Q) and all(fld(r, sc) == best[fld(r, dc)] for r in Q)
                obs.check(okk, site, "dropdup-one-best-per-id", lambda: f"{op}: got {self._brief(Q)} from {self._brief(P)}", cls=empty)
        elif kind == "renumber_particles":
            new = m
            obs.lib(site, m.renumber_particles)
            Q = self._rows(new, obs, site)
            if Q is not None:
                obs.check([fld(r, "subtomo_id") for r in Q] == [float(i) for i in range(1, len(P) + 1)], site, "renumber-ids-1..N",
                          lambda: f"ids {[fld(r, 'subtomo_id') for r in Q]}", cls=empty)
                obs.check([sans(r, "subtomo_id") for r in Q] == [sans(r, "subtomo_id") for r in P], site, "renumber-other-fields",
                          "fields other than subtomo_id changed or rows reordered", cls=empty)
        elif kind == "renumber_objects":
            start = op[1]
            new = m
            obs.lib(site, m.renumber_objects_sequentially, start)
            Q = self._rows(new, obs, site)
            if Q is not None:
                a = sorted(P, key=lambda r: sans(r, "object_id"))
                b = sorted(Q, key=lambda r: sans(r, "object_id"))
                same = [sans(r, "object_id") for r in a] == [sans(r, "object_id") for r in b]
                obs.check(same, site, "renumber-objects-other-fields", "fields other than object_id changed (or rows lost)", cls=empty)
                if same and P:
                    # rows with identical other fields are interchangeable only if they shared a group before
                    old = [(fld(r, "tomo_id"), fld(r, "object_id")) for r in a]
                    newg = [fld(r, "object_id") for r in b]
                    fwd, bwd = {}, {}
                    part_ok = True
                    for o, n_ in zip(old, newg):
                        if fwd.setdefault(o, n_) != n_ or bwd.setdefault(n_, o) != o:
                            part_ok = False
                    amb = len({sans(r, "object_id") for r in a}) != len(a)
                    if not amb:
                        obs.check(part_ok, site, "renumber-objects-partition", lambda: f"(tomo,obj)->new {sorted(set(zip(old, newg)))}", cls=empty)
                        G = len(set(old))
                        obs.check(sorted(set(newg)) == [float(start + k) for k in range(G)], site, "renumber-objects-consecutive",
                                  lambda: f"new object numbers {sorted(set(newg))}, expected {start}..{start + G - 1}", cls=empty)
        elif kind == "load_copy":
            new = obs.lib(site, cm.Motl.load, m)
            Q = self._rows(new, obs, site)
            if Q is not None:
                obs.check(Q == P, site, "copy-equal", "copy differs", cls=empty)
        elif kind == "merge_renumber":
            inputs = [m if x == "L" else self.operand(x) for x in op[1].split(",")]
            in_rows = [rows_of(x.df) for x in inputs]
            in_keys = [df_key(x.df) for x in inputs]
            new = obs.lib(site, cm.Motl.merge_and_renumber, inputs)
            obs.check([df_key(x.df) for x in inputs] == in_keys, site, "inputs-unmodified", "a list passed to the merge was modified in place", cls=empty)
            Q = self._rows(new, obs, site)
            if Q is not None:
                cat = [r for rr in in_rows for r in rr]
                N = len(cat)
                obs.check(sorted(fld(r, "subtomo_id") for r in Q) == [float(i) for i in range(1, N + 1)], site, "merge-ids-1..N",
                          lambda: f"ids {[fld(r, 'subtomo_id') for r in Q]} N={N}", cls=empty)
                pos_ok = [payload(r) for r in Q] == [payload(r) for r in cat]
                set_ok = sorted(payload(r) for r in Q) == sorted(payload(r) for r in cat)
                obs.check(set_ok, site, "merge-rows", lambda: f"payload multiset differs: {len(Q)} rows vs {N}", cls=empty)
                if pos_ok and N:
                    groups = []
                    off = 0
                    ok_part = True
                    for rr in in_rows:
                        seg = Q[off:off + len(rr)]
                        off += len(rr)
                        fwd, bwd = {}, {}
                        for a, b in zip(rr, seg):
                            if fwd.setdefault(fld(a, "object_id"), fld(b, "object_id")) != fld(b, "object_id"):
                                ok_part = False
                            if bwd.setdefault(fld(b, "object_id"), fld(a, "object_id")) != fld(a, "object_id"):
                                ok_part = False
                        groups.append(set(fwd.values()))
                    obs.check(ok_part, site, "merge-object-grouping-kept", "an input's object partition was not preserved", cls=empty)
                    disjoint = all(not (groups[i] & groups[j]) for i in range(len(groups)) for j in range(i + 1, len(groups)))
                    obs.check(disjoint, site, "merge-object-numbers-disjoint", lambda: f"object numbers per input {groups}", cls=empty)
        elif kind == "merge_dropdup":
            inputs = [m if x == "L" else self.operand(x) for x in op[1].split(",")]
            in_rows = [rows_of(x.df) for x in inputs]
            in_keys = [df_key(x.df) for x in inputs]
            new = obs.lib(site, cm.Motl.merge_and_drop_duplicates, inputs)
            obs.check([df_key(x.df) for x in inputs] == in_keys, site, "inputs-unmodified", "a list passed to the merge was modified in place", cls=empty)
            Q = self._rows(new, obs, site)
            if Q is not None:
                cat = [r for rr in in_rows for r in rr]
                best = {}
                for r in cat:
                    k, s = fld(r, "subtomo_id"), fld(r, "score")
                    if k not in best or s > best[k]:
                        best[k] = s
                qids = [fld(r, "subtomo_id") for r in Q]
                src = {sans(r, "object_id") for r in cat}
                okk = (len(set(qids)) == len(qids) and set(qids) == set(best) and all(sans(r, "object_id") in src for r in Q)
                       and all(fld(r, "score") == best[fld(r, "subtomo_id")] for r in Q))
                obs.check(okk, site, "merge-dropdup-one-best-per-id", lambda: f"got {self._brief(Q)} from {self._brief(cat)}", cls=empty)
                if okk:
                    # object numbers: rows that can be traced to exactly one input keep that input's grouping, and numbers of
                    # different inputs never collide (the merge shifts them exactly as merge_and_renumber does)
                    origin = {}
                    for j, rr in enumerate(in_rows):
                        for r in rr:
                            origin.setdefault(sans(r, "object_id"), set()).add((j, fld(r, "object_id")))
                    fwd, per_input, ok_part = {}, {}, True
                    for r in Q:
                        cands = origin.get(sans(r, "object_id"), set())
                        if len(cands) != 1:
                            continue
                        (j, old), = cands
                        if fwd.setdefault((j, old), fld(r, "object_id")) != fld(r, "object_id"):
                            ok_part = False
                        per_input.setdefault(j, {}).setdefault(fld(r, "object_id"), set()).add(old)
                    ok_part = ok_part and all(len(v) == 1 for d_ in per_input.values() for v in d_.values())
                    obs.check(ok_part, site, "merge-object-grouping-kept", "an input's object partition was not preserved", cls=empty)
                    gs = [set(d_) for _, d_ in sorted(per_input.items())]
                    disjoint = all(not (gs[i] & gs[k]) for i in range(len(gs)) for k in range(i + 1, len(gs)))
                    obs.check(disjoint, site, "merge-object-numbers-disjoint", lambda: f"object numbers per input {gs}", cls=empty)
        else:
            raise ValueError(op)
        if new is None:
            return None
        nst = {"m": new, "pre": st["pre"], "post": st["post"], "merges": st["merges"]}
        if kind.startswith("merge"):
            nst["post"] = 0 if st["post"] is None else st["post"] + 1
            nst["merges"] = st["merges"] + 1
        elif st["post"] is None:
            nst["pre"] = st["pre"] + 1
        else:
            nst["post"] = st["post"] + 1
        try:
            nst["dk"] = df_key(new.df)
            nst["rows"] = rows_of(new.df) if sorted(new.df.columns) == sorted(COLS) else None
            obs.nontrivial = nst["dk"] != parent_dk or kind in ("split", "load_copy")
        except Exception:  # noqa: BLE001
            obs.nontrivial = True
        return nst

    def _rows(self, motl, obs, site):
        """rows of a result, after the structural invariant (exactly the 20 fields)."""
        df = motl.df
        cols = list(df.columns)
        if sorted(cols) != sorted(COLS):
            missing = sorted(set(COLS) - set(cols))
            extra = sorted(set(cols) - set(COLS))
            obs.check(False, site, "exactly-20-fields", f"missing {missing} extra {extra}")
            return None
        obs.fire("exactly-20-fields")
        return rows_of(df)

    def invariant(self, st, obs):
        df = st["m"].df
        if sorted(df.columns) != sorted(COLS):
            obs.check(False, "state-invariant", "exactly-20-fields", f"columns {list(df.columns)}")
            return
        bad = []
        for r in (st.get("rows") if st.get("rows") is not None else rows_of(df)):
            t = fld(r, "geom4")
            if self.origin.get(t) != payload(r):
                bad.append(t)
        obs.check(not bad, "state-invariant", "payload-unchanged", lambda: f"rows with tags {bad} carry altered payload fields (or unknown tags)")

    @staticmethod
    def _brief(rows):
        return [(fld(r, "geom4"), fld(r, "subtomo_id"), fld(r, "object_id")) for r in rows]


def exec_intersection_sizes(case, obs):
    """Intersection as a set operation at sizes where an implementation may switch strategy: a first list with repeated ids
    (16 rows) against second lists with 1..40 distinct ids, for each id field, both argument orders of the rows."""
    from cryocat import cryomotl as cm

    feature, k, rev, seed = case
    ids1 = [1, 1, 2, 2, 3, 4, 4, 4, 7, 8, 8, 30, 31, 31, 60, 60]
    if rev:
        ids1 = ids1[::-1]
    ids2 = [2 * i + 2 for i in range(k)]            # 2, 4, .., 2k
    ids2 = ids2[1::2] + ids2[0::2][::-1]            # not sorted
    def rows(ids, base):
        out = []
        for p, v in enumerate(ids):
            r = {c: float(base + 10 * p + q) + 0.5 for q, c in enumerate(COLS)}
            r.update({"subtomo_id": float(base + p + 1), "tomo_id": 1.0, "object_id": 1.0, "geom4": float(base + p)})
            r[feature] = float(v)
            out.append(r)
        return out
    r1, r2 = rows(ids1, 1000 + seed), rows(ids2, 5000 + seed)
    m1 = obs.lib("Motl.__init__", cm.Motl, frame(r1))
    m2 = obs.lib("Motl.__init__", cm.Motl, frame(r2))
    k1, k2 = df_key(m1.df), df_key(m2.df)
    res = obs.lib("get_motl_intersection", cm.Motl.get_motl_intersection, m1, m2, feature)
    obs.check(df_key(m1.df) == k1 and df_key(m2.df) == k2, "get_motl_intersection", "inputs-unmodified", "an operand was modified")
    want = [r for r in r1 if r[feature] in set(float(v) for v in ids2)]
    df = getattr(res, "df", None)
    ok = df is not None and sorted(df.columns) == sorted(COLS)
    if obs.check(ok, "get_motl_intersection", "exactly-20-fields", lambda: f"returned {type(res).__name__}"):
        got = sorted(tuple(float(v) for v in row) for row in df[COLS].to_numpy())
        exp = sorted(tuple(float(r[c]) for c in COLS) for r in want)
        obs.check(got == exp, "get_motl_intersection", "intersection-rows",
                  lambda: f"field {feature}: first list ids {ids1}, second list {k} ids {sorted(ids2)}: kept ids {sorted(df[feature].tolist())}, expected {sorted(r[feature] for r in want)}",
                  cls="repeated-ids-in-first-list")
    obs.nontrivial = 0 < len(want) < len(r1)
    obs.outcome = (feature, k, len(df) if ok else -1)


def families(tier, seed):
    fams = _families(tier, seed)
    from ..engine import Family
    from ..space import Mapped, Product
    ks = list(range(1, 41)) if tier == "quick" else list(range(1, 201))
    fams.append(Family("intersection-sizes", Mapped(Product(("subtomo_id", "tomo_id", "object_id", "class"), ks, (False, True)), lambda c: c + (seed,)),
                       exec_intersection_sizes, expect=("intersection-rows", "inputs-unmodified"),
                       describe=lambda c: {"field": c[0], "distinct_ids_in_second_list": c[1], "first_list_reversed": c[2]}))
    return fams


def _families(tier, seed):
    exp_A = ("subset-rows-ordered", "remove-select-complementary", "remove-rows", "split-partition", "intersection-rows",
             "dropdup-one-best-per-id", "renumber-ids-1..N", "renumber-objects-partition", "payload-unchanged", "exactly-20-fields", "inputs-unmodified")
    exp_B = ("merge-ids-1..N", "merge-rows", "merge-object-grouping-kept", "merge-object-numbers-disjoint",
             "merge-dropdup-one-best-per-id", "payload-unchanged", "inputs-unmodified")
    if tier == "quick":
        A = BFSFamily("merge-free-depth4", Spec(seed, MERGE_FREE, 0, 0, 0, with_merges=False), max_depth=4, expect=exp_A)
        B = BFSFamily("one-merge", Spec(seed, MERGE_FREE, 1, 1, 1, with_merges=True), max_depth=3, expect=exp_B)
    else:
        A = BFSFamily("merge-free-fixpoint", Spec(seed, MERGE_FREE, 0, 0, 0, with_merges=False), max_depth=40, expect=exp_A)
        B = BFSFamily("two-merges", Spec(seed, MERGE_FREE, 2, 1, 2, with_merges=True), max_depth=4, expect=exp_B)
    return [A, B]
