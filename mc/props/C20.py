"""C20 — membrane thickness pairs: one-to-one, forward, within range and cone.

Anchors: memthick.measure_thickness_cpu (KD-tree prefilter, proj > 0, cone test), process_matches_cpu2cpu (greedy
one-to-one assignment by distance, voxel scaling) and the numba candidate kernel find_matches_parallel.
The CUDA twin cannot run here (no GPU) and is not claimed.
"""
import itertools
import math

import numpy as np

from ..engine import Family, HarnessError
from ..space import Listed, Mapped, Product, Union
from ..oracles import so3

RULE = (
    "scene = non-empty subset (<= 3) of the source sites on the sheet z ~ 0 x one normal per chosen source from the normal "
    "palette (all assignments) x non-empty subset (<= 3) of the target sites near z ~ 3 (one behind the source sheet); "
    "crossed with max_angle x (max_thickness_nm, voxel) x presentation (direction, which mask holds the sources, index "
    "layout, unlabelled decoy point).  Every scene is generic by construction (proved by brute force when the palette is "
    "built: no angle within 1e-3 deg of a cone limit, no distance within 1e-6 of a range, no two source-target distances "
    "within 1e-6, no |projection| < 1e-6).  Non-trivial = the scene contains both an admissible and an inadmissible "
    "(source, target) pair; distinct = distinct case descriptions."
)
BOUNDS = {
    "quick": "3 source sites, 5 target sites, 5 normals (215 x 25 = 5375 scenes) x max_angle {1,5,15,30} x 18 (units, presentation) combos; "
             "rigid motions: 1575-scene sub-lattice (normals e_z/10deg/-e_z) with 2 angle/range settings x 26 motions; voxel scaling and direction swap on the same sub-lattice; "
             "numba kernel on all scenes x 4 angles x 4 ranges x both role assignments",
    "thorough": "4 source sites, 6 target sites (670 x 41 = 27470 scenes) x the same alphabets; rigid motions on ALL of those scenes; scaling / swap on their 3-normal sub-lattice (174 x 41)",
}
ASSUMPTIONS = [
    "scenes of 2..8 points (the statement's 20..600-point sheets are not reached; small-scope hypothesis)",
    "unit normals (|n| = 1 to 1 ulp); python-float voxel size; fewer than 25 candidates per source point",
    "distance ties and threshold ties are excluded by construction, so 'greedy by increasing distance' has a unique result",
    "find_matches_parallel is JIT-compiled inside each forked worker on first use (calling it in the parent before the fork would "
    "make the forked workers abort inside GNU OpenMP); NUMBA_NUM_THREADS=1",
    "the CUDA kernel find_all_possible_matches_kernel is not executable here and not covered",
]
BUDGET_S = {"quick": 400, "thorough": 2400}

ALPHAS = [1.0, 5.0, 15.0, 30.0]
RANGES_BASE = [3.5, 5.0]
RANGES_ALL = [1.75, 2.5, 3.5, 5.0, 7.0, 10.0]
# (max_thickness_nm, voxel_size): range in voxels = nm / voxel
UNITS = [(3.5, 1.0), (5.0, 1.0), (1.75, 0.5), (2.5, 0.5), (3.5, 0.5), (7.0, 2.0), (5.0, 2.0)]
ANGLE_MARGIN = 1e-3
DIST_MARGIN = 1e-6
F32 = 6e-7


class _Quiet:
    def info(self, *a, **k):
        pass


QUIET = _Quiet()


# ----------------------------------------------------------------------------------------------
# palette (sites, normals) and the genericity proof

def unit(v):
    v = np.asarray(v, dtype=float)
    return v / np.linalg.norm(v)


def tilted(tilt_deg, az_deg, sign=1.0):
    t, a = math.radians(tilt_deg), math.radians(az_deg)
    return unit([math.sin(t) * math.cos(a), math.sin(t) * math.sin(a), sign * math.cos(t)])


S_BASE = [(0.00, 0.00, 0.00), (1.60, 0.25, 0.04), (-0.35, 1.75, -0.03), (1.20, 1.90, 0.02)]
T_BASE = [(0.03, -0.02, 3.00), (1.45, 0.40, 3.10), (0.60, 1.10, 2.85), (-1.50, 2.60, 3.30), (0.02, 0.03, -2.00), (2.90, -1.30, 2.40)]
N_SPEC = [(0.0, 0.0, 1.0), (3.0, 20.0, 1.0), (10.0, 200.0, 1.0), (40.0, 75.0, 1.0), (0.0, 0.0, -1.0)]     # (tilt, azimuth, sign)
TN_SPEC = [(2.0, 130.0, -1.0), (0.0, 0.0, -1.0), (8.0, 310.0, -1.0), (20.0, 300.0, -1.0), (1.0, 40.0, 1.0), (25.0, 150.0, -1.0)]
SUB_NORMALS = [0, 2, 4]


def geometry(ps, n, pt):
    """(distance, projection of target - source on the normal, angle between them in degrees); plain float arithmetic,
    the angle from atan2(|d x n|, d . n), which is well conditioned everywhere."""
    dx, dy, dz = float(pt[0]) - float(ps[0]), float(pt[1]) - float(ps[1]), float(pt[2]) - float(ps[2])
    nx, ny, nz = float(n[0]), float(n[1]), float(n[2])
    dist = math.sqrt(dx * dx + dy * dy + dz * dz)
    proj = dx * nx + dy * ny + dz * nz
    cx, cy, cz = dy * nz - dz * ny, dz * nx - dx * nz, dx * ny - dy * nx
    ang = math.degrees(math.atan2(math.sqrt(cx * cx + cy * cy + cz * cz), proj))
    return dist, proj, ang


def fmt(v, k=4):
    return "(" + ", ".join(f"{float(x):.{k}f}" for x in v) + ")"


def admissible(ps, n, pt, rng, alpha):
    dist, proj, ang = geometry(ps, n, pt)
    return dist <= rng and proj > 0 and ang < alpha


def prove_generic(S, SN, T, TN):
    """Brute force over every (source site, source normal, target site) triple the alphabet can form, in both role
    directions.  Returns the margins; raises ValueError when a precondition fails."""
    dists = []
    min_ang, min_rng, min_proj = 1e9, 1e9, 1e9
    for (A, AN, B) in ((S, SN, T), (T, TN, S)):
        for i, ps in enumerate(A):
            for n in AN(i):
                if abs(np.linalg.norm(n) - 1.0) > 4e-16:
                    raise ValueError("normal not unit")
                for pt in B:
                    dist, proj, ang = geometry(ps, n, pt)
                    min_proj = min(min_proj, abs(proj))
                    for a in ALPHAS:
                        min_ang = min(min_ang, abs(ang - a), abs(180.0 - ang - a))
                    for r in RANGES_ALL:
                        min_rng = min(min_rng, abs(dist - r))
    for ps in S:
        for pt in T:
            dists.append(float(np.linalg.norm(np.asarray(pt) - np.asarray(ps))))
    dists.sort()
    gap = min(b - a for a, b in zip(dists, dists[1:]))
    if min_ang <= 10 * ANGLE_MARGIN or min_rng <= 10 * DIST_MARGIN or gap <= 10 * DIST_MARGIN or min_proj <= 10 * DIST_MARGIN:
        raise ValueError(f"not generic: angle margin {min_ang}, range margin {min_rng}, distance gap {gap}, projection {min_proj}")
    return {"angle_margin_deg": min_ang, "range_margin": min_rng, "distance_gap": gap, "projection_margin": min_proj}


class Palette:
    def __init__(self, tier, seed):
        ns, nt = (4, 6) if tier == "thorough" else (3, 5)
        last = None
        for attempt in range(200):
            if seed == 0 and attempt == 0:
                js = np.zeros((4, 3))
                jt = np.zeros((6, 3))
                ja = np.zeros(12)
            else:
                rs = np.random.RandomState(2000 + 977 * seed + attempt)
                js = rs.uniform(-0.04, 0.04, (4, 3))
                jt = rs.uniform(-0.04, 0.04, (6, 3))
                ja = rs.uniform(-0.3, 0.3, 12)
            self.S = [np.array(p) + js[i] for i, p in enumerate(S_BASE[:ns])]
            self.T = [np.array(p) + jt[i] for i, p in enumerate(T_BASE[:nt])]
            self.N = [tilted(t + (ja[i] if t else 0.0), az + 10 * ja[i], sg) for i, (t, az, sg) in enumerate(N_SPEC)]
            self.TN = [tilted(t + (ja[6 + i] if t else 0.0), az, sg) for i, (t, az, sg) in enumerate(TN_SPEC[:nt])]
            try:
                self.margins = prove_generic(self.S, lambda i: self.N, self.T, lambda i: [self.TN[i]])
                break
            except ValueError as e:
                last = e
        else:
            raise HarnessError(f"C20: no generic palette for seed {seed}: {last}")
        # the unlabelled decoy: an ideal target for source site 0 that belongs to neither surface
        self.decoy = self.S[0] + np.array([0.01, -0.015, 2.2])
        self.decoy_n = tilted(0.0, 0.0, -1.0)
        self.ns, self.nt = ns, nt

    # ---- scene construction -------------------------------------------------------------------
    def build(self, src_sel, nrm_sel, tgt_sel, presentation):
        """Returns points, normals, mask1, mask2, direction, src (array indices), tgt (array indices)."""
        direction, s_on, layout, decoy = PRESENTATIONS[presentation]
        items = [("S", self.S[i], self.N[k]) for i, k in zip(src_sel, nrm_sel)]
        titems = [("T", self.T[j], self.TN[j]) for j in tgt_sel]
        if layout == "S-first":
            seq = items + titems
        elif layout == "T-first-reversed":
            seq = titems[::-1] + items[::-1]
        else:  # interleaved, targets first
            seq = [x for pair in itertools.zip_longest(titems, items) for x in pair if x is not None]
        if decoy == "front":
            seq = [("D", self.decoy, self.decoy_n)] + seq
        elif decoy == "back":
            seq = seq + [("D", self.decoy, self.decoy_n)]
        pts = np.array([p for _, p, _ in seq], dtype=float)
        nrm = np.array([n for _, _, n in seq], dtype=float)
        is_s = np.array([k == "S" for k, _, _ in seq])
        is_t = np.array([k == "T" for k, _, _ in seq])
        m1, m2 = (is_s, is_t) if s_on == 1 else (is_t, is_s)
        return pts, nrm, m1.copy(), m2.copy(), direction, [int(i) for i in np.where(is_s)[0]], [int(i) for i in np.where(is_t)[0]]


# (direction, mask that holds the S sheet, index layout, decoy)
PRESENTATIONS = [
    ("1to2", 1, "S-first", None),
    ("2to1", 2, "S-first", None),
    ("1to2", 1, "T-first-reversed", "front"),
    ("2to1", 2, "interleaved", "back"),
]
# (units index, presentation index): every presentation with the two base units, the other units on two presentations each
UNIT_PRES = [(u, p) for u in (0, 1) for p in range(4)] + [(2, 0), (2, 3), (3, 1), (3, 2), (4, 0), (4, 1), (5, 2), (5, 3), (6, 0), (6, 2)]


# ----------------------------------------------------------------------------------------------
# reference model and the judge

def greedy_model(pts, nrm, src, tgt, rng, alpha):
    cand = []
    for s in src:
        for t in tgt:
            if admissible(pts[s], nrm[s], pts[t], rng, alpha):
                cand.append((geometry(pts[s], nrm[s], pts[t])[0], s, t))
    cand.sort()
    used_s, used_t, pairing = set(), set(), {}
    for d, s, t in cand:
        if s not in used_s and t not in used_t:
            pairing[s] = t
            used_s.add(s)
            used_t.add(t)
    return pairing, cand


def call_cpu(obs, pts, nrm, m1, m2, voxel, nm, alpha, direction, site="measure_thickness_cpu"):
    from cryocat import memthick

    return obs.lib(site, memthick.measure_thickness_cpu, pts.copy(), nrm.copy(), m1.copy(), m2.copy(), voxel,
                   max_thickness_nm=nm, max_angle_degrees=alpha, direction=direction, logger=QUIET)


def judge(obs, res, pts, nrm, src, tgt, rng, alpha, voxel, site="measure_thickness_cpu", cls=""):
    """All clauses of the statement on one result.  Returns (pairing dict, ok-flag)."""
    n = len(pts)
    ok_form = (isinstance(res, tuple) and len(res) == 3 and all(hasattr(r, "shape") and r.shape == (n,) for r in res))
    if not obs.check(ok_form, site, "result-shape", f"expected three arrays of length {n}", cls):
        return None, False
    thick, valid, pairs = res
    valid = np.asarray(valid).astype(bool)
    src_set, tgt_set = set(int(s) for s in src), set(int(t) for t in tgt)
    stray = [i for i in range(n) if valid[i] and i not in src_set]
    obs.check(not stray, site, "only-source-points-paired", lambda: f"points {stray} are not on the source surface but are marked valid", cls)
    pairing = {int(s): int(pairs[s]) for s in src if valid[s]}
    foreign = {s: t for s, t in pairing.items() if t not in tgt_set}
    obs.check(not foreign, site, "pair-target-on-target-surface", lambda: f"pairs {foreign}: partner is not a target-surface point (targets {sorted(tgt_set)})", cls)
    ts = [t for t in pairing.values()]
    obs.check(len(ts) == len(set(ts)), site, "no-target-used-twice", lambda: f"pairing {pairing}", cls)
    all_adm = not foreign and not stray
    for s, t in pairing.items():
        if s in foreign:          # already reported; the geometric clauses are about source -> target-surface pairs
            continue
        dist, proj, ang = geometry(pts[s], nrm[s], pts[t])
        info = (lambda s=s, t=t, dist=dist, proj=proj, ang=ang:
                f"source {s} {fmt(pts[s])} normal {fmt(nrm[s], 5)} -> target {t} {fmt(pts[t])}: "
                f"distance {dist:.6f} (range {rng}), projection {proj:.6f}, angle to normal {ang:.4f} deg (max_angle {alpha})")
        r_ok = obs.check(dist <= rng, site, "pair-within-range", info, cls)
        f_ok = obs.check(proj > 0, site, "pair-ahead-of-source", info, cls)
        c_ok = True
        if f_ok:
            c_ok = obs.check(ang < alpha, site, "pair-within-cone", info, cls)
        want = dist * voxel
        obs.check(abs(float(thick[s]) - want) <= F32 * want + 1e-12, site, "thickness-is-distance-times-voxel",
                  lambda s=s, want=want: f"source {s}: thickness {float(thick[s])!r}, distance x voxel = {want!r} (voxel {voxel})", cls)
        all_adm = all_adm and r_ok and f_ok and c_ok
    model, cand = greedy_model(pts, nrm, src, tgt, rng, alpha)
    if all_adm:
        # greedy stability and the unique greedy result (ties are excluded by construction)
        un_s = [s for s in src if s not in pairing]
        used_t = set(pairing.values())
        un_t = [t for t in tgt if t not in used_t]
        left = [(s, t) for (_, s, t) in cand if s in un_s and t in un_t]
        obs.check(not left, site, "no-admissible-pair-left-over", lambda: f"admissible pairs of two unmatched points: {left}; pairing {pairing}", cls)
        closer = []
        for (d, s, t) in cand:
            if s in pairing and t in un_t and d < geometry(pts[s], nrm[s], pts[pairing[s]])[0]:
                closer.append((s, pairing[s], t))
        obs.check(not closer, site, "no-closer-admissible-unmatched-target", lambda: f"(source, partner, closer unmatched admissible target): {closer}", cls)
        obs.check(pairing == model, site, "pairing-is-greedy-by-distance",
                  lambda: f"pairing {pairing}, greedy by increasing distance over the admissible pairs gives {model}; admissible (dist, s, t): {[(round(d, 4), s, t) for d, s, t in cand]}", cls)
    return pairing, all_adm


def scene_nontrivial(pts, nrm, src, tgt, rng, alpha):
    flags = [admissible(pts[s], nrm[s], pts[t], rng, alpha) for s in src for t in tgt]
    return any(flags) and not all(flags)


def outcome_of(res, src):
    try:
        thick, valid, pairs = res
        return tuple((int(s), int(pairs[s]), round(float(thick[s]), 4)) for s in src if valid[s])
    except Exception:  # noqa: BLE001
        return ("malformed",)


# ----------------------------------------------------------------------------------------------
# families

def make_families(tier, seed):
    pal = Palette(tier, seed)

    def scene_list(normal_ids):
        srcs = []
        for k in range(1, 4):
            for sel in itertools.combinations(range(pal.ns), k):
                for ns in itertools.product(normal_ids, repeat=k):
                    srcs.append((sel, ns))
        tgts = []
        for k in range(1, 4):
            tgts.extend(itertools.combinations(range(pal.nt), k))
        srcs.sort(key=lambda x: len(x[0]))
        return srcs, tgts

    srcs_all, tgts_all = scene_list(range(5))
    srcs_sub, _ = scene_list(SUB_NORMALS)

    # ---- A: the pairing itself ------------------------------------------------------------------
    def exec_pairing(case, obs):
        (sel, ns), tg, alpha, (ui, pi) = case
        nm, voxel = UNITS[ui]
        rng = nm / voxel
        pts, nrm, m1, m2, direction, src, tgt = pal.build(sel, ns, tg, pi)
        res = call_cpu(obs, pts, nrm, m1, m2, voxel, nm, alpha, direction)
        obs.nontrivial = scene_nontrivial(pts, nrm, src, tgt, rng, alpha)
        judge(obs, res, pts, nrm, src, tgt, rng, alpha, voxel)
        obs.outcome = outcome_of(res, src)

    fam_a = Family("pairing", Product(srcs_all, tgts_all, ALPHAS, UNIT_PRES), exec_pairing, describe=lambda c: describe_scene(pal, c),
                   expect=("pair-within-range", "pair-ahead-of-source", "pair-within-cone", "thickness-is-distance-times-voxel", "no-target-used-twice",
                           "no-admissible-pair-left-over", "no-closer-admissible-unmatched-target", "pairing-is-greedy-by-distance", "only-source-points-paired"))

    # ---- B: rigid motions -------------------------------------------------------------------------
    cube = so3.cube_group()
    gen = so3.zxz(*((37.3, 64.1, 151.9) if seed == 0 else tuple(np.random.RandomState(2100 + seed).uniform(10, 170, 3))))
    motions = [(f"cube{k}", R, np.array([10.5, -3.25, 7.125])) for k, R in enumerate(cube)]
    motions += [("generic", gen, np.array([-4.2, 11.3, 0.77])), ("generic-inverse", gen.T, np.array([0.0, 0.0, 0.0]))]
    settings_b = [(5.0, 0), (30.0, 1)]
    srcs_b = srcs_sub if tier == "quick" else srcs_all

    def exec_rigid(case, obs):
        (sel, ns), tg, (alpha, ui), mi = case
        nm, voxel = UNITS[ui]
        rng = nm / voxel
        name, R, tr = motions[mi]
        pts, nrm, m1, m2, direction, src, tgt = pal.build(sel, ns, tg, 0)
        base = call_cpu(obs, pts, nrm, m1, m2, voxel, nm, alpha, direction)
        pts2 = pts @ R.T + tr
        nrm2 = nrm @ R.T
        moved = call_cpu(obs, pts2, nrm2, m1, m2, voxel, nm, alpha, direction)
        obs.nontrivial = scene_nontrivial(pts, nrm, src, tgt, rng, alpha)
        cls = "cube-rotation" if name.startswith("cube") else "generic-rotation"
        p2, _ = judge(obs, moved, pts2, nrm2, src, tgt, rng, alpha, voxel)
        try:
            b_valid, m_valid = np.asarray(base[1]).astype(bool), np.asarray(moved[1]).astype(bool)
            same = bool(np.array_equal(b_valid, m_valid) and np.array_equal(np.asarray(base[2])[b_valid], np.asarray(moved[2])[m_valid]))
            obs.check(same, "measure_thickness_cpu", "pairing-invariant-under-rigid-motion",
                      lambda: f"motion {name}: pairing before {outcome_of(base, src)}, after {outcome_of(moved, src)}", cls)
            if same:
                tb, tm = np.asarray(base[0], float)[b_valid], np.asarray(moved[0], float)[m_valid]
                obs.check(bool(np.all(np.abs(tb - tm) <= 2 * F32 * np.abs(tb) + 1e-12)), "measure_thickness_cpu", "thickness-invariant-under-rigid-motion",
                          lambda: f"motion {name}: {tb} vs {tm}", cls)
        except (TypeError, IndexError, ValueError) as e:
            obs.fail("measure_thickness_cpu", "result-shape", f"{e}", cls)
        obs.outcome = (outcome_of(moved, src), mi)

    fam_b = Family("rigid-motion", Product(srcs_b, tgts_all, settings_b, range(len(motions))), exec_rigid,
                   describe=lambda c: dict(describe_scene(pal, (c[0], c[1], c[2][0], (c[2][1], 0))), motion=motions[c[3]][0]),
                   expect=("pairing-invariant-under-rigid-motion", "thickness-invariant-under-rigid-motion", "pair-within-cone", "pairing-is-greedy-by-distance"))

    # ---- C: voxel scaling ---------------------------------------------------------------------------
    VOX = [0.5, 2.0, 1.34, 0.17]

    def exec_scaling(case, obs):
        (sel, ns), tg, alpha, rng, pi = case
        pts, nrm, m1, m2, direction, src, tgt = pal.build(sel, ns, tg, pi)
        base = call_cpu(obs, pts, nrm, m1, m2, 1.0, rng, alpha, direction)
        obs.nontrivial = scene_nontrivial(pts, nrm, src, tgt, rng, alpha)
        p0, ok = judge(obs, base, pts, nrm, src, tgt, rng, alpha, 1.0)
        if p0 is None:
            obs.outcome = ("malformed",)
            return
        for v in VOX:
            res = call_cpu(obs, pts, nrm, m1, m2, v, rng * v, alpha, direction)
            try:
                same = bool(np.array_equal(np.asarray(res[1]).astype(bool), np.asarray(base[1]).astype(bool))
                            and np.array_equal(np.asarray(res[2])[np.asarray(res[1]).astype(bool)], np.asarray(base[2])[np.asarray(base[1]).astype(bool)]))
            except (TypeError, IndexError, ValueError):
                same = False
            obs.check(same, "measure_thickness_cpu", "pairing-unchanged-when-voxel-and-max-thickness-scale-together",
                      lambda v=v, res=res: f"voxel 1 / max {rng}: {outcome_of(base, src)}; voxel {v} / max {rng * v}: {outcome_of(res, src)}")
            if same:
                vm = np.asarray(base[1]).astype(bool)
                a, b = np.asarray(res[0], float)[vm], np.asarray(base[0], float)[vm] * v
                obs.check(bool(np.all(np.abs(a - b) <= 3 * F32 * np.abs(b) + 1e-12)), "measure_thickness_cpu", "thickness-scales-with-voxel-size",
                          lambda v=v, a=a, b=b: f"voxel {v}: thickness {a}, {v} x thickness(voxel 1) = {b}")
        obs.outcome = outcome_of(base, src)

    fam_c = Family("voxel-scaling", Product(srcs_sub, tgts_all, ALPHAS, RANGES_BASE, [0, 3]), exec_scaling,
                   describe=lambda c: dict(describe_scene(pal, (c[0], c[1], c[2], (RANGES_BASE.index(c[3]), c[4]))), voxels=[1.0] + VOX),
                   expect=("pairing-unchanged-when-voxel-and-max-thickness-scale-together", "thickness-scales-with-voxel-size"))

    # ---- D: direction swap ----------------------------------------------------------------------------
    def exec_swap(case, obs):
        (sel, ns), tg, alpha, rng, layout = case
        pts, nrm, mS, mT, _d, src, tgt = pal.build(sel, ns, tg, layout)
        if PRESENTATIONS[layout][1] == 2:
            mS, mT = mT, mS
        r12 = call_cpu(obs, pts, nrm, mS, mT, 1.0, rng, alpha, "1to2")       # S -> T
        r21 = call_cpu(obs, pts, nrm, mS, mT, 1.0, rng, alpha, "2to1")       # T -> S
        q12 = call_cpu(obs, pts, nrm, mT, mS, 1.0, rng, alpha, "1to2")       # T -> S
        q21 = call_cpu(obs, pts, nrm, mT, mS, 1.0, rng, alpha, "2to1")       # S -> T
        obs.nontrivial = scene_nontrivial(pts, nrm, src, tgt, rng, alpha) or scene_nontrivial(pts, nrm, tgt, src, rng, alpha)

        def eq(a, b):
            try:
                return all(np.array_equal(np.asarray(x), np.asarray(y)) for x, y in zip(a, b))
            except (TypeError, ValueError):
                return False

        obs.check(eq(r21, q12), "measure_thickness_cpu", "2to1-equals-1to2-with-surfaces-swapped",
                  lambda: f"direction 2to1 on (A,B): {outcome_of(r21, tgt)}; direction 1to2 on (B,A): {outcome_of(q12, tgt)}")
        obs.check(eq(r12, q21), "measure_thickness_cpu", "2to1-equals-1to2-with-surfaces-swapped",
                  lambda: f"direction 1to2 on (A,B): {outcome_of(r12, src)}; direction 2to1 on (B,A): {outcome_of(q21, src)}")
        judge(obs, r12, pts, nrm, src, tgt, rng, alpha, 1.0)
        judge(obs, r21, pts, nrm, tgt, src, rng, alpha, 1.0)
        if outcome_of(r21, tgt):
            obs.fire("reverse-direction-pairs-exist")
        obs.outcome = (outcome_of(r12, src), outcome_of(r21, tgt))

    fam_d = Family("direction-swap", Product(srcs_sub, tgts_all, ALPHAS, RANGES_BASE, [0, 2]), exec_swap,
                   describe=lambda c: describe_scene(pal, (c[0], c[1], c[2], (RANGES_BASE.index(c[3]), c[4]))),
                   expect=("2to1-equals-1to2-with-surfaces-swapped", "reverse-direction-pairs-exist", "pair-within-cone", "pairing-is-greedy-by-distance"))

    # ---- E: the numba candidate kernel ---------------------------------------------------------------------
    K_RANGES = [2.5, 3.5, 5.0, 7.0]

    def exec_kernel(case, obs):
        from cryocat import memthick

        (sel, ns), tg, alpha, rng, role = case
        site = "find_matches_parallel"
        pts, nrm, mS, mT, _d, src, tgt = pal.build(sel, ns, tg, 2 if role else 0)
        if PRESENTATIONS[2 if role else 0][1] == 2:
            mS, mT = mT, mS
        if role:          # the sheet near z = 3 acts as the source surface
            mS, mT, src, tgt = mT, mS, tgt, src
        n = len(pts)
        md = np.full((n, 25), -1.0)
        mi = np.full((n, 25), -1, dtype=np.int64)
        mc = np.full(n, -7, dtype=np.int64)
        tix = np.where(mT)[0].astype(np.int64)
        obs.lib(site, memthick.find_matches_parallel, np.ascontiguousarray(pts), np.ascontiguousarray(nrm), mS.copy(), mT.copy(), tix,
                float(rng), float(np.cos(np.radians(alpha))), md, mi, mc, _outputs=(7, 8, 9))  # the three result buffers
        obs.nontrivial = scene_nontrivial(pts, nrm, src, tgt, rng, alpha)
        out = []
        for s in range(n):
            if s not in src:
                obs.check(mc[s] in (0, -7), site, "non-source-rows-empty", lambda s=s: f"point {s} is not a source but has match_count {mc[s]}")
                continue
            cnt = int(mc[s])
            if not obs.check(0 <= cnt <= 25, site, "match-count-valid", lambda s=s: f"source {s}: match_count {mc[s]}"):
                continue
            got = [(int(mi[s, k]), float(md[s, k])) for k in range(cnt)]
            ids = [g[0] for g in got]
            obs.check(len(set(ids)) == len(ids), site, "no-duplicate-candidates", lambda: f"source {s}: {ids}")
            want = [t for t in tgt if admissible(pts[s], nrm[s], pts[t], rng, alpha)]
            for t, d in got:
                if not obs.check(t in tgt, site, "candidate-on-target-list", lambda t=t: f"source {s}: candidate {t} not among targets {tgt}"):
                    continue
                dist, proj, ang = geometry(pts[s], nrm[s], pts[t])
                info = (lambda t=t, dist=dist, proj=proj, ang=ang: f"source {s} {fmt(pts[s])} normal {fmt(nrm[s], 5)} -> candidate {t} {fmt(pts[t])}: distance {dist:.6f} (range {rng}), "
                        f"projection {proj:.6f}, angle to normal {ang:.4f} deg (max_angle {alpha})")
                obs.check(dist <= rng, site, "candidate-within-range", info)
                if obs.check(proj > 0, site, "candidate-ahead-of-source", info):
                    obs.check(ang < alpha, site, "candidate-within-cone", info)
                obs.check(abs(d - dist) <= 1e-9 * max(1.0, dist), site, "candidate-distance", lambda t=t, d=d, dist=dist: f"source {s} candidate {t}: stored {d!r}, distance {dist!r}")
            missing = [t for t in want if t not in ids]
            obs.check(not missing, site, "all-admissible-candidates-found", lambda: f"source {s}: admissible targets {want}, kernel returned {ids}")
            out.append((s, tuple(sorted(ids))))
        obs.outcome = tuple(out)

    fam_e = Family("numba-kernel", Product(srcs_all, tgts_all, ALPHAS, K_RANGES, [0, 1]), exec_kernel,
                   describe=lambda c: dict(describe_scene(pal, (c[0], c[1], c[2], (0, 2 if c[4] else 0))), range_voxels=c[3], kernel_source_surface="the z~3 sheet (listed under targets) with its fixed normals" if c[4] else "the z~0 sheet"),
                   expect=("candidate-within-range", "candidate-ahead-of-source", "candidate-within-cone", "all-admissible-candidates-found", "candidate-distance", "non-source-rows-empty"))

    return pal, [fam_a, fam_b, fam_c, fam_d, fam_e]


def describe_scene(pal, c):
    (sel, ns), tg, alpha, (ui, pi) = c
    nm, voxel = UNITS[ui]
    d, s_on, layout, decoy = PRESENTATIONS[pi]
    return {
        "sources": [[round(float(x), 4) for x in pal.S[i]] for i in sel],
        "source_normals": [[round(float(x), 5) for x in pal.N[k]] for k in ns],
        "targets": [[round(float(x), 4) for x in pal.T[j]] for j in tg],
        "max_angle": alpha, "max_thickness_nm": nm, "voxel": voxel, "direction": d, "source_mask": f"surface{s_on}", "layout": layout, "decoy": decoy,
    }


def _dense_ball_family(seed):
    """More than 25 target points inside the max-thickness ball of a source, only two of them inside the cone: the
    admissible ones must be found wherever they stand in the point array (every insertion position is enumerated)."""
    rs = np.random.RandomState(2020 + seed)
    n_off = 40
    # off-cone targets: a ring 3.2..4.6 voxels away, 35..80 degrees off the normal (inside the ball of radius 5, outside every cone <= 30)
    ring = []
    for i in range(n_off):
        az = 2 * np.pi * (i + 0.37) / n_off
        pol = np.radians(35.0 + 45.0 * ((i * 7) % n_off) / n_off)
        r = 3.2 + 1.4 * ((i * 11) % n_off) / n_off
        ring.append([r * np.sin(pol) * np.cos(az), r * np.sin(pol) * np.sin(az), r * np.cos(pol)])
    ring = np.array(ring) + rs.uniform(-0.01, 0.01, (n_off, 3))
    good = np.array([[0.11, -0.07, 3.05], [-0.21, 0.16, 3.9]])   # 2.4 and 3.9 degrees off the normal

    def execute(case, obs):
        pos, alpha = case
        tg = np.vstack([ring[:pos], good[:1], ring[pos:pos + (n_off - pos) // 2], good[1:], ring[pos + (n_off - pos) // 2:]])
        pts = np.vstack([[[0.0, 0.0, 0.0]], tg])
        nrm = np.tile(np.array([0.0, 0.0, 1.0]), (len(pts), 1))
        m1 = np.zeros(len(pts), dtype=bool)
        m1[0] = True
        m2 = ~m1
        src, tgt = [0], list(range(1, len(pts)))
        res = call_cpu(obs, pts, nrm, m1, m2, 1.0, 5.0, alpha, "1to2")
        obs.nontrivial = True
        judge(obs, res, pts, nrm, src, tgt, 5.0, alpha, 1.0, cls="more-than-25-points-in-the-ball")
        obs.outcome = outcome_of(res, src) + (pos,)

    from ..space import Product as _P
    return Family("dense-ball", _P(list(range(0, n_off + 1)), [5.0, 15.0, 30.0]), execute,
                  describe=lambda c: {"admissible_target_inserted_at": c[0], "max_angle": c[1], "targets_in_ball": n_off + 2},
                  expect=("pair-within-cone", "no-admissible-pair-left-over"), min_outcomes=1)


def _large_sheets_family(tier, seed):
    """Two jittered lattice sheets with up to 300 points per surface (the statement's 600 points): every per-surface
    size around the powers of two a batched / blocked query would use, three labelling orders, both directions."""
    rs = np.random.RandomState(2077 + seed)
    NMAX = 307
    ij = np.array([[i % 20, i // 20] for i in range(NMAX)], dtype=float)
    lower = np.column_stack([ij * 2.0 + rs.uniform(-0.1, 0.1, (NMAX, 2)), rs.uniform(-0.1, 0.1, NMAX)])
    upper = np.column_stack([ij * 2.0 + rs.uniform(-0.1, 0.1, (NMAX, 2)), 3.0 + rs.uniform(-0.25, 0.25, NMAX)])
    # the dense variant: lattice spacing 1, so that with a wide cone every source has several admissible targets and
    # sources compete for them (range 3.6 keeps the ball below 25 points)
    lower_d = np.column_stack([ij + rs.uniform(-0.15, 0.15, (NMAX, 2)), rs.uniform(-0.1, 0.1, NMAX)])
    upper_d = np.column_stack([ij + rs.uniform(-0.3, 0.3, (NMAX, 2)), 3.0 + rs.uniform(-0.25, 0.25, NMAX)])
    def normals(sign):
        v = np.column_stack([rs.normal(0, 0.02, NMAX), rs.normal(0, 0.02, NMAX), np.full(NMAX, float(sign))])
        return v / np.linalg.norm(v, axis=1, keepdims=True)
    n_lo, n_up = normals(+1), normals(-1)
    if tier == "quick":
        sizes = [10, 40, 100, 127, 128, 129, 200] + list(range(250, 263)) + [280, 300]
    else:
        sizes = list(range(10, 301))

    def execute(case, obs):
        n, order, direction, (alpha, dense) = case
        lo, up, rng = (lower_d, upper_d, 3.6) if dense else (lower, upper, 5.0)
        n1, n2 = n, n + 7
        if order == "surface1-first":
            lab = [1] * n1 + [2] * n2
        elif order == "surface2-first":
            lab = [2] * n2 + [1] * n1
        else:
            lab = [1, 2] * n1 + [2] * (n2 - n1)
        pts, nrm, k = [], [], {1: 0, 2: 0}
        for s in lab:
            pts.append((lo if s == 1 else up)[k[s]])
            nrm.append((n_lo if s == 1 else n_up)[k[s]])
            k[s] += 1
        pts, nrm, lab = np.array(pts), np.array(nrm), np.array(lab)
        m1, m2 = lab == 1, lab == 2
        src = np.flatnonzero(m1 if direction == "1to2" else m2).tolist()
        tgt = np.flatnonzero(m2 if direction == "1to2" else m1).tolist()
        res = call_cpu(obs, pts, nrm, m1, m2, 1.0, rng, alpha, direction)
        obs.nontrivial = True
        judge(obs, res, pts, nrm, src, tgt, rng, alpha, 1.0, cls="more-than-256-points-per-surface" if n > 249 else "")
        out = outcome_of(res, src)
        if not dense:
            obs.check(len(out) >= n1 - 2, "measure_thickness_cpu", "lattice-partners-found", f"{len(out)} pairs for {n1} facing lattice points", "")
        obs.outcome = (n, len(out), h64(repr(out)))

    from ..space import Product as _P
    from ..engine import h64
    return Family("large-sheets", _P(sizes, ["surface1-first", "surface2-first", "interleaved"], ["1to2", "2to1"], [(10.0, False), (25.0, False), (25.0, True)]), execute,
                  describe=lambda c: {"points_surface1": c[0], "points_surface2": c[0] + 7, "labelling": c[1], "direction": c[2], "max_angle": c[3][0], "lattice": "spacing 1, range 3.6" if c[3][1] else "spacing 2, range 5"},
                  expect=("pair-within-cone", "no-admissible-pair-left-over", "pairing-is-greedy-by-distance"), min_outcomes=1)


def families(tier, seed):
    pal, fams = make_families(tier, seed)
    from ..engine import with_array_layouts
    # points / normals handed over Fortran-ordered or as strided views: the pairing family at one cone angle, one unit setting
    fams.append(_dense_ball_family(seed))
    fams.append(_large_sheets_family(tier, seed))
    fams.append(with_array_layouts(fams[0], select=lambda c: c[2] == 15.0 and tuple(c[3]) == (0, 0),
                                   expect=("pair-within-range", "pair-within-cone", "no-target-used-twice")))
    return fams
