"""C15 — tilt-stack operations are lossless selections / permutations of tilt images (history property through files)."""
import contextlib
import hashlib
import io
import itertools
import os
import shutil

import numpy as np

from ..engine import Family, HarnessError
from ..space import Listed, Mapped, Product
from ..oracles import mrcfmt

RULE = (
    "depth-1: cases = stack (n tilts, w x h image, dtype; voxel (i,y,x) holds a unique code) x operation with its "
    "complete small argument domain (sort: every ordering of n distinct angles; remove: every proper non-empty index "
    "subset, 1- and 0-based, list ascending / array descending; split; flip: every axis list of length <= 2 and the bare "
    "letters; crop: every (w' <= w, h' <= h) and the None defaults; bin: every factor dividing both sizes) x input "
    "kind (array | MRC file written by an independent writer) x input_order x output_order x output file on/off.  Each "
    "case calls the operation twice: the baseline variant (array, zyx -> zyx, no file) is judged against plain numpy "
    "indexing on the (n,y,x) array, the enumerated variant against the baseline (order / input-kind invariance) and the "
    "written file is parsed independently.  chains: every enabled sequence of operations from a reduced alphabet where "
    "the file written by step k is the input of step k+1; model = numpy indexing; the model state adopts the observed "
    "file only for bin (block means are pinned up to rounding).  Non-trivial = the expected result differs from the "
    "input stack (depth-1) / the final model state differs from the initial one (chains)."
)
BOUNDS = {
    "quick": "n in {2,3,4}; (w,h) in {(4,6),(5,4),(6,6)}; float32/int16; 16 variants; chains: depth 2 over a 28-symbol "
             "alphabet (14 operations x output_order) from 6 initial files (n=4; (8,12),(10,8),(12,12); float32/int16)",
    "thorough": "n in 2..6; same sizes; chains: depth 3 (n=5); plus a stack at the quantifier's upper end (25 tilts, 40x28)",
}
ASSUMPTIONS = [
    "flip: the statement does not say which image axis the letter 'x' reverses (IMOD's flipx reverses the rows); judged: every "
    "letter reverses exactly one axis, 'z' the tilt axis, 'x' and 'y' the two different image axes, lists compose, twice = identity",
    "crop with (w - w') odd: the statement does not pin which of the two nearly-central windows; either is accepted",
    "bin: block means compared with rtol 1e-6 for float32 and |diff| < 1 for int16 (rounding back to the input dtype is not pinned); "
    "only factors dividing both image sizes are enumerated",
    "angle / index / dose TEXT files are a secondary family (loading belongs to C17); exceptions there carry cls text-file-input*",
    "stacks that an earlier chain step reduced below 2 tilts or below 4 pixels are not used as inputs (outside the quantifier)",
]
BUDGET_S = {"quick": 300, "thorough": 2400}

DT = {"float32": np.float32, "int16": np.int16}
ANGLES = {
    2: (-3.25, 12.25),
    3: (-60.5, 0.0, 57.0),
    4: (-60.5, -3.25, 0.0, 12.25),
    5: (-60.5, -21.0, -3.25, 0.0, 12.25),
    6: (-60.5, -21.0, -3.25, 0.0, 12.25, 57.0),
}
SITE = {"sort": "sort_tilts_by_angle", "remove": "remove_tilts", "split": "split_stack_even_odd", "flip": "flip_along_axes", "crop": "crop", "bin": "bin"}


def clean_cwd():
    cwd = os.getcwd()
    if not os.path.basename(cwd).startswith("mcw_"):
        raise HarnessError(f"refusing to clean {cwd}: not a worker temp dir")
    for f in os.listdir(cwd):
        q = os.path.join(cwd, f)
        if os.path.isdir(q) and not os.path.islink(q):
            shutil.rmtree(q, ignore_errors=True)
        else:
            os.unlink(q)


@contextlib.contextmanager
def quiet():
    with contextlib.redirect_stdout(io.StringIO()):
        yield


def stack(n, w, h, dtype, seed=0):
    """S[i, y, x] with unique codes of both signs; float32 carries +0.25."""
    i, y, x = np.meshgrid(np.arange(n), np.arange(h), np.arange(w), indexing="ij")
    c = x + 41 * y + 41 * 41 * i - 3000 + 7 * seed  # unique for w, h <= 41; |c| < 2^15 for n <= 20
    if n > 19:
        c = x + 41 * y + 1300 * i - 16000 + 7 * seed  # n = 25, h <= 31: still unique and inside int16
    if dtype == "float32":
        return (c + 0.25).astype(np.float32)
    return c.astype(np.int16)


def angles_for(n, seed):
    if n in ANGLES:
        return tuple(a + 0.125 * seed for a in ANGLES[n])
    return tuple(-60.0 + 5.0 * k + 0.125 * seed for k in range(n))


# ------------------------------------------------------------------------------------------------------------------
# reference model on the (n, y, x) array


def model(S, op):
    """-> list of expected (n',h',w') arrays, or ('crop', candidates) / ('bin', mean) markers.  Pure numpy indexing."""
    kind = op[0]
    if kind == "sort":
        ang = op[1]
        order = sorted(range(len(ang)), key=lambda k: ang[k])
        return [S[order]]
    if kind == "remove":
        idx, from1 = op[1], op[2]
        gone = {(k - 1 if from1 else k) for k in idx}
        keep = [k for k in range(S.shape[0]) if k not in gone]
        return [S[keep]]
    if kind == "split":
        return [S[0::2], S[1::2]]
    if kind == "crop":
        n, h, w = S.shape
        w2 = w if op[1] is None else op[1]
        h2 = h if op[2] is None else op[2]
        xs = sorted({(w - w2) // 2, -((w2 - w) // 2)})  # floor and ceil of (w - w2)/2
        ys = sorted({(h - h2) // 2, -((h2 - h) // 2)})
        return [("one-of", [S[:, y0:y0 + h2, x0:x0 + w2] for y0 in ys for x0 in xs])]
    if kind == "bin":
        f = op[1]
        n, h, w = S.shape
        m = S.astype(np.float64).reshape(n, h // f, f, w // f, f).mean(axis=(2, 4))
        return [("mean", m)]
    raise ValueError(op)


def flip_model(S, axes, amap):
    out = S
    for a in axes:
        out = np.flip(out, axis=amap[a])
    return out


def matches(got, want, dtype):
    """Compare one returned (n,y,x) array with one model entry.  -> (ok, adopted_expected, detail)"""
    if isinstance(want, tuple) and want[0] == "one-of":
        for cand in want[1]:
            if got.shape == cand.shape and np.array_equal(got, cand):
                return True, cand, ""
        c0 = want[1][0]
        return False, c0, (f"shape {got.shape} vs {c0.shape}" if got.shape != c0.shape else f"not a central window; first row got {got[0, 0].tolist()} expected {c0[0, 0].tolist()}")
    if isinstance(want, tuple) and want[0] == "mean":
        m = want[1]
        if got.shape != m.shape:
            return False, m, f"shape {got.shape} vs {m.shape}"
        g = got.astype(np.float64)
        if dtype == "int16":
            ok = bool(np.all(np.abs(g - m) < 1.0))
        else:
            ok = bool(np.allclose(g, m, rtol=1e-6, atol=1e-6))
        return ok, got, "" if ok else f"max |diff| {np.max(np.abs(g - m))}"
    if got.shape != want.shape:
        return False, want, f"shape {got.shape} vs expected {want.shape}"
    if np.array_equal(got, want):
        return True, want, ""
    bad = np.argwhere(got != want)
    i = tuple(int(v) for v in bad[0])
    return False, want, f"{len(bad)} voxels differ; first at (i,y,x)={i}: got {got[i]!r} expected {want[i]!r}"


OP_CLAUSE = {"sort": "sort-ascending-order", "remove": "remove-keeps-others-in-order", "split": "split-even-odd", "crop": "crop-central-window", "bin": "bin-block-means"}


# ------------------------------------------------------------------------------------------------------------------
# calling the library


def call(obs, ts, op, src, in_order, out_order, out_file, site_override=None, args=None):
    """One real call.  src: array in `in_order` or path.  -> list of returned arrays (as returned).

    args: a dict that lives as long as the case.  The caller's own angle / index list or array is built once and the SAME
    object is handed to every call of the case (baseline, variant, second flip ...), as a user script would do, and
    it must come back unchanged ("argument-untouched")."""
    kind = op[0]
    if args is None:
        args = {}
    site = site_override or SITE[kind]
    kw = {"input_order": in_order, "output_order": out_order}
    if kind == "sort":
        ang = op[1]
        if "a" not in args:
            args["a"] = np.array(ang, dtype=np.float64) if op[2] == "array" else (list(ang) if op[2] == "list" else op[2])
        a = args["a"]
        with quiet():
            r = obs.lib(site, ts.sort_tilts_by_angle, src, a, output_file=out_file, **kw)
        if not isinstance(a, str):
            obs.check(list(np.asarray(a, dtype=float)) == [float(v) for v in ang], site, "argument-untouched",
                      lambda: f"the caller's angle {type(a).__name__} was modified in place: {list(ang)} -> {list(a)}")
        return [r]
    if kind == "remove":
        idx = op[1]
        if "a" not in args:
            args["a"] = np.array(idx) if op[3] == "array" else (list(idx) if op[3] == "list" else op[3])
        a = args["a"]
        with quiet():
            r = obs.lib(site, ts.remove_tilts, src, a, numbered_from_1=op[2], output_file=out_file, **kw)
        if not isinstance(a, str):
            obs.check([int(v) for v in a] == [int(v) for v in idx], site, "argument-untouched",
                      lambda: f"the caller's index {type(a).__name__} was modified in place: {list(idx)} -> {list(a)}")
        return [r]
    if kind == "split":
        prefix = out_file[:-4] if out_file else None
        with quiet():
            r = obs.lib(site, ts.split_stack_even_odd, src, output_file_prefix=prefix, **kw)
        return list(r)
    if kind == "flip":
        axes = op[1]
        a = axes if isinstance(axes, str) else list(axes)
        with quiet():
            r = obs.lib(site, ts.flip_along_axes, src, a, output_file=out_file, **kw)
        return [r]
    if kind == "crop":
        with quiet():
            r = obs.lib(site, ts.crop, src, new_width=op[1], new_height=op[2], output_file=out_file, **kw)
        return [r]
    if kind == "bin":
        with quiet():
            r = obs.lib(site, ts.bin, src, op[1], output_file=out_file, **kw)
        return [r]
    raise ValueError(op)


def out_files(op, out_file):
    if not out_file:
        return []
    if op[0] == "split":
        return [out_file[:-4] + "_even.mrc", out_file[:-4] + "_odd.mrc"]
    return [out_file]


def to_nyx(r, out_order):
    r = np.asarray(r)
    if r.ndim != 3:
        return r
    return r.transpose(2, 1, 0) if out_order == "xyz" else r


def flip_axis_map(obs, ts, dtype):
    """Which array axis of (n,y,x) each letter reverses – observed on a (2,3,4) stack, judged for what the statement pins."""
    P = stack(2, 4, 3, dtype)
    amap = {}
    site = SITE["flip"]
    for a in ("x", "y", "z"):
        r = call(obs, ts, ("flip", a), P, "zyx", "zyx", None)[0]
        hit = [ax for ax in (0, 1, 2) if r.shape == P.shape and np.array_equal(r, np.flip(P, axis=ax))]
        if not obs.check(len(hit) == 1, site, "flip-axis-reversal", f"flipping along '{a}' is not the reversal of one axis of the stack"):
            return None
        amap[a] = hit[0]
    obs.check(amap["z"] == 0, site, "flip-z-is-tilt-axis", f"'z' reverses array axis {amap['z']} of (n,y,x)")
    if not obs.check(len(set(amap.values())) == 3, site, "flip-axes-distinct", f"letters map to axes {amap}"):
        return None
    return amap


def digest(arrs, files):
    hsh = hashlib.blake2b(digest_size=8)
    for a in arrs:
        a = np.ascontiguousarray(a)
        hsh.update(repr((a.shape, str(a.dtype))).encode())
        hsh.update(a.tobytes())
    for f in files:
        if os.path.exists(f):
            with open(f, "rb") as fh:
                hsh.update(fh.read()[1024:])
    return hsh.hexdigest()


def check_files(obs, site, files, expected_nyx, dtype, vcls):
    """The written file(s), parsed independently, hold the (n,y,x) result with the input dtype."""
    for fpath, E in zip(files, expected_nyx):
        if not os.path.exists(fpath):
            obs.fail(site, "file-written", f"{fpath} was not written", cls=vcls)
            continue
        obs.fire("file-written")
        try:
            p = mrcfmt.parse(fpath)
        except mrcfmt.MRCError as e:
            obs.fail(site, "file-valid", str(e), cls=vcls)
            continue
        n, h, w = E.shape
        ok = obs.check((p["nx"], p["ny"], p["nz"]) == (w, h, n), site, "file-dims",
                       lambda: f"header nx,ny,nz = {(p['nx'], p['ny'], p['nz'])}, result is {w} wide, {h} high, {n} tilts", cls=vcls)
        if ok:
            F = np.asarray(p["data"]).transpose(2, 1, 0)
            obs.check(np.array_equal(F.astype(np.float64), E.astype(np.float64)), site, "file-values",
                      lambda: "file differs from the returned result: " + matches(F, E, dtype)[2], cls=vcls)
        obs.check(p["dtype"] == np.dtype(DT[dtype]).str[1:], site, "file-dtype", lambda: f"file mode holds {p['dtype']}, input stack was {dtype}", cls=vcls)


# ------------------------------------------------------------------------------------------------------------------
# family 1: depth 1, all variants


def exec_depth1(case, obs):
    from cryocat import tiltstack as ts

    (n, w, h, dtype), op, (src_kind, in_order, out_order, with_file), seed = case
    clean_cwd()
    S = stack(n, w, h, dtype, seed)
    keep = S.copy()
    kind = op[0]
    site = SITE[kind]
    vcls = f"src={src_kind},in={in_order},out={out_order}"

    # ---- baseline variant against the model
    shared_args = {}
    base = [np.asarray(r) for r in call(obs, ts, op, S, "zyx", "zyx", None, args=shared_args)]
    if kind == "flip":
        amap = flip_axis_map(obs, ts, dtype)
        if amap is None:
            obs.outcome = ("flip-unjudgeable",)
            return
        axes = (op[1],) if isinstance(op[1], str) else op[1]
        want = [flip_model(S, axes, amap)]
        ok, _E, det = matches(base[0], want[0], dtype)
        obs.check(ok, site, "flip-composition", det)
        expected = want
    else:
        want = model(S, op)
        expected = []
        if not obs.check(len(base) == len(want), site, "result-count", f"{len(base)} arrays returned, {len(want)} expected"):
            obs.outcome = ("bad-count",)
            return
        for r, wnt in zip(base, want):
            ok, E, det = matches(r, wnt, dtype)
            obs.check(ok, site, OP_CLAUSE[kind], det)
            expected.append(E if ok else (wnt if not isinstance(wnt, tuple) else r))
        if kind == "split":
            inter = np.empty_like(S)
            if base[0].shape[0] + base[1].shape[0] == n and base[0].shape[1:] == S.shape[1:] and base[1].shape[1:] == S.shape[1:] and base[0].shape[0] == (n + 1) // 2:
                inter[0::2] = base[0]
                inter[1::2] = base[1]
                obs.check(np.array_equal(inter, S), site, "split-interleaves-back", "even/odd halves do not interleave back to the input")
            else:
                obs.check(False, site, "split-interleaves-back", f"halves have {base[0].shape[0]} and {base[1].shape[0]} tilts for n={n}")
    if kind in ("sort", "remove", "split", "flip", "crop"):
        obs.check(all(b.dtype == S.dtype for b in base), site, "dtype-preserved", lambda: f"returned {[str(b.dtype) for b in base]} for a {dtype} stack")
    obs.nontrivial = not (len(expected) == 1 and expected[0].shape == S.shape and np.array_equal(expected[0], S))

    # ---- enumerated variant against the baseline
    if src_kind == "file":
        mrcfmt.write("c15_in.mrc", S.transpose(2, 1, 0), ispg=0)
        with open("c15_in.mrc", "rb") as f:
            in_bytes = f.read()
        src = "c15_in.mrc"
    else:
        src = np.ascontiguousarray(S.transpose(2, 1, 0)) if in_order == "xyz" else S
        src_keep = src.copy()
    out_file = "c15_out.mrc" if with_file else None
    res = call(obs, ts, op, src, in_order, out_order, out_file, args=shared_args)
    if src_kind == "file":
        with open("c15_in.mrc", "rb") as f:
            obs.check(f.read() == in_bytes, site, "input-untouched", "the input file was modified", cls="file")
    else:
        obs.check(np.array_equal(src, src_keep), site, "input-untouched", "the caller's array was modified", cls="array")
    obs.check(np.array_equal(S, keep), site, "input-untouched", "the caller's array was modified by the baseline call", cls="array")
    got = [to_nyx(r, out_order) for r in res]
    same_n = obs.check(len(got) == len(base), site, "result-count", f"{len(got)} arrays vs {len(base)}", cls=vcls)
    if same_n:
        for g, b, r in zip(got, base, res):
            want_shape = b.shape[::-1] if out_order == "xyz" else b.shape
            obs.check(np.asarray(r).shape == want_shape, site, "returned-axis-order",
                      lambda: f"returned shape {np.asarray(r).shape}; the result has (n,h,w) = {b.shape} and output_order={out_order}", cls=vcls)
            obs.check(g.shape == b.shape and np.array_equal(g, b) and g.dtype == b.dtype, site, "variant-invariance",
                      lambda: f"differs from the array/zyx/zyx call: shape {g.shape} vs {b.shape}, dtype {g.dtype} vs {b.dtype}; "
                              + (matches(g, b, dtype)[2] if g.shape == b.shape else ""), cls=vcls)
        if with_file:
            check_files(obs, site, out_files(op, out_file), base, dtype, vcls)
    # ---- flipping twice is the identity (second application through the channel the first one produced)
    if kind == "flip" and same_n:
        if with_file and os.path.exists(out_file):
            again = call(obs, ts, op, out_file, in_order, "zyx", None)[0]
        else:
            again = call(obs, ts, op, np.asarray(res[0]), out_order, "zyx", None)[0]
        obs.check(np.asarray(again).shape == S.shape and np.array_equal(again, S), site, "flip-twice-identity",
                  "applying the same flip to its own output does not restore the stack", cls=vcls)
    obs.outcome = digest([np.asarray(r) for r in res], out_files(op, out_file))


def ops_for(n, w, h, seed, tier):
    ang = angles_for(n, seed)
    ops = []
    for perm in itertools.permutations(ang):
        for k in ("array", "list"):
            ops.append(("sort", tuple(perm), k))
    for size in range(1, n):
        for sub in itertools.combinations(range(n), size):
            for from1 in (True, False):
                idx = tuple(k + 1 for k in sub) if from1 else tuple(sub)
                ops.append(("remove", idx, from1, "list"))
                ops.append(("remove", tuple(reversed(idx)), from1, "array"))
    ops.append(("split",))
    for a in "xyz":
        ops.append(("flip", a))
    for L in (1, 2):
        for axes in itertools.product("xyz", repeat=L):
            ops.append(("flip", tuple(axes)))
    for w2 in range(w, 0, -1):
        for h2 in range(h, 0, -1):
            ops.append(("crop", w2, h2))
    ops += [("crop", None, None), ("crop", None, h - 1), ("crop", w - 1, None)]
    for f in range(1, min(w, h) + 1):
        if w % f == 0 and h % f == 0:
            ops.append(("bin", f))
    return ops


VARIANTS = [(s, i, o, f) for s in ("array", "file") for i in ("zyx", "xyz") for o in ("zyx", "xyz") for f in (False, True)]


def describe_d1(case):
    (n, w, h, dtype), op, (src, i, o, f), seed = case
    return {"stack": {"n_tilts": n, "width": w, "height": h, "dtype": dtype}, "op": list(op), "input": src, "input_order": i, "output_order": o, "output_file": f}


# ------------------------------------------------------------------------------------------------------------------
# family 2: chains through files

CHAIN_OPS = ["sortR", "sortP", "rmFirst1", "rmLast0", "rmMid1", "splitE", "splitO", "flipx", "flipy", "flipz", "cropW", "cropH", "cropWH", "bin2"]


def shape_after(name, shp):
    """Shape-level model of the chain alphabet: -> (n,h,w) after the op, or None when the op is not enabled on shp."""
    n, h, w = shp
    if n < 2 or w < 4 or h < 4:
        return None
    if name in ("sortR", "sortP", "flipx", "flipy", "flipz"):
        return shp
    if name in ("rmFirst1", "rmLast0"):
        return (n - 1, h, w)
    if name == "rmMid1":
        return (n - 1, h, w) if n >= 3 else None
    if name == "splitE":
        return ((n + 1) // 2, h, w)
    if name == "splitO":
        return (n // 2, h, w)
    if name == "cropW":
        return (n, h, w - 1)
    if name == "cropH":
        return (n, h - 2, w)
    if name == "cropWH":
        return (n, h - 1, w - 2)
    if name == "bin2":
        return (n, h // 2, w // 2) if (h % 2 == 0 and w % 2 == 0) else None
    raise ValueError(name)


def concrete(name, shp, seed):
    """Chain symbol -> concrete op tuple for a stack of shape shp, and which returned array/file continues the chain."""
    n, h, w = shp
    ang = angles_for(n, seed)
    if name == "sortR":
        return ("sort", tuple(reversed(ang)), "array"), 0
    if name == "sortP":
        return ("sort", tuple(ang[1:]) + (ang[0],), "list"), 0
    if name == "rmFirst1":
        return ("remove", (1,), True, "list"), 0
    if name == "rmLast0":
        return ("remove", (n - 1,), False, "array"), 0
    if name == "rmMid1":
        return ("remove", (2,), True, "array"), 0
    if name == "splitE":
        return ("split",), 0
    if name == "splitO":
        return ("split",), 1
    if name in ("flipx", "flipy", "flipz"):
        return ("flip", (name[-1],)), 0
    if name == "cropW":
        return ("crop", w - 1, None), 0
    if name == "cropH":
        return ("crop", None, h - 2), 0
    if name == "cropWH":
        return ("crop", w - 2, h - 1), 0
    if name == "bin2":
        return ("bin", 2), 0
    raise ValueError(name)


def chain_space(starts, depth, exact_depth_only=False):
    """Every fully enabled sequence of (symbol, output_order) of length 1..depth (shortest first) from every start."""
    alphabet = [(nm, o) for nm in CHAIN_OPS for o in ("zyx", "xyz")]
    out = []
    for L in range(1, depth + 1):
        for st in starts:
            n, w, h, dtype = st

            def rec(prefix, shp):
                if len(prefix) == L:
                    out.append((st, tuple(prefix)))
                    return
                for sym in alphabet:
                    nxt = shape_after(sym[0], shp)
                    if nxt is None or nxt[0] < 1:
                        continue
                    prefix.append(sym)
                    rec(prefix, nxt)
                    prefix.pop()

            rec([], (n, h, w))
    return Listed(out)


def exec_chain(case, obs):
    from cryocat import tiltstack as ts

    (n, w, h, dtype), seq, seed = case
    clean_cwd()
    S = stack(n, w, h, dtype, seed)
    M = S  # model state (n,y,x)
    cur = "c15_s0.mrc"
    mrcfmt.write(cur, S.transpose(2, 1, 0), ispg=0)
    amap = None
    hist = []
    prev_kind = None
    for k, (name, out_order) in enumerate(seq):
        op, pick = concrete(name, M.shape, seed)
        kind = op[0]
        site = SITE[kind]
        hist.append(name)
        scls = f"chain:after-{prev_kind}" if k else "chain:first"
        in_order = "xyz" if k % 2 == 0 else "zyx"  # irrelevant for file input by the documented contract
        if kind == "flip":
            if amap is None:
                amap = flip_axis_map(obs, ts, dtype)
                if amap is None:
                    obs.outcome = ("flip-unjudgeable",)
                    return
            want = [flip_model(M, op[1], amap)]
            clause = "flip-composition"
        else:
            want = model(M, op)
            clause = OP_CLAUSE[kind]
        out_file = f"c15_s{k + 1}.mrc"
        res = call(obs, ts, op, cur, in_order, out_order, out_file)
        got = [to_nyx(r, out_order) for r in res]
        if not obs.check(len(got) == len(want), site, "result-count", f"{len(got)} arrays returned, {len(want)} expected", cls=scls):
            obs.outcome = ("bad-count",)
            return
        expected = []
        good = True
        for g, wnt in zip(got, want):
            ok, E, det = matches(g, wnt, dtype)
            good = obs.check(ok, site, clause, lambda: f"step {k + 1} of {list(hist)}: {det}", cls=scls) and good
            expected.append(E)
        if not good:
            obs.outcome = ("diverged", k)
            return
        files = out_files(op, out_file)
        before = len(obs.violations)
        check_files(obs, site, files, expected, dtype, scls)
        if len(obs.violations) != before:
            obs.outcome = ("file-diverged", k)
            return
        M = np.asarray(expected[pick])
        cur = files[pick]
        prev_kind = kind
    obs.nontrivial = not (M.shape == S.shape and np.array_equal(M, S))
    with open(cur, "rb") as f:
        obs.outcome = hashlib.blake2b(f.read()[1024:], digest_size=8).hexdigest() + repr(M.shape)


def describe_chain(case):
    (n, w, h, dtype), seq, seed = case
    return {"initial_file": {"n_tilts": n, "width": w, "height": h, "dtype": dtype}, "history": [list(s) for s in seq]}


# ------------------------------------------------------------------------------------------------------------------
# family 3: angles / indices given as text files (secondary; loading itself is C17's business)


def exec_textfile(case, obs):
    from cryocat import tiltstack as ts

    (n, w, h, dtype), op, (src_kind, in_order, out_order, with_file), seed = case
    clean_cwd()
    S = stack(n, w, h, dtype, seed)
    kind = op[0]
    site = SITE[kind]
    if kind == "sort":
        fname = "c15_angles" + op[2]
        with open(fname, "w") as f:
            for a in op[1]:
                f.write(f"{a}\n")
        lop = ("sort", op[1], fname)
        tcls = "text-file-input"
    elif kind == "remove" and len(op) > 3 and op[3] == "csv":
        # metadata table with a boolean ToBeRemoved column: flagged rows are removed, "always from 0" whatever the flag says
        fname = "c15_idx.csv"
        flagged = {(k - 1 if op[2] else k) for k in op[1]}
        with open(fname, "w") as f:
            f.write("TiltAngle,ToBeRemoved\n")
            for k in range(n):
                f.write(f"{angles_for(n, seed)[k]},{'True' if k in flagged else 'False'}\n")
        lop = ("remove", op[1], op[2], fname)
        tcls = "csv-index-input"
    else:
        fname = "c15_idx.txt"
        with open(fname, "w") as f:
            for a in op[1]:
                f.write(f"{a}\n")
        lop = ("remove", op[1], op[2], fname)
        tcls = "text-file-input:single-index" if len(op[1]) == 1 else "text-file-input:indices"
    if src_kind == "file":
        mrcfmt.write("c15_in.mrc", S.transpose(2, 1, 0), ispg=0)
        src = "c15_in.mrc"
    else:
        src = np.ascontiguousarray(S.transpose(2, 1, 0)) if in_order == "xyz" else S
    out_file = "c15_out.mrc" if with_file else None
    obs.transitions += 1
    try:
        kw = {"input_order": in_order, "output_order": out_order, "output_file": out_file}
        with quiet():
            if kind == "sort":
                r = ts.sort_tilts_by_angle(src, fname, **kw)
            else:
                r = ts.remove_tilts(src, fname, numbered_from_1=op[2], **kw)
    except Exception as e:  # noqa: BLE001
        obs.fail(site, f"exception:{type(e).__name__}", f"{type(e).__name__}: {e}", cls=tcls)
        obs.outcome = ("exc", type(e).__name__)
        obs.nontrivial = True
        return
    want = model(S, lop)[0]
    g = to_nyx(r, out_order)
    ok, _E, det = matches(g, want, dtype)
    obs.check(ok, site, OP_CLAUSE[kind], det, cls=tcls)
    obs.nontrivial = not (want.shape == S.shape and np.array_equal(want, S))
    if with_file:
        check_files(obs, site, [out_file], [want], dtype, tcls)
    obs.outcome = digest([np.asarray(r)], [out_file] if out_file else [])


def text_ops(n, seed):
    ang = angles_for(n, seed)
    ops = []
    for perm in itertools.permutations(ang):
        ops.append(("sort", tuple(perm), ".tlt"))
    ops.append(("sort", tuple(reversed(ang)), ".rawtlt"))
    ops.append(("sort", tuple(reversed(ang)), ".txt"))
    for size in range(1, n):
        for sub in itertools.combinations(range(n), size):
            for from1 in (True, False):
                ops.append(("remove", tuple(k + 1 for k in sub) if from1 else tuple(sub), from1))
                ops.append(("remove", tuple(k + 1 for k in sub) if from1 else tuple(sub), from1, "csv"))
    return ops


# ------------------------------------------------------------------------------------------------------------------


def exec_merge(case, obs):
    """merge() is the inverse selection: part files numbered 1..k, concatenated in NUMERIC order of their numbers,
    give back the stack they were cut from (returned array in the requested order, and the written file)."""
    from cryocat import tiltstack as ts

    (k, sizes_kind, naming, dtype), (out_order, with_file), seed = case
    clean_cwd()
    sizes = [1 + ((j + (1 if sizes_kind == "mixed" else 0)) % 2 if sizes_kind != "single" else 0) for j in range(k)]
    n = sum(sizes)
    S = stack(n, 5, 4, dtype, seed)
    pos = 0
    # files are created in an order that is neither numeric nor lexicographic
    parts = []
    for j, sz in enumerate(sizes):
        parts.append((j + 1, S[pos:pos + sz]))
        pos += sz
    for num, P in sorted(parts, key=lambda t: (t[0] * 7) % (k + 1)):
        name = f"part_{num}.mrc" if naming == "plain" else f"part_{num:03d}.mrc"
        mrcfmt.write(name, P.transpose(2, 1, 0), ispg=0)
    out_file = "merged.mrc" if with_file else None
    vcls = f"parts={k},{sizes_kind},{naming},out={out_order}"
    with quiet():
        r = obs.lib("merge", ts.merge, "part_*.mrc", output_file=out_file, output_order=out_order)
    got = to_nyx(r, out_order)
    obs.nontrivial = k >= 2
    ok = obs.check(got.shape == S.shape and np.array_equal(got.astype(np.float64), S.astype(np.float64)), "merge", "merge-concatenates-in-numeric-order",
                   lambda: f"{k} part files of {sizes} tilts: returned shape {got.shape}; first tilt codes {[int(np.asarray(got)[i, 0, 0]) for i in range(min(len(got), 14))] if np.ndim(got) == 3 else '?'}"
                           f" expected {[int(S[i, 0, 0]) for i in range(min(n, 14))]}", cls=vcls)
    if with_file:
        check_files(obs, "merge", ["merged.mrc"], [S], dtype, vcls)
    obs.outcome = (k, sizes_kind, digest([np.asarray(got)], ["merged.mrc"] if with_file else []))


def exec_crop_centre(case, obs):
    """"The central window" needs ONE definition of the centre: for an image edge N and a window edge n either pixel N//2
    lands on window pixel n//2 (cryoCAT's box-centre convention) or pixel (N-1)//2 lands on (n-1)//2.  Each single crop
    with an odd margin is compatible with exactly one of the two; all crops of one image must agree on it."""
    from cryocat import tiltstack as ts

    (w, h, dtype), seed = case
    clean_cwd()
    S = stack(2, w, h, dtype, seed)
    agree = {"x": {"N//2": True, "(N-1)//2": True}, "y": {"N//2": True, "(N-1)//2": True}}
    seen = {"x": [], "y": []}
    for axis, full, other in (("x", w, h), ("y", h, w)):
        for n2 in range(1, full + 1):
            kw = {"new_width": n2, "new_height": None} if axis == "x" else {"new_width": None, "new_height": n2}
            with quiet():
                r = np.asarray(obs.lib("crop", ts.crop, S, input_order="zyx", output_order="zyx", **kw))
            want_shape = (2, h, n2) if axis == "x" else (2, n2, w)
            if not obs.check(r.shape == want_shape, "crop", "crop-central-window", f"{axis}: {full} -> {n2}: shape {r.shape}, expected {want_shape}"):
                continue
            starts = [s0 for s0 in range(0, full - n2 + 1)
                      if np.array_equal(r, S[:, :, s0:s0 + n2] if axis == "x" else S[:, s0:s0 + n2, :])]
            if not obs.check(len(starts) == 1, "crop", "crop-central-window", f"{axis}: {full} -> {n2}: result is not a contiguous window of the image"):
                continue
            s0 = starts[0]
            seen[axis].append((n2, s0))
            agree[axis]["N//2"] &= s0 == full // 2 - n2 // 2
            agree[axis]["(N-1)//2"] &= s0 == (full - 1) // 2 - (n2 - 1) // 2
    for axis, full in (("x", w), ("y", h)):
        obs.check(any(agree[axis].values()), "crop", "crop-one-centre-definition",
                  lambda: f"{axis} edge {full}: window starts (new size, start) {seen[axis]} follow neither 'pixel N//2 -> n//2' nor 'pixel (N-1)//2 -> (n-1)//2' throughout",
                  "odd-margins")
    obs.nontrivial = True
    obs.outcome = (w, h, tuple(k for k, v in agree["x"].items() if v), tuple(k for k, v in agree["y"].items() if v))


def families(tier, seed):
    quick = tier == "quick"
    ns = [2, 3, 4] if quick else [2, 3, 4, 5, 6]
    sizes = [(4, 6), (5, 4), (6, 6)]
    dtypes = ["float32", "int16"]
    pairs = []
    for n in ns:
        for (w, h) in sizes:
            for dt in dtypes:
                for op in ops_for(n, w, h, seed, tier):
                    pairs.append(((n, w, h, dt), op))
    d1 = Mapped(Product(pairs, VARIANTS), lambda c: (c[0][0], c[0][1], c[1], seed))

    n0 = 4 if quick else 5
    starts = [(n0, w, h, dt) for (w, h) in ((8, 12), (10, 8), (12, 12)) for dt in dtypes]
    ch = Mapped(chain_space(starts, 2 if quick else 3), lambda c: (c[0], c[1], seed))

    tpairs = []
    for n in ([3, 4] if quick else [2, 3, 4, 5]):
        for op in text_ops(n, seed):
            tpairs.append(((n, 4, 6, "float32"), op))
    tvars = [("array", "zyx", "zyx", False), ("array", "xyz", "xyz", True), ("file", "xyz", "zyx", True)]
    tf = Mapped(Product(tpairs, tvars), lambda c: (c[0][0], c[0][1], c[1], seed))

    fams = [
        Family("depth1", d1, exec_depth1, describe=describe_d1,
               expect=("sort-ascending-order", "remove-keeps-others-in-order", "split-even-odd", "split-interleaves-back", "crop-central-window",
                       "bin-block-means", "flip-axis-reversal", "flip-axes-distinct", "flip-z-is-tilt-axis", "flip-composition", "flip-twice-identity",
                       "variant-invariance", "returned-axis-order", "file-written", "file-dims", "file-values", "file-dtype", "input-untouched",
                       "dtype-preserved")),
        Family("chains-through-files", ch, exec_chain, describe=describe_chain,
               expect=("sort-ascending-order", "remove-keeps-others-in-order", "split-even-odd", "crop-central-window", "bin-block-means",
                       "flip-composition", "file-dims", "file-values", "file-dtype")),
        Family("text-file-arguments", tf, exec_textfile, describe=describe_d1, expect=()),
    ]
    mk = [1, 2, 3, 9, 10, 11, 13] if quick else list(range(1, 26))
    mcases = [(k, sk, nm, dt) for k in mk for sk in ("single", "alternating", "mixed") for nm in ("plain", "zero-padded") for dt in dtypes]
    fams.append(Family("merge-parts", Mapped(Product(mcases, [("zyx", False), ("xyz", True), ("zyx", True)]), lambda c: (c[0], c[1], seed)), exec_merge,
                       describe=lambda c: {"part_files": c[0][0], "tilts_per_part": c[0][1], "naming": c[0][2], "dtype": c[0][3], "output_order": c[1][0], "output_file": c[1][1]},
                       expect=("merge-concatenates-in-numeric-order", "file-values")))
    csz = [(w_, h_) for w_ in range(4, 13) for h_ in range(4, 13)] if quick else [(w_, h_) for w_ in range(4, 41, 1) for h_ in (4, 5, 12, 13, 27, 40)]
    fams.append(Family("crop-centre-consistency", Mapped(Product([(w_, h_, dt) for (w_, h_) in csz for dt in dtypes]), lambda c: (c[0], seed)), exec_crop_centre,
                       describe=lambda c: {"width": c[0][0], "height": c[0][1], "dtype": c[0][2], "crops": "every new width at full height, every new height at full width"},
                       expect=("crop-one-centre-definition",), min_outcomes=1))
    if not quick:
        big = (25, 40, 28)
        bops = []
        ang = angles_for(25, seed)
        bops += [("sort", tuple(reversed(ang)), "array"), ("sort", tuple(ang[1::2] + ang[0::2]), "list"), ("sort", tuple(ang[7:] + ang[:7]), "array")]
        bops += [("remove", (1,), True, "list"), ("remove", (25,), True, "list"), ("remove", (0, 24), False, "array"),
                 ("remove", tuple(range(2, 26, 2)), True, "list"), ("remove", tuple(range(1, 25)), False, "array")]
        bops += [("split",)] + [("flip", a) for a in "xyz"] + [("flip", ("z", "x")), ("flip", ("y", "x"))]
        bops += [("crop", w2, h2) for w2 in (40, 39, 21, 4, 1) for h2 in (28, 27, 14, 5, 1)] + [("bin", f) for f in (1, 2, 4)]
        bp = [((25, 40, 28, dt), op) for dt in dtypes for op in bops]
        fams.append(Family("upper-bound-stack", Mapped(Product(bp, VARIANTS), lambda c: (c[0][0], c[0][1], c[1], seed)), exec_depth1, describe=describe_d1,
                           expect=("sort-ascending-order", "crop-central-window", "bin-block-means", "file-values")))
    return fams
