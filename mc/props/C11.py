"""C11 — map files round-trip voxels and axis order across MRC / REC / EM; em2mrc / mrc2em."""
import contextlib
import hashlib
import io
import os
import shutil

import numpy as np

from ..engine import Family, HarnessError
from ..space import Listed, Mapped, Product
from ..oracles import emfmt, mrcfmt

RULE = (
    "write-read: cases = array shape (nx,ny,nz) x dtype x extension x data_type option x transpose option; every case "
    "writes with cryomap.write, parses the bytes with an independent MRC/EM parser (header dims, mode, voxel (x,y,z) at "
    "linear offset x+nx(y+ny z)), reads back with cryomap.read under the paired and the opposite transpose and with a "
    "read-side data_type.  Voxel (x,y,z) holds a code injective in (x,y,z), so any axis permutation of a non-cubic "
    "array is visible; one corner of float64 arrays is not representable in float32.  interchange: files built by the "
    "independent writers are read by cryomap.read.  convert: em2mrc/mrc2em on files built by the independent writer or by "
    "cryomap.write x invert x default/explicit output name x overwrite flag x output absent/present.  Non-trivial = the "
    "array is non-cubic (write-read, interchange) / has more than one voxel (convert); distinct = distinct case descriptions."
)
BOUNDS = {
    "quick": "shapes {1,2,3,5}^3 (64, 60 non-cubic) plus 9 shapes with one axis of 17/33/47 (thorough: 18 with 17..47); dtypes float32/float64/int16/int8; ext mrc/rec/em; data_type in "
             "{None,float32,float64,int16}; transpose T/F; conversions on shapes {1,2,5}^3 x 7 (direction,dtype) x 2 sources x "
             "invert x 3 names x 4 overwrite situations",
    "thorough": "shapes {1,2,3,5,7,48}^3 (216); conversions on shapes {1,2,3,5,48}^3; otherwise as quick",
}
ASSUMPTIONS = [
    "MRC2014 and TOM-toolbox EM layouts as implemented in mc/oracles/mrcfmt.py and emfmt.py (x fastest, little endian)",
    "a data_type cast of non-integral floats to int16 is judged only on values whose truncation and rounding agree (codes + 0.25 / + 0.1)",
    "with transpose=False the array is taken to be in file order (z,y,x): header dims are the reversed shape",
    "integer codes avoid the most negative value of the type, so negation is exact",
    "uint16 / float16 / int32 maps are outside the quantifier and not enumerated",
    "wrong-extension calls are judged only for 'raise, or else produce a correct file'; the statement does not pin which",
]
BUDGET_S = {"quick": 300, "thorough": 2400}

DT = {"float32": np.float32, "float64": np.float64, "int16": np.int16, "int8": np.int8}
DISK_OF = {"float32": "f4", "float64": "f4", "int16": "i2", "int8": "i1"}  # after the documented float64 -> float32 narrowing


def codes(shape, dtype, seed=0, small=False):
    """a[x,y,z] = injective code of (x,y,z); floats carry +0.25, float64 has a non-float32 value in the far corner.

    small=True keeps |code| < 32004 (needed when a float array is cast to int16 by the data_type option: an out-of-range
    float -> int cast is undefined); the code is then injective only for arrays of < 32003 voxels.
    """
    nx, ny, nz = shape
    x, y, z = np.meshgrid(np.arange(nx), np.arange(ny), np.arange(nz), indexing="ij")
    c = x + 64 * y + 4096 * z + seed  # injective for sizes <= 64, < 2^18: exact in float32 together with +0.25
    if small:
        c = c % 32003
    if dtype in ("float32", "float64"):
        a = (c + 0.25).astype(DT[dtype])
        a = a * np.where((x + y + z) % 2 == 0, 1, -1).astype(DT[dtype])  # both signs
        if dtype == "float64":
            a[nx - 1, ny - 1, nz - 1] = c[nx - 1, ny - 1, nz - 1] + 0.1  # needs rounding to become float32
            if a.size > 1:
                # a double just below the next integer: float32 rounds it UP to that integer, an integer cast of the double
                # itself truncates it DOWN (order of narrowing and casting is observable)
                a[0, 0, 0] = c[0, 0, 0] + 0.99999999
        return a
    if dtype == "int16":
        return ((c * 7919 + 13) % 65535 - 32767).astype(np.int16)
    return ((c * 37 + 11) % 255 - 127).astype(np.int8)


def expected_on_disk(a, data_type):
    """What the statement pins: the array cast to data_type (if given), float64 narrowed to float32."""
    e = a
    if data_type is not None:
        if np.dtype(data_type).kind == "i" and a.dtype.kind == "f":
            e = np.trunc(a).astype(data_type)  # codes + 0.25 / + 0.1: truncation == rounding towards nearest
        else:
            e = a.astype(data_type)
    if e.dtype == np.float64:
        e = e.astype(np.float32)
    return e


def parse_any(path):
    with open(path, "rb") as f:
        b = f.read()
    if path.endswith(".em"):
        p = emfmt.parse(b)
    else:
        p = mrcfmt.parse(b)
    return p, b


def clean_cwd():
    """The worker's private temp dir is emptied by the engine only after a chunk; cases here need an empty directory."""
    cwd = os.getcwd()
    if not os.path.basename(cwd).startswith("mcw_"):
        raise HarnessError(f"refusing to clean {cwd}: not a worker temp dir")
    for f in os.listdir(cwd):
        q = os.path.join(cwd, f)
        if os.path.isdir(q) and not os.path.islink(q):
            shutil.rmtree(q, ignore_errors=True)
        else:
            os.unlink(q)


@contextlib.contextmanager
def quiet():
    with contextlib.redirect_stdout(io.StringIO()):
        yield


def payload_digest(p):
    """Digest of dims, type and payload – not of the header (mrcfile stamps the current time into a label)."""
    hsh = hashlib.blake2b(digest_size=8)
    hsh.update(repr((p["nx"], p["ny"], p["nz"], p["dtype"])).encode())
    hsh.update(np.ascontiguousarray(p["flat"]).tobytes())
    return hsh.hexdigest()


def same(a, b):
    return a.shape == b.shape and np.array_equal(np.asarray(a, dtype=np.float64), np.asarray(b, dtype=np.float64))


def first_diff(got, want):
    if got.shape != want.shape:
        return f"shape {got.shape} vs expected {want.shape}"
    bad = np.argwhere(np.asarray(got, dtype=np.float64) != np.asarray(want, dtype=np.float64))
    i = tuple(int(v) for v in bad[0])
    return f"{len(bad)} voxels differ; first at {i}: got {got[i]!r}, expected {want[i]!r}"


def shape_cls(shape):
    return "cubic" if len(set(shape)) == 1 else "non-cubic"


# ------------------------------------------------------------------------------------------------------------------
# family 1: write -> bytes -> read


def exec_write_read(case, obs):
    from cryocat import cryomap

    shape, dtype, ext, data_type, transpose, seed = case
    clean_cwd()
    a = codes(shape, dtype, seed, small=(data_type == "int16"))
    keep = a.copy()
    obs.nontrivial = len(set(shape)) > 1
    cls = shape_cls(shape)
    dtn = None if data_type is None else DT[data_type]
    arr = a if transpose else np.ascontiguousarray(a.transpose(2, 1, 0))  # transpose=False: caller supplies (z,y,x)
    fn = "c11_w." + ext
    with quiet():
        obs.lib("cryomap.write", cryomap.write, arr, fn, transpose=transpose, data_type=dtn)
    obs.check(np.array_equal(a, keep) and a.dtype == keep.dtype, "cryomap.write", "input-array-untouched", "the caller's array was modified")
    want = expected_on_disk(a, dtn)
    try:
        p, raw = parse_any(fn)
    except (emfmt.EMError, mrcfmt.MRCError) as e:
        obs.fail("cryomap.write", "file-valid", str(e), cls=ext)
        obs.outcome = ("invalid-file", ext)
        return
    dims = (p["nx"], p["ny"], p["nz"])
    ok_dims = obs.check(dims == tuple(shape), "cryomap.write", "header-dims",
                        lambda: f"header nx,ny,nz = {dims}, array shape (x,y,z) = {tuple(shape)} (transpose={transpose})", cls=cls)
    obs.check(p["dtype"] == want.dtype.str[1:], "cryomap.write", "header-mode",
              lambda: f"on-disk type {p['dtype']}, expected {want.dtype.str[1:]} for input {dtype}, data_type={data_type}")
    if ok_dims:
        # voxel (x,y,z) at linear offset x + nx*(y + ny*z)
        flat_want = np.ascontiguousarray(want.transpose(2, 1, 0)).ravel()
        eq = np.array_equal(np.asarray(p["flat"], dtype=np.float64), flat_want.astype(np.float64))
        obs.check(eq, "cryomap.write", "voxel-offsets",
                  lambda: "payload is not x-fastest: " + first_diff(np.asarray(p["data"]), want), cls=cls)
    # read back, paired option
    with quiet():
        b = obs.lib("cryomap.read", cryomap.read, fn, transpose=transpose)
    want_back = want if transpose else np.ascontiguousarray(want.transpose(2, 1, 0))
    obs.check(b.shape == want_back.shape, "cryomap.read", "read-shape", lambda: f"read back shape {b.shape}, written {want_back.shape}", cls=cls)
    obs.check(same(b, want_back), "cryomap.read", "read-values", lambda: first_diff(b, want_back), cls=cls)
    obs.check(b.dtype == want.dtype, "cryomap.read", "read-dtype", lambda: f"read back dtype {b.dtype}, expected {want.dtype}")
    # opposite option on the read side = the other axis order of the same file
    with quiet():
        c = obs.lib("cryomap.read", cryomap.read, fn, transpose=not transpose)
    want_opp = np.ascontiguousarray(want.transpose(2, 1, 0)) if transpose else want
    obs.check(same(c, want_opp), "cryomap.read", "read-opposite-transpose", lambda: first_diff(c, want_opp), cls=cls)
    # read-side data_type
    with quiet():
        d = obs.lib("cryomap.read", cryomap.read, fn, transpose=transpose, data_type=np.float64)
    obs.check(d.dtype == np.float64 and same(d, want_back), "cryomap.read", "read-data_type",
              lambda: f"dtype {d.dtype}; " + (first_diff(d, want_back) if not same(d, want_back) else ""))
    # the returned array must be detached from the file (writable copy)
    obs.check(b.flags.writeable, "cryomap.read", "read-writable", "returned array is read-only")
    obs.outcome = payload_digest(p)


# ------------------------------------------------------------------------------------------------------------------
# family 2: files from the independent writers are read correctly (interchange with other software)


def exec_interchange(case, obs):
    from cryocat import cryomap

    shape, dtype, ext, seed = case
    clean_cwd()
    a = codes(shape, dtype, seed)
    obs.nontrivial = len(set(shape)) > 1
    cls = shape_cls(shape)
    fn = "c11_i." + ext
    if ext == "em":
        emfmt.write(fn, a)
    else:
        mrcfmt.write(fn, a)
    with quiet():
        b = obs.lib("cryomap.read", cryomap.read, fn)
    obs.check(b.shape == a.shape, "cryomap.read", "foreign-shape", lambda: f"shape {b.shape}, file holds (nx,ny,nz) = {a.shape}", cls=cls)
    obs.check(same(b, a) and b.dtype == a.dtype, "cryomap.read", "foreign-values",
              lambda: f"dtype {b.dtype} vs {a.dtype}; " + (first_diff(b, a) if not same(b, a) else ""), cls=cls)
    with quiet():
        c = obs.lib("cryomap.read", cryomap.read, fn, transpose=False)
    obs.check(same(c, a.transpose(2, 1, 0)), "cryomap.read", "foreign-untransposed", lambda: first_diff(c, a.transpose(2, 1, 0)), cls=cls)
    # and written again: byte payload identical to the foreign file's
    out = "c11_i2." + ext
    with quiet():
        obs.lib("cryomap.write", cryomap.write, b, out)
    try:
        p, _raw = parse_any(out)
    except (emfmt.EMError, mrcfmt.MRCError) as e:
        obs.fail("cryomap.write", "file-valid", str(e), cls=ext)
        obs.outcome = ("invalid-file", ext)
        return
    want = expected_on_disk(a, None)
    obs.check((p["nx"], p["ny"], p["nz"]) == a.shape and same(np.asarray(p["data"]), want) and p["dtype"] == want.dtype.str[1:],
              "cryomap.write", "foreign-rewrite", lambda: f"dims {(p['nx'], p['ny'], p['nz'])} type {p['dtype']}", cls=cls)
    # inversion requested on its own: every voxel negated (where the type can hold the negative), same shape, same file layout
    inv_out = "c11_inv." + ext
    with quiet():
        iv = obs.lib("invert_contrast", cryomap.invert_contrast, fn, inv_out)
    af = a.astype(np.float64)
    holds = np.ones(a.shape, dtype=bool) if a.dtype.kind == "f" else (a != np.iinfo(a.dtype).min)
    iv = np.asarray(iv)
    if obs.check(iv.shape == a.shape, "invert_contrast", "inverted-shape", lambda: f"shape {iv.shape} vs {a.shape}", cls=cls):
        obs.check(bool(np.array_equal(iv.astype(np.float64)[holds], -af[holds])), "invert_contrast", "inverted-values-negated",
                  lambda: first_diff(iv.astype(np.float64), -af), cls=cls)
    try:
        pi, _raw = parse_any(inv_out)
        di = np.asarray(pi["data"])
        wf = (-af).astype(np.float32).astype(np.float64) if a.dtype == np.float64 else -af   # float64 data is narrowed to float32 on disk
        obs.check((pi["nx"], pi["ny"], pi["nz"]) == a.shape and bool(np.array_equal(di.astype(np.float64)[holds], wf[holds])), "invert_contrast", "inverted-file-negated",
                  lambda: f"dims {(pi['nx'], pi['ny'], pi['nz'])}; " + (first_diff(di.astype(np.float64), wf) if di.shape == a.shape else ""), cls=cls)
        wdt = np.dtype(np.float32) if a.dtype == np.float64 else a.dtype
        obs.check(pi["dtype"] == wdt.str[1:], "invert_contrast", "inverted-file-type", lambda: f"file holds {pi['dtype']}, the map was {a.dtype}", cls=cls)
    except (emfmt.EMError, mrcfmt.MRCError) as e:
        obs.fail("invert_contrast", "file-valid", str(e), cls=ext)
    obs.outcome = (b.shape, str(b.dtype), float(np.asarray(b, dtype=np.float64).ravel()[-1]))


# ------------------------------------------------------------------------------------------------------------------
# family 3: em2mrc / mrc2em

NAMES = ["m", "vol.em.mrc.v2", "d.em.mrc/x"]  # stem; the input gets the proper extension appended
OW = ["fresh,overwrite=True", "existing,overwrite=True", "fresh,overwrite=False", "existing,overwrite=False"]


def exec_convert(case, obs):
    from cryocat import cryomap

    direction, dtype, source, shape, invert, stem, explicit, ow, seed = case
    clean_cwd()
    a = codes(shape, dtype, seed)
    obs.nontrivial = a.size > 1
    cls = shape_cls(shape)
    in_ext, out_ext = (".em", ".mrc") if direction == "em2mrc" else (".mrc", ".em")
    if "/" in stem:
        os.makedirs(os.path.dirname(stem), exist_ok=True)
    src = stem + in_ext
    if source == "oracle-writer":
        (emfmt if in_ext == ".em" else mrcfmt).write(src, a)
    else:
        with quiet():
            obs.lib("cryomap.write", cryomap.write, a, src)
    with open(src, "rb") as f:
        src_bytes = f.read()
    default_out = stem + out_ext
    out = ("c11_explicit" + out_ext) if explicit else default_out
    existing = ow.startswith("existing")
    overwrite = ow.endswith("True")
    sentinel = b"SENTINEL-not-a-map-file" * 3
    if existing:
        with open(out, "wb") as f:
            f.write(sentinel)
    fun = cryomap.em2mrc if direction == "em2mrc" else cryomap.mrc2em
    kw = {"invert": invert, "overwrite": overwrite}
    if explicit:
        kw["output_name"] = out
    raised = None
    with quiet():
        if existing and not overwrite:
            try:
                fun(src, **kw)
            except Exception as e:  # noqa: BLE001  (a refusal is expected to be an exception; its type is not pinned)
                raised = type(e).__name__
            obs.transitions += 1
        else:
            obs.lib(direction, fun, src, **kw)
    with open(src, "rb") as f:
        obs.check(f.read() == src_bytes, direction, "input-file-untouched", "the input file was modified")
    if existing and not overwrite:
        with open(out, "rb") as f:
            now = f.read()
        obs.check(now == sentinel, direction, "refuses-overwrite", f"existing output was replaced ({len(now)} bytes), call raised {raised}")
        obs.outcome = ("refused", raised)
        return
    if explicit:
        obs.check(not os.path.exists(default_out), direction, "explicit-name-only", f"default-named file {default_out} was created although output_name was given")
    if not os.path.exists(out):
        obs.fail(direction, "output-name", f"expected output {out!r} not found; directory holds {sorted(os.listdir(os.path.dirname(out) or '.'))}",
                 cls="explicit" if explicit else "default")
        obs.outcome = ("no-output",)
        return
    obs.fire("output-name")
    try:
        p, raw = parse_any(out)
    except (emfmt.EMError, mrcfmt.MRCError) as e:
        obs.fail(direction, "file-valid", str(e), cls=out_ext)
        obs.outcome = ("invalid-file",)
        return
    want = expected_on_disk(a, None)
    if invert:
        want = -want
    ok = obs.check((p["nx"], p["ny"], p["nz"]) == tuple(shape), direction, "header-dims",
                   lambda: f"header {(p['nx'], p['ny'], p['nz'])}, input (nx,ny,nz) = {tuple(shape)}", cls=cls)
    if ok:
        got = np.asarray(p["data"])
        if not same(got, want):
            neg = same(got, -want)
            obs.check(False, direction, "voxels-negated-iff-invert" if neg else "voxels-preserved",
                      (f"invert={invert} but the output is the {'un' if invert else ''}negated input; " if neg else "") + first_diff(got, want), cls=cls)
        else:
            obs.fire("voxels-preserved", "voxels-negated-iff-invert")
    # the on-disk type of a converted file is not pinned by the statement ("preserve every voxel"): recorded in the outcome, not judged
    # the converted file read by the library gives the (negated) array
    with quiet():
        b = obs.lib("cryomap.read", cryomap.read, out)
    obs.check(same(b, want), "cryomap.read", "converted-read-values", lambda: first_diff(b, want), cls=cls)
    obs.outcome = payload_digest(p)


# ------------------------------------------------------------------------------------------------------------------
# family 4: wrong extensions – "raise, or else be right"

WRONG = [
    ("em2mrc", "input", "in.dat"), ("em2mrc", "input", "in.mrc"), ("em2mrc", "output", "out.rec"), ("em2mrc", "output", "out.em"),
    ("em2mrc", "output", "out"), ("mrc2em", "input", "in.dat"), ("mrc2em", "input", "in.em"), ("mrc2em", "output", "out.mrc"),
    ("mrc2em", "output", "out.emx"), ("write", "output", "out.map"), ("write", "output", "out.em.txt"), ("read", "input", "in.map"),
]


def exec_wrong_ext(case, obs):
    from cryocat import cryomap

    (kind, which, name), dtype, seed = case
    shape = (2, 3, 5)
    clean_cwd()
    a = codes(shape, dtype, seed)
    obs.nontrivial = True
    before = set(os.listdir("."))
    raised = None
    want = expected_on_disk(a, None)
    with quiet():
        try:
            if kind in ("em2mrc", "mrc2em"):
                in_ext = ".em" if kind == "em2mrc" else ".mrc"
                wr = emfmt if kind == "em2mrc" else mrcfmt
                fun = getattr(cryomap, kind)
                if which == "input":
                    wr.write(name, a)
                    before.add(name)
                    fun(name)
                else:
                    wr.write("ok" + in_ext, a)
                    before.add("ok" + in_ext)
                    fun("ok" + in_ext, output_name=name)
            elif kind == "write":
                cryomap.write(a, name)
            else:
                emfmt.write(name, a)
                before.add(name)
                got = cryomap.read(name)
                obs.check(same(got, want), "cryomap.read", "wrong-ext-raise-or-right", "accepted an unknown extension and returned other values")
        except Exception as e:  # noqa: BLE001
            raised = type(e).__name__
    obs.transitions += 1
    new = sorted(set(os.listdir(".")) - before)
    if raised is not None:
        obs.check(not new, kind, "wrong-ext-raise-or-right", f"raised {raised} but left files {new}")
    elif kind != "read":
        ok = False
        for fnew in new:
            for parser in (mrcfmt, emfmt):
                try:
                    p = parser.parse(fnew)
                    ok = ok or ((p["nx"], p["ny"], p["nz"]) == shape and same(np.asarray(p["data"]), want))
                except (emfmt.EMError, mrcfmt.MRCError):
                    pass
        obs.check(ok, kind, "wrong-ext-raise-or-right", f"accepted {name!r} without raising but no correct map file was produced (new files {new})")
    obs.outcome = (kind, which, name, raised)


# ------------------------------------------------------------------------------------------------------------------


def _layout_family(wr, exec_write_read, d_wr):
    """write-read on a strided sub-space, with the array handed over Fortran-ordered / as a strided view"""
    from ..engine import with_array_layouts
    from ..space import Listed
    base = Family("write-read", Listed([wr[i] for i in range(0, len(wr), 7)]), exec_write_read, describe=d_wr)
    return with_array_layouts(base, expect=("header-dims", "voxel-offsets", "read-values"))


def families(tier, seed):
    sizes = [1, 2, 3, 5] if tier == "quick" else [1, 2, 3, 5, 7, 48]
    shapes = sorted(((x, y, z) for x in sizes for y in sizes for z in sizes), key=lambda s: (s[0] * s[1] * s[2], s))
    csizes = [1, 2, 5] if tier == "quick" else [1, 2, 3, 5, 48]
    cshapes = sorted(((x, y, z) for x in csizes for y in csizes for z in csizes), key=lambda s: (s[0] * s[1] * s[2], s))
    # one axis longer than 16 / 32 and not a multiple of 16 (slab- or block-wise writers), on every axis position
    longs = [17, 33, 47] if tier == "quick" else [17, 23, 31, 33, 41, 47]
    extra = [tuple(L if a == ax else (2, 3, 1)[(a + k) % 3] for a in range(3)) for k, L in enumerate(longs) for ax in range(3)]
    shapes = shapes + extra
    cshapes = cshapes + extra[: (6 if tier == "quick" else len(extra))]
    dtypes = ["float32", "float64", "int16", "int8"]
    exts = ["mrc", "rec", "em"]
    dts = [None, "float32", "float64", "int16"]

    wr = Mapped(Product(shapes, dtypes, exts, dts, [True, False]), lambda c: c + (seed,))
    ic_list = [(s, d, e) for s in shapes for e in exts for d in (dtypes if e == "em" else ["float32", "int16", "int8"])]
    ic = Mapped(Listed(ic_list), lambda c: c + (seed,))
    dirdt = [("em2mrc", d) for d in dtypes] + [("mrc2em", d) for d in ("float32", "int16", "int8")]
    # a float64 EM file can only come from the independent writer (cryomap.write narrows): both sources are still run,
    # the library-written source then simply holds float32.
    cv = Mapped(
        Product(dirdt, ["oracle-writer", "cryomap.write"], cshapes, [False, True], NAMES, [False, True], OW),
        lambda c: (c[0][0], c[0][1], c[1], c[2], c[3], c[4], c[5], c[6], seed),
    )
    we = Mapped(Product(WRONG, ["float32", "int16"]), lambda c: c + (seed,))

    def d_wr(c):
        return {"shape_xyz": list(c[0]), "dtype": c[1], "ext": c[2], "data_type": c[3], "transpose": c[4]}

    def d_ic(c):
        return {"shape_xyz": list(c[0]), "dtype": c[1], "ext": c[2], "written_by": "independent writer"}

    def d_cv(c):
        return {"direction": c[0], "dtype": c[1], "input_written_by": c[2], "shape_xyz": list(c[3]), "invert": c[4], "stem": c[5],
                "explicit_output_name": c[6], "situation": c[7]}

    def d_we(c):
        return {"call": c[0][0], "wrong": c[0][1], "name": c[0][2], "dtype": c[1]}

    return [
        Family("write-read", wr, exec_write_read, describe=d_wr,
               expect=("header-dims", "header-mode", "voxel-offsets", "read-shape", "read-values", "read-dtype", "read-opposite-transpose",
                       "read-data_type", "input-array-untouched")),
        Family("interchange", ic, exec_interchange, describe=d_ic, expect=("foreign-shape", "foreign-values", "foreign-untransposed", "foreign-rewrite")),
        Family("convert", cv, exec_convert, describe=d_cv,
               expect=("header-dims", "voxels-preserved", "voxels-negated-iff-invert", "refuses-overwrite", "output-name", "explicit-name-only",
                       "input-file-untouched", "converted-read-values")),
        Family("wrong-extension", we, exec_wrong_ext, describe=d_we, expect=("wrong-ext-raise-or-right",)),
        _layout_family(wr, exec_write_read, d_wr),
    ]
