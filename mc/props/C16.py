"""C16 — dose filtering is the Grant-Grigorieff exposure attenuation, per image, at every frequency."""
import contextlib
import io
import os
import shutil

import numpy as np

from ..engine import Family, HarnessError, h64
from ..space import Listed, Mapped, Product
from ..oracles import fourier, mrcfmt

RULE = (
    "plane-waves: cases = image size (w,h) x pixel size x EVERY lattice frequency (kx,ky) in [0,w)x[0,h) x phase (cos, sin) "
    "x cyclic shift of the dose list x input_order x output_order; the stack holds one copy of amp*wave+offset per dose, "
    "image i must come back as gain(dose_i, f(kx,ky))*amp*wave+offset with the documented formula (oracle: "
    "mc/oracles/fourier.py).  dft-pairing: stacks of 1..10 different pseudo-random images, every cyclic shift of an "
    "n-long dose list, doses as ndarray / list: the 2-D DFT of output image i equals gain-table(dose_i) times the DFT of "
    "input image i at every frequency; mean kept; power never increases.  algebra: linearity on image pairs, "
    "filter(d2) o filter(d1) = filter(d1+d2), more dose attenuates more, zero dose = identity.  Non-trivial = some image "
    "has dose > 0 and energy at a non-zero frequency; distinct = distinct case descriptions."
)
BOUNDS = {
    "quick": "(w,h) in {4,5,6,7}^2; px in {0.5,1.35,10}; doses {0,1.5,30,300} (4 shifts); all w*h frequencies x cos/sin; 4 order "
             "combinations; dft-pairing n = 1..10 with all n shifts of a 10-dose palette; algebra on 16 ordered dose pairs",
    "thorough": "(w,h) in {4,5,6,7,8,9}^2 plus (64,4),(4,64),(64,63) for dft-pairing/algebra; otherwise as quick",
}
ASSUMPTIONS = [
    "float64 stacks: max-abs tolerance 1e-10*||image||_2 (DESIGN 2.6); float32 arrays / MRC files: 1e-5*||image||_2",
    "gain at f = 0 is 1 (critical exposure -> infinity)",
    "int16 stacks are excluded: the library truncates the filtered floats back to the input dtype; the property is about the attenuation",
    "doses are passed as ndarray or list; a dose TEXT file is a secondary family (cls text-file-input), loading belongs to C17",
    "a stack of one image is also given as a single-image MRC file (ispg 0, as IMOD writes it) and as a 2-D array (secondary family, "
    "cls names the input form); whether a bare 2-D array counts as a 'stack of 1 image' is for the reader of the finding to decide",
]
BUDGET_S = {"quick": 300, "thorough": 2400}

DOSES4 = (0.0, 1.5, 30.0, 300.0)
DOSES10 = (0.0, 0.5, 1.5, 3.0, 10.0, 30.0, 60.0, 100.0, 200.0, 300.0)
SITE = "dose_filter"


def clean_cwd():
    cwd = os.getcwd()
    if not os.path.basename(cwd).startswith("mcw_"):
        raise HarnessError(f"refusing to clean {cwd}: not a worker temp dir")
    for f in os.listdir(cwd):
        q = os.path.join(cwd, f)
        if os.path.isdir(q) and not os.path.islink(q):
            shutil.rmtree(q, ignore_errors=True)
        else:
            os.unlink(q)


@contextlib.contextmanager
def quiet():
    with contextlib.redirect_stdout(io.StringIO()), np.errstate(all="ignore"):
        yield


def prng(*key):
    """Deterministic generator for representative numbers (never for choosing cases)."""
    return np.random.RandomState(h64(("C16",) + key) & 0x7FFFFFFF)


def shifted(doses, s):
    n = len(doses)
    return tuple(doses[(i + s) % n] for i in range(n))


def as_input(S, in_order):
    """S is (n,h,w); the library takes (w,h,n) for 'xyz' and (n,h,w) for 'zyx'."""
    return np.ascontiguousarray(S.transpose(2, 1, 0)) if in_order == "xyz" else S.copy()


def to_nyx(r, out_order):
    r = np.asarray(r)
    return r.transpose(2, 1, 0) if (out_order == "xyz" and r.ndim == 3) else r


def dose_arg(doses, kind):
    if kind == "array":
        return np.array(doses, dtype=np.float64)
    if kind == "list":
        return [float(d) for d in doses]
    raise ValueError(kind)


def run_filter(obs, S, px, doses, in_order="zyx", out_order="zyx", kind="array", out_file=None, src=None):
    from cryocat import tiltstack as ts

    arg = as_input(S, in_order) if src is None else src
    with quiet():
        r = obs.lib(SITE, ts.dose_filter, arg, px, dose_arg(doses, kind), output_file=out_file,
                    input_order=in_order, output_order=out_order)
    r = np.asarray(r)
    n, h, w = S.shape
    want_shape = (w, h, n) if out_order == "xyz" else (n, h, w)
    if not obs.check(r.shape == want_shape, SITE, "returned-axis-order", f"returned shape {r.shape}, expected {want_shape} for output_order={out_order}",
                     cls=f"in={in_order},out={out_order}"):
        return None
    return to_nyx(r, out_order)


def size_cls(w, h):
    return ("square" if w == h else "non-square") + "," + ("odd" if (w % 2 or h % 2) else "even")


# ------------------------------------------------------------------------------------------------------------------
# family 1: every frequency as a plane wave


def exec_waves(case, obs):
    (w, h), px, (kx, ky), phase, s, (in_order, out_order), seed = case
    amp = (1.0, 2.5, 0.75, 3.0)[seed % 4]
    offset = (0.5, -1.25, 2.0, 0.0)[seed % 4]
    wave = fourier.plane_wave(w, h, kx, ky, phase)
    doses = shifted(DOSES4, s)
    img = amp * wave + offset
    S = np.repeat(img[None, :, :], len(doses), axis=0)
    keep = S.copy()
    f = fourier.spatial_frequency(kx, ky, w, h, px)
    vanishing = phase == "sin" and fourier.is_self_conjugate(kx, ky, w, h)
    obs.nontrivial = (not vanishing) and (kx, ky) != (0, 0)
    out = run_filter(obs, S, px, doses, in_order, out_order)
    if out is None:
        obs.outcome = ("bad-shape",)
        return
    cls = size_cls(w, h)
    tol = 1e-10 * max(1.0, float(np.linalg.norm(img)))
    gains = []
    for i, d in enumerate(doses):
        g = 1.0 if (kx, ky) == (0, 0) else fourier.gg_gain(d, f)
        want = g * amp * wave + offset
        err = float(np.max(np.abs(out[i] - want)))
        if (kx, ky) == (0, 0) or vanishing:
            obs.check(err <= tol, SITE, "dc-untouched", f"constant image {img[0, 0]} with dose {d} came back with max error {err:.3e}", cls=cls)
        elif d == 0:
            obs.check(err <= tol, SITE, "zero-dose-identity", f"dose 0, image {i}: max change {err:.3e}", cls=cls)
        else:
            if err > tol:
                # classify: right formula, wrong image's dose? (per-image pairing)
                other = [d2 for d2 in doses if d2 != d and float(np.max(np.abs(out[i] - (fourier.gg_gain(d2, f) * amp * wave + offset)))) <= tol]
                denom = float(np.sum((amp * wave) ** 2))
                eff = float(np.sum((out[i] - offset) * amp * wave) / denom) if denom > 0 else float("nan")
                if other:
                    obs.check(False, SITE, "per-image-dose-pairing", f"image {i} (dose {d}) was attenuated with dose {other[0]} of another image; doses {doses}", cls=cls)
                else:
                    obs.check(False, SITE, "wave-gain", f"k=({kx},{ky}) {phase} size {w}x{h} px {px} dose {d}: f={f:.6g} 1/A expected gain {g:.12g}, "
                                                        f"observed projection gain {eff:.12g}, max error {err:.3e}", cls=cls)
            else:
                obs.fire("wave-gain", "per-image-dose-pairing")
        obs.check(abs(float(out[i].mean()) - float(img.mean())) <= tol, SITE, "mean-unchanged", f"image {i}: mean {img.mean()} -> {out[i].mean()}", cls=cls)
        gains.append(round(g, 12))
    obs.check(np.array_equal(S, keep), SITE, "input-untouched", "the caller's stack was modified")
    obs.outcome = (w, h, px, tuple(gains), round(float(np.abs(out).sum()), 9))


# ------------------------------------------------------------------------------------------------------------------
# family 2: stacks of 1..10 different images, every cyclic dose shift, DFT comparison


def random_stack(n, w, h, seed, tag=""):
    rs = prng(seed, "img", n, w, h, tag)
    return rs.standard_normal((n, h, w)) + 3.0


def dft_check(obs, S, out, doses, w, h, px, tol_rel, cls):
    ok_all = True
    for i, d in enumerate(doses):
        G = fourier.gg_gain_table(w, h, px, d)
        FI = np.fft.fft2(S[i])
        FO = np.fft.fft2(out[i])
        nrm = float(np.linalg.norm(S[i]))
        tol = tol_rel * max(1.0, nrm) * np.sqrt(w * h)  # DFT is sqrt(w*h) times an isometry
        err = np.abs(FO - G * FI)
        if float(err.max()) > tol:
            ky, kx = np.unravel_index(int(np.argmax(err)), err.shape)
            # does another image's dose explain this image?
            other = [d2 for d2 in doses if d2 != d and float(np.abs(FO - fourier.gg_gain_table(w, h, px, d2) * FI).max()) <= tol]
            if other:
                ok_all = obs.check(False, SITE, "per-image-dose-pairing", f"image {i} (dose {d}) was filtered with dose {other[0]}; doses {doses}", cls=cls) and ok_all
            else:
                ratio = abs(FO[ky, kx]) / abs(FI[ky, kx]) if abs(FI[ky, kx]) > 0 else float("nan")
                ok_all = obs.check(False, SITE, "dft-gain", f"image {i} dose {d} size {w}x{h} px {px}: at k=({kx},{ky}) expected gain {G[ky, kx]:.12g}, "
                                                           f"observed |ratio| {ratio:.12g}, error {err.max():.3e}", cls=cls) and ok_all
        else:
            obs.fire("dft-gain", "per-image-dose-pairing")
        obs.check(abs(FO[0, 0] - FI[0, 0]) <= tol, SITE, "dc-untouched", f"image {i}: DC {FI[0, 0]} -> {FO[0, 0]}", cls=cls)
        obs.check(bool(np.all(np.abs(FO) <= np.abs(FI) + tol)), SITE, "power-never-increases", f"image {i} dose {d}: some |F_out| > |F_in|", cls=cls)
        if d == 0:
            obs.check(float(np.max(np.abs(out[i] - S[i]))) <= tol_rel * max(1.0, nrm), SITE, "zero-dose-identity", f"image {i}: dose 0 changed the image", cls=cls)
    return ok_all


def exec_pairing(case, obs):
    (w, h), px, n, s, order, kind, seed = case
    S = random_stack(n, w, h, seed)
    doses = shifted(DOSES10[:n], s) if n > 1 else (30.0,)
    obs.nontrivial = any(d > 0 for d in doses)
    out = run_filter(obs, S, px, doses, order, order, kind)
    if out is None:
        obs.outcome = ("bad-shape",)
        return
    dft_check(obs, S, out, doses, w, h, px, 1e-10, size_cls(w, h) + f",n={'1' if n == 1 else '>1'}")
    obs.outcome = (w, h, n, s, round(float(np.abs(out).sum()), 8))


# ------------------------------------------------------------------------------------------------------------------
# family 3: algebraic consequences

PAIR_DOSES = (0.0, 1.5, 30.0, 150.0)


def exec_algebra(case, obs):
    (w, h), px, (d1, d2), order, seed = case
    R = random_stack(2, w, h, seed, "alg")
    x, y = R[0], R[1]
    a, b = (2.0, -0.5) if seed % 2 == 0 else (-1.5, 0.25)
    cls = size_cls(w, h)
    nrm = max(1.0, float(np.linalg.norm(x)), float(np.linalg.norm(y)))
    tol = 1e-10 * nrm * (abs(a) + abs(b) + 1)
    obs.nontrivial = d1 > 0 or d2 > 0
    # linearity inside one call: images x, y, a x + b y with the same dose
    S = np.stack([x, y, a * x + b * y])
    o = run_filter(obs, S, px, (d1, d1, d1), order, order)
    if o is None:
        obs.outcome = ("bad-shape",)
        return
    obs.check(float(np.max(np.abs(o[2] - (a * o[0] + b * o[1])))) <= tol, SITE, "linearity", f"filter(a x + b y) != a filter(x) + b filter(y), dose {d1}", cls=cls)
    # composition
    S1 = np.stack([x, y])
    f1 = run_filter(obs, S1, px, (d1, d1), order, order)
    f21 = run_filter(obs, f1, px, (d2, d2), order, order)
    f12 = run_filter(obs, S1, px, (d1 + d2, d1 + d2), order, order)
    if f1 is None or f21 is None or f12 is None:
        obs.outcome = ("bad-shape",)
        return
    obs.check(float(np.max(np.abs(f21 - f12))) <= tol, SITE, "composition", f"filter({d2}) o filter({d1}) differs from filter({d1 + d2}) by {np.max(np.abs(f21 - f12)):.3e}", cls=cls)
    # more dose attenuates more, power never increases
    A0 = np.abs(np.fft.fft2(S1))
    A1 = np.abs(np.fft.fft2(f1))
    A12 = np.abs(np.fft.fft2(f12))
    ftol = tol * np.sqrt(w * h)
    obs.check(bool(np.all(A1 <= A0 + ftol)), SITE, "power-never-increases", f"dose {d1}", cls=cls)
    obs.check(bool(np.all(A12 <= A1 + ftol)), SITE, "more-dose-attenuates-more", f"doses {d1} then {d1 + d2}", cls=cls)
    if d2 > 0 and d1 == 0:
        # strictly more at some non-zero frequency carrying energy (otherwise the dose would be ignored); judged only from
        # the unfiltered image, where the amplitudes are far above the tolerance
        obs.check(bool(np.any(A12 < A1 - ftol)), SITE, "dose-matters", f"adding dose {d2} changed nothing", cls=cls)
    if d1 == 0:
        obs.check(float(np.max(np.abs(f1 - S1))) <= tol, SITE, "zero-dose-identity", "dose 0 changed the images", cls=cls)
    obs.outcome = (w, h, px, d1, d2, round(float(np.abs(f12).sum()), 8))


# ------------------------------------------------------------------------------------------------------------------
# family 4: float32 arrays and MRC files (tolerance of the float32 cast); family 5: dose text file


def exec_f32(case, obs):
    (w, h), px, s, src_kind, (in_order, out_order), seed = case
    clean_cwd()
    n = 4
    S = random_stack(n, w, h, seed, "f32").astype(np.float32)
    doses = shifted(DOSES4, s)
    obs.nontrivial = True
    src = None
    if src_kind == "file":
        mrcfmt.write("c16_in.mrc", S.transpose(2, 1, 0), ispg=0)
        src = "c16_in.mrc"
    out = run_filter(obs, S, px, doses, in_order, out_order, "array", out_file="c16_out.mrc" if src_kind == "file" else None, src=src)
    if out is None:
        obs.outcome = ("bad-shape",)
        return
    dft_check(obs, S.astype(np.float64), out.astype(np.float64), doses, w, h, px, 1e-5, size_cls(w, h) + ",float32-" + src_kind)
    if src_kind == "file":
        # the file it was asked to write holds the filtered stack (x fastest, one section per image)
        try:
            pf = mrcfmt.parse("c16_out.mrc")
            F = np.asarray(pf["data"]).transpose(2, 1, 0)
            obs.check(F.shape == out.shape and bool(np.allclose(F.astype(np.float64), out.astype(np.float64), rtol=1e-6, atol=1e-6)), SITE, "file-holds-result",
                      lambda: f"written file shape {F.shape} vs result {out.shape}" + ("" if F.shape != out.shape else f", max difference {float(np.abs(F - out).max()):.3e}"), cls="output-file")
        except (OSError, mrcfmt.MRCError) as e:
            obs.fail(SITE, "file-holds-result", f"output file missing or invalid: {e}", cls="output-file")
    obs.outcome = (w, h, s, src_kind, round(float(np.abs(out).sum()), 3))


def exec_int16(case, obs):
    """Integer-typed stacks (what a camera writes): the result may come back in the stack's own integer type, i.e. each
    pixel within one count of the attenuated image - the attenuation itself must be the documented one."""
    (w, h), px, s, src_kind, (in_order, out_order), seed = case
    clean_cwd()
    n = 4
    S = np.rint(random_stack(n, w, h, seed, "i16") * 4000.0).astype(np.int16)
    doses = shifted(DOSES4, s)
    obs.nontrivial = True
    src = None
    if src_kind == "file":
        mrcfmt.write("c16_in.mrc", S.transpose(2, 1, 0), ispg=0)
        src = "c16_in.mrc"
    out = run_filter(obs, S, px, doses, in_order, out_order, "array", out_file=None, src=src)
    if out is None:
        obs.outcome = ("bad-shape",)
        return
    cls = size_cls(w, h) + ",int16-" + src_kind
    for i, d in enumerate(doses):
        G = fourier.gg_gain_table(w, h, px, d)
        want = np.real(np.fft.ifft2(G * np.fft.fft2(S[i].astype(np.float64))))
        err = float(np.abs(out[i].astype(np.float64) - want).max())
        moved = float(np.abs(want - S[i]).max())
        obs.check(err <= 1.0 + 1e-6, SITE, "dft-gain", lambda: f"image {i} dose {d} size {w}x{h} px {px}: integer stack differs from the attenuated image by {err:.2f} counts "
                                                               f"(the attenuation itself moves pixels by up to {moved:.1f} counts)", cls=cls)
    obs.outcome = (w, h, s, src_kind, int(np.abs(out.astype(np.int64)).sum()))


def exec_textdose(case, obs):
    from cryocat import tiltstack as ts

    (w, h), px, n, ext, (in_order, out_order), seed = case
    clean_cwd()
    S = random_stack(n, w, h, seed, "txt")
    doses = shifted(DOSES10[:n], 1)
    fname = "c16_dose" + ext
    with open(fname, "w") as f:
        if ext == ".csv":
            # table of a pre-processing log: acquisition number (not ascending in tilt order), tilt, CorrectedDose; file order = image order
            acq = [(7 * i + 3) % n for i in range(n)] if len({(7 * i + 3) % n for i in range(n)}) == n else list(range(n - 1, -1, -1))
            f.write(",TiltAngle,CorrectedDose\n")
            for i, d in enumerate(doses):
                f.write(f"{acq[i]},{-30.0 + 3.0 * i},{d}\n")
        else:
            for d in doses:
                f.write(f"{d}\n")
    obs.nontrivial = True
    obs.transitions += 1
    try:
        with quiet():
            r = ts.dose_filter(as_input(S, in_order), px, fname, input_order=in_order, output_order=out_order)
    except Exception as e:  # noqa: BLE001
        obs.fail(SITE, f"exception:{type(e).__name__}", f"{type(e).__name__}: {e}", cls="text-file-input")
        obs.outcome = ("exc", type(e).__name__)
        return
    out = to_nyx(r, out_order)
    if not obs.check(out.shape == S.shape, SITE, "returned-axis-order", f"shape {np.asarray(r).shape}", cls="text-file-input"):
        obs.outcome = ("bad-shape",)
        return
    dft_check(obs, S, out, doses, w, h, px, 1e-10, "text-file-input")
    obs.outcome = (w, h, n, round(float(np.abs(out).sum()), 8))


def exec_single(case, obs):
    """A stack of ONE image handed over the way other software hands it over: a single-image MRC file or a 2-D array."""
    from cryocat import tiltstack as ts

    (w, h), px, how, out_order, seed = case
    clean_cwd()
    S = random_stack(1, w, h, seed, "single").astype(np.float32)
    doses = (30.0,)
    obs.nontrivial = True
    in_order = "zyx"
    if how.startswith("mrc"):
        mrcfmt.write("c16_one.mrc", S.transpose(2, 1, 0), ispg=0 if how == "mrc-single-image(ispg=0)" else 1)
        src = "c16_one.mrc"
    elif how == "2d-array-xy":
        src, in_order = np.ascontiguousarray(S[0].T), "xyz"
    else:
        src = S[0].copy()
    obs.transitions += 1
    try:
        with quiet():
            r = ts.dose_filter(src, px, np.array(doses), input_order=in_order, output_order=out_order)
    except Exception as e:  # noqa: BLE001
        obs.fail(SITE, f"exception:{type(e).__name__}", f"{type(e).__name__}: {e}", cls=how)
        obs.outcome = ("exc", how, type(e).__name__)
        return
    r = np.asarray(r)
    want_shape = (w, h, 1) if out_order == "xyz" else (1, h, w)
    if not obs.check(r.shape == want_shape, SITE, "returned-axis-order", f"returned shape {r.shape}, expected {want_shape}", cls=how):
        obs.outcome = ("bad-shape", how)
        return
    out = to_nyx(r, out_order)
    dft_check(obs, S.astype(np.float64), out.astype(np.float64), doses, w, h, px, 1e-5, how)
    obs.outcome = (w, h, how, round(float(np.abs(out).sum()), 3))


# ------------------------------------------------------------------------------------------------------------------


def _layouts(pairing, exec_pairing, d_p):
    from ..engine import with_array_layouts
    return with_array_layouts(Family("dft-pairing", pairing, exec_pairing, describe=d_p), expect=("dft-gain", "per-image-dose-pairing"))


def families(tier, seed):
    quick = tier == "quick"
    base = [4, 5, 6, 7] if quick else [4, 5, 6, 7, 8, 9]
    sizes = sorted(((w, h) for w in base for h in base), key=lambda s: (s[0] * s[1], s))
    pxs = [0.5, 1.35, 10.0]
    orders = [("zyx", "zyx"), ("xyz", "xyz"), ("xyz", "zyx"), ("zyx", "xyz")]
    wl = []
    for (w, h) in sizes:
        ks = sorted(((kx, ky) for kx in range(w) for ky in range(h)), key=lambda k: (fourier.signed(k[0], w) ** 2 + fourier.signed(k[1], h) ** 2, k))
        for k in ks:
            wl.append(((w, h), k))
    waves = Mapped(Product(wl, pxs, ["cos", "sin"], range(4), orders), lambda c: (c[0][0], c[1], c[0][1], c[2], c[3], c[4], seed))

    # 13 and 17: edges with a prime factor above 11 (the sizes FFT code is tempted to pad)
    psizes = sizes + [(13, 6), (6, 13), (13, 13)] if quick else sizes + [(13, 6), (6, 13), (13, 13), (17, 5), (64, 4), (4, 64), (64, 63)]
    ns = [(n, s) for n in range(1, 11) for s in range(n)]
    pairing = Mapped(Product(psizes, pxs, ns, ["zyx", "xyz"], ["array", "list"]), lambda c: (c[0], c[1], c[2][0], c[2][1], c[3], c[4], seed))

    dpairs = [(a, b) for a in PAIR_DOSES for b in PAIR_DOSES]
    algebra = Mapped(Product(psizes, pxs, dpairs, ["zyx", "xyz"]), lambda c: c + (seed,))

    f32 = Mapped(Product(sizes, pxs, range(4), ["array", "file"], orders), lambda c: c + (seed,))
    txt = Mapped(Product([(4, 6), (7, 5)], [1.35], [1, 3, 10], [".txt", ".dose", ".csv"], [("zyx", "zyx"), ("xyz", "xyz")]), lambda c: c + (seed,))

    single = Mapped(Product([(4, 6), (7, 5)], [1.35], ["mrc-volume(ispg=1)", "mrc-single-image(ispg=0)", "2d-array-yx", "2d-array-xy"], ["zyx", "xyz"]),
                    lambda c: c + (seed,))

    def d_s(c):
        return {"size_wh": list(c[0]), "pixel_size": c[1], "one_image_given_as": c[2], "output_order": c[3]}

    def d_w(c):
        return {"size_wh": list(c[0]), "pixel_size": c[1], "k": list(c[2]), "phase": c[3], "doses": list(shifted(DOSES4, c[4])), "input_order": c[5][0], "output_order": c[5][1]}

    def d_p(c):
        return {"size_wh": list(c[0]), "pixel_size": c[1], "n_images": c[2], "dose_shift": c[3], "order": c[4], "dose_given_as": c[5]}

    def d_a(c):
        return {"size_wh": list(c[0]), "pixel_size": c[1], "d1": c[2][0], "d2": c[2][1], "order": c[3]}

    def d_f(c):
        return {"size_wh": list(c[0]), "pixel_size": c[1], "dose_shift": c[2], "input": "float32 " + c[3], "input_order": c[4][0], "output_order": c[4][1]}

    def d_t(c):
        return {"size_wh": list(c[0]), "pixel_size": c[1], "n_images": c[2], "dose_file": "c16_dose" + c[3], "input_order": c[4][0], "output_order": c[4][1]}

    return [
        Family("plane-waves", waves, exec_waves, describe=d_w,
               expect=("wave-gain", "per-image-dose-pairing", "dc-untouched", "zero-dose-identity", "mean-unchanged", "returned-axis-order", "input-untouched")),
        Family("dft-pairing", pairing, exec_pairing, describe=d_p, expect=("dft-gain", "per-image-dose-pairing", "dc-untouched", "power-never-increases", "zero-dose-identity")),
        Family("algebra", algebra, exec_algebra, describe=d_a, expect=("linearity", "composition", "more-dose-attenuates-more", "power-never-increases", "dose-matters", "zero-dose-identity")),
        Family("float32-and-files", f32, exec_f32, describe=d_f, expect=("dft-gain", "dc-untouched", "file-holds-result")),
        Family("int16-stacks", f32, exec_int16, describe=d_f, expect=("dft-gain",)),
        Family("dose-text-file", txt, exec_textdose, describe=d_t, expect=()),
        Family("single-image-inputs", single, exec_single, describe=d_s, expect=("dft-gain",)),
        _layouts(pairing, exec_pairing, d_p),
    ]
