"""C19 — ribana.trace_chains partitions particles into simple, distance-respecting chains.

The tracer is greedy and order dependent, so the space is every ORDERED selection of entry sites, every
assignment of exit displacements and a palette of (max, min) distance pairs.  No chain is predicted: the
statement's invariants are evaluated on the returned list (mc.oracles.chains).  Which of the tracer's
re-labelling branches (suffix, prefix, prefix with cut, connection from both sides) a case entered is observed
with a sys.monitoring LINE probe restricted to the two helper functions, and required as a vacuity guard.
"""
import inspect
import itertools
import sys

import numpy as np

from cryocat import cryomotl as cm
from cryocat import ribana

from ..engine import Family, HarnessError
from ..motlgen import COLS, frame
from ..oracles import chains as ch
from ..space import Listed, Mapped, Product

RULE = (
    "cases = ordered selection of n entry sites (jittered 6-site line / 3x3 grid; the row order of the lists is the selection "
    "order) x one exit displacement per particle (all assignments) x (max_distance, min_distance) x 1 or 2 tomograms "
    "(second tomogram = the same scene slightly offset under other ids, rows interleaved) x positions stored with or without "
    "shifts.  Non-trivial = the result contains a chain of length >= 2; distinct = distinct case descriptions.  Outcome = the "
    "returned partition into ordered chains."
)
BOUNDS = {
    "quick": (
        "line (6 sites): n in {2,3} x 3^n displacements x 5 threshold pairs {(0.9,0),(1.6,0),(1.6,0.5),(2.6,0),(2.6,0.5)}; n=4 (all 360 "
        "orders) x 81 displacements x 3 threshold pairs {(1.6,0),(1.6,0.5),(2.6,0.5)}; n=5 on a reduced alphabet (5 sites = 120 orders, the 2 "
        "forward displacements, 2 threshold pairs with min 0.5); n=6 reduced (first row = site 1, the other 5 rows in all 120 orders, the 2 "
        "forward displacements, (2.6,0.5)); 2 tomograms for n<=3 x 2 threshold pairs; shifted positions for n<=3 x 1 "
        "threshold pair"
    ),
    "thorough": (
        "quick + n=4 with all 5 threshold pairs; n=5 completely on the line (720 orders x 243 displacements) for the threshold "
        "pair (2.6,0.5); 3x3 grid n<=3 x 3 displacements x 5 threshold pairs; n=6 on the line with 2 displacements x 1 threshold pair"
    ),
}
ASSUMPTIONS = [
    "no exit-entry distance within 1e-3 of 0, of a max_distance or of a min_distance of the alphabet (brute force over all site pairs and displacements before the run)",
    "entry and exit lists are paired row by row and carry the same ids; ids unique over the whole list",
    "the recorded distance of the LAST member of a chain is not judged (the statement defines it for the former of two consecutive members)",
    "default storage columns (object_id = chain, geom2 = order, geom4 = distance), feature = tomo_id",
]
BUDGET_S = {"quick": 900, "thorough": 3000}

SITE = "ribana.trace_chains"
THRESHOLDS = ((0.9, 0.0), (1.6, 0.0), (1.6, 0.5), (2.6, 0.0), (2.6, 0.5))
ALL_T = (0.5, 0.9, 1.6, 2.6)
MARGIN = 1e-3
ORIGIN = np.array([31.25, 12.5, 8.75])
# displacement palette: index -> vector
DISP_LINE = ((0.62, 0.0, 0.0), (-0.55, 0.0, 0.0), (1.7, 0.0, 0.0))
DISP_GRID = ((0.62, 0.0, 0.0), (0.0, -0.55, 0.0), (1.7, 0.0, 0.0))
JIT0 = (
    (0.000, 0.021, -0.013), (0.034, -0.017, 0.006), (-0.027, 0.004, 0.019), (0.017, 0.029, -0.012), (-0.041, -0.006, 0.003),
    (0.025, 0.011, 0.010), (-0.019, 0.032, -0.007), (0.009, -0.011, 0.015), (0.038, 0.016, -0.024),
)
TOMO2_OFFSET = np.array([0.31, 0.17, -0.05])
IDS = (7.0, 3.0, 11.0, 5.0, 9.0, 2.0)
SHIFTS = ((1.5, 0.0, -0.75), (-2.25, 0.5, 0.0), (0.0, -1.75, 0.75), (0.625, 2.0, -1.25), (-0.5, -0.5, 3.0), (0.25, 0.75, -2.0))


def _base(kind):
    if kind == "line":
        return [(float(k), 0.0, 0.0) for k in range(6)]
    return [(float(a), float(b), 0.0) for a in range(3) for b in range(3)]


def _disp(kind):
    return DISP_LINE if kind == "line" else DISP_GRID


def _margin(kind, pts):
    exits = [p + np.array(d) for p in pts for d in _disp(kind)]
    return ch.min_margin(pts, exits, (0.0,) + ALL_T)


_SITES = {}


def sites(kind, seed):
    key = (kind, seed)
    if key in _SITES:
        return _SITES[key]
    base = _base(kind)
    for attempt in range(500):
        if seed == 0 and attempt == 0:
            jit = np.array(JIT0[: len(base)])
        else:
            jit = np.random.RandomState(6007 * seed + 7919 * attempt + 3).uniform(-0.05, 0.05, size=(len(base), 3))
        pts = [ORIGIN + np.array(b) + j for b, j in zip(base, jit)]
        if _margin(kind, pts) >= MARGIN:
            pts = np.array(pts)
            if _margin(kind, list(pts)) < MARGIN:  # re-verified on the palette actually used
                raise HarnessError("C19: tie exclusion failed")
            _SITES[key] = pts
            return pts
    raise HarnessError(f"C19: no generic jitter for layout {kind}, seed {seed}")


# ------------------------------------------------------------------------------------------------------------
# branch probe (vacuity guard): which re-labelling branches of the tracer a call entered

_MARKERS = {
    "add_chain_suffix": (
        ("chain_df[store_idx1] = temp_cl_id", "branch:suffix"),
        ("current_class = chain_df[store_idx1].values[0]", "branch:suffix-tail-cut"),
        ("return False", "branch:suffix-rejected"),
    ),
    "add_chain_prefix": (
        ("class_max = np.max(chain_df[store_idx2].values)", "branch:prefix"),
        ("cut_off_size = traced_df.loc[", "branch:prefix-with-cut"),
        ("temp_cl_id = chain_df[store_idx1][0]", "branch:both-sides"),
        ("] = -1  # class_max[1]", "branch:both-sides-with-cut"),
        ("return -1", "branch:prefix-rejected"),
    ),
}
_TOOL = 4
_probe_state = {"ready": False, "lines": {}, "hit": set()}


def _probe_setup():
    st = _probe_state
    if st["ready"]:
        return
    st["ready"] = True
    mon = getattr(sys, "monitoring", None)
    if mon is None:
        return
    try:
        mon.use_tool_id(_TOOL, "mc-C19-branch-probe")
    except ValueError:
        pass  # already ours (inherited over fork)
    for fname, marks in _MARKERS.items():
        fn = getattr(ribana, fname, None)
        if fn is None:
            continue
        try:
            src, first = inspect.getsourcelines(fn)
        except (OSError, TypeError):
            continue
        code = fn.__code__
        for off, text in enumerate(src):
            for needle, label in marks:
                if needle in text and not text.lstrip().startswith("#"):
                    st["lines"][(code, first + off)] = label
        mon.set_local_events(_TOOL, code, mon.events.LINE)

    def on_line(code, line):
        lab = st["lines"].get((code, line))
        if lab is not None:
            st["hit"].add(lab)

    mon.register_callback(_TOOL, mon.events.LINE, on_line)


# ------------------------------------------------------------------------------------------------------------

def build(kind, order, disp, ntomo, shifted, seed):
    """entry rows, exit rows, inputs {id: (tomo, entry, exit)}; tomogram rows interleaved."""
    pts = sites(kind, seed)
    dv = _disp(kind)
    entry_rows, exit_rows, inputs = [], [], {}
    # ntomo == -1: a second tomogram that holds exactly ONE particle (a copy of the first row)
    tomos = (3.0, 1.0) if ntomo == -1 else (3.0, 1.0)[:ntomo]
    for p, s in enumerate(order):
        for t, tomo in enumerate(tomos):
            if ntomo == -1 and t == 1 and p != 0:
                continue
            e = pts[s] + (TOMO2_OFFSET if t else 0.0)
            x = e + np.array(dv[disp[p]])
            sid = IDS[p] + 100.0 * t
            sh = np.array(SHIFTS[p % len(SHIFTS)]) if shifted else np.zeros(3)
            common = {"subtomo_id": sid, "tomo_id": tomo, "object_id": 77.0, "class": 1.0, "geom1": 10.0 + p,
                      "shift_x": sh[0], "shift_y": sh[1], "shift_z": sh[2]}
            er = dict(common, x=e[0] - sh[0], y=e[1] - sh[1], z=e[2] - sh[2])
            xr = dict(common, x=x[0] - sh[0], y=x[1] - sh[1], z=x[2] - sh[2])
            entry_rows.append(er)
            exit_rows.append(xr)
            # the sites as the library will see them: x + shift in float64
            inputs[sid] = (tomo, tuple(er[c] + er["shift_" + c] for c in "xyz"), tuple(xr[c] + xr["shift_" + c] for c in "xyz"))
    return entry_rows, exit_rows, inputs


def exec_trace(case, obs):
    kind, order, disp, (dmax, dmin), ntomo, shifted, seed = case
    _probe_setup()
    entry_rows, exit_rows, inputs = build(kind, order, disp, ntomo, shifted, seed)
    me = obs.lib("Motl.__init__", cm.Motl, frame(entry_rows))
    mx = obs.lib("Motl.__init__", cm.Motl, frame(exit_rows))
    _probe_state["hit"].clear()
    res = obs.lib(SITE, ribana.trace_chains, me, mx, dmax, dmin)
    hit = set(_probe_state["hit"])
    for lab in hit:
        obs.fire(lab)
    if hit & {"branch:suffix", "branch:suffix-rejected", "branch:suffix-tail-cut"}:
        obs.fire("branch:suffix-entered")
    # input class of a violation: the threshold pair, except for cases in which add_chain_suffix cut the tail of an existing chain
    cls = ("tail-cut" if "branch:suffix-tail-cut" in hit else f"max={dmax},min={dmin}") + (",2-tomograms" if ntomo > 1 else (",singleton-tomogram" if ntomo == -1 else ""))
    df = getattr(res, "df", None)
    ok = df is not None and set(COLS) <= set(df.columns)
    obs.check(ok, SITE, "output-is-particle-table", lambda: f"returned {type(res).__name__}")
    if not ok:
        obs.outcome = ("malformed",)
        return
    arr = {c: df[c].to_numpy(dtype=float) for c in ("subtomo_id", "tomo_id", "object_id", "geom2", "geom4")}
    rows = [(float(arr["subtomo_id"][i]), float(arr["tomo_id"][i]), float(arr["object_id"][i]), float(arr["geom2"][i]), float(arr["geom4"][i]))
            for i in range(len(df))]
    problems, chains = ch.judge(inputs, rows, dmax, dmin)
    seen = {c for c, _d in problems}
    for clause in ("every-particle-exactly-once", "particle-keeps-its-tomogram", "order-numbers-1..k"):
        obs.check(clause not in seen, SITE, clause, lambda: next(d for c, d in problems if c == clause), cls)
    has_link = any(len(v) >= 2 for v in chains.values())
    for clause in ("chain-within-one-tomogram", "link-distance-in-range", "link-distance-recorded"):
        if clause in seen:
            obs.check(False, SITE, clause, next(d for c, d in problems if c == clause), cls)
        elif has_link and (ntomo != 1 or clause != "chain-within-one-tomogram"):
            obs.fire(clause)
    obs.nontrivial = has_link
    obs.outcome = tuple(sorted((k[0], tuple(v)) for k, v in chains.items())) + (len(problems),)


def describe(case):
    kind, order, disp, (dmax, dmin), ntomo, shifted, seed = case
    return {"layout": kind, "entry_sites_in_row_order": list(order), "exit_displacement": [list(_disp(kind)[d]) for d in disp],
            "max_distance": dmax, "min_distance": dmin, "tomograms": ntomo, "shifts": shifted}


def shapes(kind, nsites, ns, disp_idx):
    """Every ordered selection of n of the first `nsites` sites x every assignment of a displacement (index into the
    layout's palette, restricted to `disp_idx`) to each particle; shortest first."""
    out = []
    for n in ns:
        for order in itertools.permutations(range(nsites), n):
            for disp in itertools.product(disp_idx, repeat=n):
                out.append((order, disp))
    return out


def fam(name, kind, shp, thresholds, ntomo, shifted, seed, expect):
    def mk(c):
        (order, disp), thr = c
        return (kind, order, disp, thr, ntomo, shifted, seed)

    return Family(name, Mapped(Product(Listed(shp), thresholds), mk), exec_trace, expect=expect, describe=describe)


INV = ("every-particle-exactly-once", "particle-keeps-its-tomogram", "order-numbers-1..k", "link-distance-in-range", "link-distance-recorded")
# branches of the tracer that the vacuity guard requires (measured on this geometry: n <= 3 enters add_chain_suffix but never applies
# it; the applied suffix and the connection from both sides need n >= 4, the both-sides connection with a cut n >= 5, and the tail-cut
# branch of add_chain_suffix n >= 6 - it is NOT dead code, contrary to the design-time probe that stopped at n = 5)
BR_SMALL = ("branch:suffix-entered", "branch:prefix", "branch:prefix-with-cut")
BR_ALL = BR_SMALL + ("branch:suffix", "branch:both-sides")


def families(tier, seed):
    thorough = tier == "thorough"
    sites("line", seed)
    if thorough:
        sites("grid", seed)
    T = THRESHOLDS
    D3, D2 = (0, 1, 2), (0, 2)  # all three displacements / the two forward ones (+0.62, +1.7)
    fams = [
        fam("line-n2-3", "line", shapes("line", 6, (2, 3), D3), T, 1, False, seed, INV + BR_SMALL),
        fam("line-n4", "line", shapes("line", 6, (4,), D3), (T[1], T[2], T[4]) if not thorough else T, 1, False, seed, INV + BR_ALL),
        fam("line-n5-reduced", "line", shapes("line", 5, (5,), D2), (T[2], T[4]), 1, False, seed, INV + BR_ALL + ("branch:both-sides-with-cut",)),
        # n = 6 is the smallest scope in which add_chain_suffix cuts the tail of an existing chain (measured: all 40 such cases of the
        # complete n = 6 / 2-displacement space have site 1 in the first row)
        fam("line-n6-reduced", "line", [(o, d) for (o, d) in shapes("line", 6, (6,), D2) if o[0] == 1], (T[4],), 1, False, seed,
            INV + BR_ALL + ("branch:suffix-tail-cut",)),
        fam("line-2-tomograms", "line", shapes("line", 6, (2, 3), D3), (T[1], T[4]), 2, False, seed, INV + BR_SMALL + ("chain-within-one-tomogram",)),
        fam("line-shifted", "line", shapes("line", 6, (2, 3), D3), (T[2],), 1, True, seed, INV + BR_SMALL[1:]),
    ]
    from ..motlgen import with_row_index_kinds
    fams.append(with_row_index_kinds(fams[-1], expect=INV))  # line-shifted x {gapped, reversed}
    fams.append(fam("line-plus-singleton-tomogram", "line", shapes("line", 6, (2, 3), D2), (T[1], T[4]), -1, False, seed,
                    ("every-particle-exactly-once", "particle-keeps-its-tomogram", "order-numbers-1..k")))
    if thorough:
        fams.append(fam("line-n5", "line", shapes("line", 6, (5,), D3), (T[4],), 1, False, seed, INV + BR_ALL))
        fams.append(fam("grid-n2-3", "grid", shapes("grid", 9, (2, 3), D3), T, 1, False, seed, INV + BR_SMALL[1:2]))
        fams.append(fam("line-n6-2disp", "line", shapes("line", 6, (6,), D2), (T[4],), 1, False, seed, INV + BR_ALL + ("branch:suffix-tail-cut",)))
    return fams
