"""C17 — tilt-series metadata: mdoc round trip / histories, loaders, wedge lists."""
import itertools
import os
import re

import numpy as np

from ..bfs import BFSFamily, BFSSpec
from ..engine import Family
from ..space import Listed, Product, Mapped
from ..oracles import emfmt

RULE = (
    "mdoc-histories: explicit-state BFS on a live Mdoc object (ops: sort, sort+reset, remove by position with/without "
    "kept_only, reset, write/re-read with and without removed images, module-level remove/sort through files) in lock-step "
    "with a list-of-dicts model; mdoc-grammar: every document of a small grammar (value kinds x title count x image count x "
    "angle order) is read, written and re-read; loaders: every file layout of a small alphabet; wedge lists: every "
    "combination of tomogram count, tilt count, dimension/z-shift form, ctf/dose on-off.  Non-trivial = the operation "
    "changed the state / the file holds >= 2 values / >= 2 tomograms."
)
BOUNDS = {
    "quick": "Mdoc BFS depth <= 4 from 2 documents (14 op instances); grammar: 2..4 images; loader files of 1..4 lines; 1..3 tomograms x 1..3 tilts",
    "thorough": "Mdoc BFS depth <= 6; grammar incl. an 80-image document; loader files up to 80 lines; wedge lists up to 5 tomograms",
}
ASSUMPTIONS = [
    "mdoc floats are restricted to values whose repr is positional (1e-4 <= |v| < 1e16); values contain no '=' and titles no inner brackets",
    "an integer that comes back as the numerically equal float (81000 -> 81000.0) is not judged as a changed value; a number that comes back as text (or vice versa) is",
    "all images of a document carry the same keys; tilt angles within an mdoc are distinct (a tilt text file may repeat a value)",
]
BUDGET_S = {"quick": 400, "thorough": 3000}


# =====================================================================================================
# independent mdoc writer / tokenizer

def fmt(v):
    return v if isinstance(v, str) else repr(v) if isinstance(v, float) else str(v)


def mdoc_text(header, titles, images, section="ZValue"):
    out = []
    for k, v in header:
        out.append(f"{k} = {fmt(v)}")
    out.append("")
    for t in titles:
        out.append(f"[{t}]")
        out.append("")
    for img in images:
        out.append(f"[{section} = {img[section]}]")
        for k, v in img.items():
            if k != section:
                out.append(f"{k} = {fmt(v)}")
        out.append("")
    return "\n".join(out) + "\n"


def mdoc_tokens(text, section="ZValue"):
    """-> (header [(k, vtoken)], titles [str], sections [(ztoken, [(k, vtoken)])])"""
    header, titles, sections = [], [], []
    cur = None
    for line in text.splitlines():
        s = line.strip()
        if not s:
            continue
        if s.startswith("[" + section):
            cur = (s[1:-1].split("=", 1)[1].strip(), [])
            sections.append(cur)
        elif s.startswith("["):
            titles.append(s[1:-1].strip())
        else:
            k, v = s.split("=", 1)
            (header if cur is None else cur[1]).append((k.strip(), v.strip()))
    return header, titles, sections


def cat(v):
    """value category: number or text"""
    if isinstance(v, (bool, np.bool_)):
        return "bool"
    if isinstance(v, (int, float, np.integer, np.floating)):
        return "num"
    return "text"


def same_value(a, b):
    if cat(a) != cat(b):
        return False
    if cat(a) == "num":
        return float(a) == float(b)
    return str(a) == str(b)


def token_matches(tok, v):
    """does the text token represent value v?"""
    if cat(v) == "num":
        try:
            return float(tok) == float(v)
        except ValueError:
            return False
    return tok == str(v)


def obj_header(m):
    return [(k, v) for k, v in m.project_info.items()]


def obj_images(m):
    """list of (dict of fields without Removed, removed flag) in table order"""
    cols = [c for c in m.imgs.columns if c != "Removed"]
    out = []
    for i in range(len(m.imgs)):
        row = m.imgs.iloc[i]
        out.append(({c: row[c] for c in cols}, bool(row["Removed"])))
    return out


def imgs_equal(a, b):
    if len(a) != len(b):
        return f"{len(a)} vs {len(b)} images"
    for i, ((da, ra), (db, rb)) in enumerate(zip(a, b)):
        if list(da.keys()) != list(db.keys()):
            return f"image {i}: keys {list(da.keys())} vs {list(db.keys())}"
        for k in da:
            if not same_value(da[k], db[k]):
                return f"image {i} field {k}: {da[k]!r} ({type(da[k]).__name__}) vs {db[k]!r} ({type(db[k]).__name__})"
        if ra != rb:
            return f"image {i}: removed flag {ra} vs {rb}"
    return None


def header_equal(a, b):
    if [k for k, _ in a] != [k for k, _ in b]:
        return f"keys {[k for k, _ in a]} vs {[k for k, _ in b]}"
    for (k, va), (_, vb) in zip(a, b):
        if not same_value(va, vb):
            return f"header {k}: {va!r} vs {vb!r}"
    return None


def check_written_text(obs, site, text, hdr, titles, imgs, removed_flag_written):
    """The written text, tokenised independently, holds the header, the titles and exactly the expected sections."""
    try:
        th, tt, ts = mdoc_tokens(text)
    except Exception as e:  # noqa: BLE001
        obs.check(False, site, "text-tokenizable", f"{e}")
        return
    ok_h = len(th) == len(hdr) and all(k == hk and token_matches(tok, hv) for (k, tok), (hk, hv) in zip(th, hdr))
    obs.check(ok_h, site, "text-header", lambda: f"text header {th} vs object {hdr}")
    obs.check(tt == list(titles), site, "text-titles", lambda: f"text titles {tt} vs {titles}")
    want = [d for d, r in imgs if removed_flag_written or not r]
    ok = len(ts) == len(want)
    detail = f"{len(ts)} sections in the file, expected {len(want)}"
    if ok:
        for (ztok, fields), d in zip(ts, want):
            keys = [k for k in d if k != "ZValue"]
            if not token_matches(ztok, d["ZValue"]) or [k for k, _ in fields] != keys or not all(token_matches(tok, d[k]) for k, tok in fields):
                ok = False
                detail = f"section {ztok} {fields} vs image {d}"
                break
    obs.check(ok, site, "text-sections-exactly-kept", detail)


# =====================================================================================================
# BFS over Mdoc histories

def doc_A(seed):
    j = seed * 0.25
    header = [("PixelSpacing", 1.08254371), ("Voltage", 300), ("ImageFile", "TS_01.mrc"), ("ImageSize", "4096 4096"), ("DataMode", 1), ("Offset", -12.5)]
    titles = ["T = SerialEM: Digitized on EMBL Krios  21-Jan-21  10:00:00", "T =     Tilt axis angle = 86.1, binning = 1  spot = 8  camera = 0"]
    angles = [3.0 + j, -0.00973425, 9.5, -9.0]
    imgs = []
    for z, a in enumerate(angles):
        imgs.append({"ZValue": z, "TiltAngle": a, "StagePosition": f"12.{z} -45.6", "Magnification": 81000, "ExposureDose": 2.512345678 + z,
                     "PriorRecordDose": 5.0 * z, "DateTime": f"21-Jan-21  10:0{z}:12", "Defocus": -3.25 - z, "SubFramePath": f"X:\\frames\\TS_01_{z:03d}.tif"})
    return header, titles, imgs


def doc_B(seed):
    header = [("Voltage", 200), ("T", "no brackets here")]
    titles = []
    angles = [30.0, -0.5, 12.0 + seed]
    imgs = [{"ZValue": z + 3, "TiltAngle": a, "ExposureDose": 1.5, "Counts": 7 * (z + 1), "Note": f"n{z}"} for z, a in enumerate(angles)]
    return header, titles, imgs


MD_OPS = [
    ("sort", False), ("sort", True),
    ("remove", (0,), True), ("remove", (1,), True), ("remove", (0, 2), True), ("remove", (0,), False), ("remove", (2,), False),
    ("reset",),
    ("write_read", False), ("write_read", True),
    ("fn_remove", (1,), True), ("fn_remove", (1,), False), ("fn_remove", (2,), True, "array"),
    ("fn_sort", False), ("fn_sort", True),
]


class MdocSpec(BFSSpec):
    def __init__(self, seed):
        self.seed = seed

    def initial(self):
        from cryocat import mdoc

        out = []
        for name, doc in (("docA", doc_A(self.seed)), ("docB", doc_B(self.seed))):
            import tempfile

            fd, p = tempfile.mkstemp(suffix=".mdoc", prefix=f"init_{name}_")
            with os.fdopen(fd, "w") as f:
                f.write(mdoc_text(*doc))
            m = mdoc.Mdoc(p)
            os.unlink(p)
            m.file_path = "init.mdoc"
            model = {"hdr": obj_header(m), "titles": list(m.titles), "imgs": obj_images(m)}
            out.append((name, {"m": m, "model": model}))
        return out

    def key(self, st):
        m = st["m"]
        return repr((list(m.project_info.items()), m.titles, m.section_id, list(m.imgs.columns), [str(t) for t in m.imgs.dtypes],
                     list(m.imgs.index), [[repr(v) for v in m.imgs.iloc[i].tolist()] for i in range(len(m.imgs))]))

    def mkey(self, st):
        return repr(st["model"])

    def ops(self, st):
        imgs = st["model"]["imgs"]
        n = len(imgs)
        kept = sum(1 for _, r in imgs if not r)
        out = []
        for op in MD_OPS:
            if op[0] == "remove":
                lim = kept if op[2] else n
                if max(op[1]) >= lim:
                    continue
            if op[0] == "write_read" and not op[1] and kept == 0:
                continue
            if op[0] == "fn_remove":
                idx0 = op[1][0] - (1 if op[2] else 0)
                if idx0 >= n:
                    continue
            out.append(op)
        return out

    def step(self, st, op, obs):
        from cryocat import mdoc

        m = st["m"]
        model = {"hdr": list(st["model"]["hdr"]), "titles": list(st["model"]["titles"]), "imgs": [(dict(d), r) for d, r in st["model"]["imgs"]]}
        kind = op[0]
        before = obj_images(m)
        if kind == "sort":
            site = "Mdoc.sort_by_tilt"
            obs.lib(site, m.sort_by_tilt, reset_z_value=op[1])
            model["imgs"].sort(key=lambda t: float(t[0]["TiltAngle"]))
            if op[1]:
                for z, (d, _) in enumerate(model["imgs"]):
                    d["ZValue"] = z
        elif kind == "remove":
            site = "Mdoc.remove_images"
            obs.lib(site, m.remove_images, list(op[1]), kept_only=op[2])
            pos = [i for i, (_, r) in enumerate(model["imgs"]) if not r] if op[2] else list(range(len(model["imgs"])))
            for i in op[1]:
                d, _ = model["imgs"][pos[i]]
                model["imgs"][pos[i]] = (d, True)
        elif kind == "reset":
            site = "Mdoc.reset_images"
            obs.lib(site, m.reset_images)
            model["imgs"] = [(d, False) for d, _ in model["imgs"]]
        elif kind == "write_read":
            site = "Mdoc.write"
            p = os.path.abspath("wr.mdoc")
            obs.lib(site, m.write, p, overwrite=True, removed=op[1])
            with open(p) as f:
                text = f.read()
            check_written_text(obs, site, text, model["hdr"], model["titles"], model["imgs"], op[1])
            m = obs.lib("Mdoc.read", mdoc.Mdoc, p)
            model["imgs"] = [(d, False) for d, r in model["imgs"] if op[1] or not r]
        elif kind in ("fn_remove", "fn_sort"):
            p = os.path.abspath("fn_in.mdoc")
            q = os.path.abspath("fn_out.mdoc")
            obs.lib("Mdoc.write", m.write, p, overwrite=True, removed=True)
            model["imgs"] = [(d, False) for d, _ in model["imgs"]]
            if kind == "fn_remove":
                site = "mdoc.remove_images"
                # the index subset as a list or (4th field "array") as the caller's own numpy array (obs.lib checks it comes back untouched)
                idx_arg = np.array(op[1]) if len(op) > 3 and op[3] == "array" else list(op[1])
                m = obs.lib(site, mdoc.remove_images, p, idx_arg, numbered_from_1=op[2], output_file=q)
                i0 = op[1][0] - (1 if op[2] else 0)
                d, _ = model["imgs"][i0]
                model["imgs"][i0] = (d, True)
            else:
                site = "mdoc.sort_mdoc_by_tilt_angles"
                m = obs.lib(site, mdoc.sort_mdoc_by_tilt_angles, p, reset_z_value=op[1], output_file=q)
                model["imgs"].sort(key=lambda t: float(t[0]["TiltAngle"]))
                if op[1]:
                    for z, (d, _) in enumerate(model["imgs"]):
                        d["ZValue"] = z
            with open(q) as f:
                text = f.read()
            check_written_text(obs, site, text, model["hdr"], model["titles"], model["imgs"], False)
        else:
            raise ValueError(op)
        # ---- compare implementation with the model ------------------------------------------------
        err = header_equal(obj_header(m), model["hdr"])
        obs.check(err is None, site, "header-same", err or "")
        obs.check(list(m.titles) == model["titles"], site, "titles-same", lambda: f"{m.titles} vs {model['titles']}")
        after = obj_images(m)
        err = imgs_equal(after, model["imgs"])
        clause = {"sort": "sort-only-reorders", "remove": "remove-only-flags", "reset": "reset-only-flags", "write_read": "reread-same-table",
                  "fn_remove": "fn-remove-result", "fn_sort": "fn-sort-result"}[kind]
        obs.check(err is None, site, clause, err or "")
        obs.nontrivial = after != before or kind in ("write_read", "fn_remove", "fn_sort")
        return {"m": m, "model": model}


# =====================================================================================================
# mdoc grammar: read -> write -> re-read over every document of a small grammar

HDR_KINDS = {"int": 300, "float": 1.08254371, "neg": -12.5, "negint": -4, "text": "4096 4096", "path": "TS_01.mrc"}
IMG_KINDS = {"int": 81000, "float": 2.12345678, "neg": -3.25, "text": "12.3 -45.6", "word": "abc", "intfloat": 3.0}


def grammar_docs(tier, seed):
    docs = []
    angle_sets = {2: [(1.5, -1.5), (-20.0, 40.00012345)], 3: [(0.0, 3.0, -3.0), (10.5, -0.00973425, 60.0)], 4: [(-6.0, -3.0, 0.0, 3.0), (3.0, -3.0, 6.0, -6.0)]}
    if tier == "thorough":
        angle_sets[1] = [(7.0,)]
        angle_sets[6] = [(0.0, 3.0, -3.0, 6.0, -6.0, 9.0)]
        angle_sets[80] = [tuple(float(((-1) ** i) * (i // 2 + (i % 2)) * 1.5 + 0.001 * i) for i in range(80))]
    for hk in itertools.combinations(sorted(HDR_KINDS), 2):
        for ik in itertools.combinations(sorted(IMG_KINDS), 2):
            for ntitles in (0, 1, 2):
                for n, sets in sorted(angle_sets.items()):
                    for angles in sets:
                        docs.append((hk, ik, ntitles, angles))
    return docs


def build_grammar_doc(case, seed):
    hk, ik, ntitles, angles = case
    header = [(f"H{a.capitalize()}", HDR_KINDS[a]) for a in hk]
    titles = ["T = SerialEM: Digitized  21-Jan-21", "T =   Tilt axis angle = 86.1, binning = 1"][:ntitles]
    imgs = []
    for z, a in enumerate(angles):
        d = {"ZValue": z, "TiltAngle": a + 0.0005 * seed}
        for kname in ik:
            v = IMG_KINDS[kname]
            if isinstance(v, (int, float)):
                v = type(v)(v + z)
            else:
                v = f"{v}{z}"
            d[f"F{kname}"] = v
        d["ExposureDose"] = 1.5 + z
        imgs.append(d)
    return header, titles, imgs


def exec_grammar(case, obs):
    from cryocat import mdoc

    seed = case[-1]
    header, titles, imgs = build_grammar_doc(case[:-1], seed)
    text = mdoc_text(header, titles, imgs)
    with open("g_in.mdoc", "w") as f:
        f.write(text)
    m = obs.lib("Mdoc.read", mdoc.Mdoc, os.path.abspath("g_in.mdoc"))
    # first read: the object holds the values of the text (number/text category per token as cryoCAT documents: non-negative numbers)
    oh = obj_header(m)
    ok = len(oh) == len(header) and all(k == hk and token_matches(fmt(hv), v) or (k == hk and str(v) == fmt(hv)) for (k, v), (hk, hv) in zip(oh, header))
    obs.check(ok, "Mdoc.read", "read-header-values", lambda: f"{oh} vs {header}")
    oi = obj_images(m)
    ok = len(oi) == len(imgs)
    detail = f"{len(oi)} images vs {len(imgs)}"
    if ok:
        for (d, r), src in zip(oi, imgs):
            if list(d.keys()) != list(src.keys()) or r or not all(token_matches(fmt(src[k]), d[k]) or str(d[k]) == fmt(src[k]) for k in src):
                ok = False
                detail = f"{d} vs {src}"
                break
    obs.check(ok, "Mdoc.read", "read-image-values", detail)
    obs.check(list(m.titles) == titles, "Mdoc.read", "read-titles", lambda: f"{m.titles} vs {titles}")
    obs.check(all(isinstance(d["TiltAngle"], (float, np.floating)) for d, _ in oi), "Mdoc.read", "tilt-angle-float", "TiltAngle not float")
    # write and re-read
    obs.lib("Mdoc.write", m.write, os.path.abspath("g_out.mdoc"), overwrite=True)
    with open("g_out.mdoc") as f:
        out = f.read()
    check_written_text(obs, "Mdoc.write", out, oh, m.titles, oi, False)
    m2 = obs.lib("Mdoc.read", mdoc.Mdoc, os.path.abspath("g_out.mdoc"))
    err = header_equal(obj_header(m2), oh)
    obs.check(err is None, "Mdoc.write", "header-same", err or "")
    obs.check(list(m2.titles) == list(m.titles), "Mdoc.write", "titles-same", lambda: f"{m2.titles} vs {m.titles}")
    err = imgs_equal(obj_images(m2), oi)
    obs.check(err is None, "Mdoc.write", "reread-same-table", err or "")
    # loaders on the same file: tilt angles ascending, dose
    from cryocat import ioutils

    t = obs.lib("tlt_load(mdoc)", ioutils.tlt_load, os.path.abspath("g_in.mdoc"))
    want = np.sort(np.array([d["TiltAngle"] for d in imgs], dtype=float))
    obs.check(np.allclose(np.asarray(t, dtype=float), want, atol=1e-9, rtol=0), "tlt_load", "tilt-angles-ascending", lambda: f"{t} vs {want}", cls="mdoc-input")
    # ... and the mdoc module's own angle reader: the numbers of the file in file order, also in the one-per-line file it writes
    inorder = np.array([d["TiltAngle"] for d in imgs], dtype=float)
    ta = obs.lib("mdoc.get_tilt_angles", mdoc.get_tilt_angles, os.path.abspath("g_in.mdoc"), "g_tilts.tlt")
    obs.check(np.shape(ta) == inorder.shape and np.allclose(np.asarray(ta, dtype=float), inorder, atol=1e-9, rtol=0), "mdoc.get_tilt_angles", "tilt-angles-file-order",
              lambda: f"{ta} vs {inorder}", cls="mdoc-input")
    with open("g_tilts.tlt") as f:
        lines = [float(x) for x in f.read().split()]
    obs.check(len(lines) == len(inorder) and np.allclose(lines, inorder, atol=1e-9, rtol=0), "mdoc.get_tilt_angles", "tilt-angles-file-order",
              lambda: f"written file holds {lines} vs {inorder}", cls="written-tlt-file")
    obs.nontrivial = len(imgs) >= 2
    obs.outcome = (len(out), hash(out) & 0xFFFFFF)


# =====================================================================================================
# loaders

NUM_SPELL = [lambda v: repr(float(v)), lambda v: (str(int(v)) if float(v).is_integer() else repr(float(v))), lambda v: " " + repr(float(v)), lambda v: repr(float(v)) + " ",
             lambda v: ("%.3e" % v)]


def loader_cases(tier):
    ns = [1, 2, 3, 4] if tier == "quick" else [1, 2, 3, 4, 5, 80]
    cases = []
    for kind in ("tlt-sorted", "tlt-unsorted", "tlt-repeated", "dose", "ctffind4", "gctf", "gctf-phase", "gctf-extra", "gctf-reordered", "gctf-names-unordered", "mdoc-dose-prior", "array", "dose-csv", "dose-csv-removed"):
        for n in ns:
            for spell in range(len(NUM_SPELL)):
                for nl in (True, False):
                    if kind in ("array",) and (spell or not nl):
                        continue
                    if kind.startswith("mdoc") and (spell or not nl):
                        continue
                    cases.append((kind, n, spell, nl))
    return cases


def values(n, seed, base, step):
    return [round(base + step * i + 0.125 * ((i * 7 + seed) % 4), 6) for i in range(n)]


def star_text(labels, rows, numbered=True, extra_block=False):
    out = ["", "data_", "", "loop_"]
    for i, l in enumerate(labels):
        out.append(f"_{l} #{i + 1}" if numbered else f"_{l}")
    for r in rows:
        out.append("  ".join(r))
    out.append("")
    return "\n".join(out) + "\n"


def exec_loader(case, obs):
    from cryocat import ioutils

    kind, n, spell, nl, seed = case
    sp = NUM_SPELL[spell]
    end = "\n" if nl else ""
    obs.nontrivial = n >= 2
    if kind in ("dose-csv", "dose-csv-removed"):
        # the csv table of a pre-processing log: first column = acquisition number (dose-symmetric scheme: NOT ascending in
        # tilt order), CorrectedDose per image, optionally a Removed flag; the doses come back in FILE order, removed rows left out
        vals = values(n, seed, 1.5, 3.0)[::-1]
        acq = [(7 * i + 3) % n for i in range(n)] if n > 1 else [0]
        if len(set(acq)) != n:
            acq = list(range(n - 1, -1, -1))
        removed = [(i % 3 == 1) for i in range(n)] if kind.endswith("removed") else None
        with open("d.csv", "w") as f:
            f.write(",TiltAngle,CorrectedDose" + (",Removed" if removed else "") + "\n")
            for i, v in enumerate(vals):
                f.write(f"{acq[i]},{-30.0 + 3.0 * i},{sp(v).strip()}" + (f",{removed[i]}" if removed else "") + "\n")
        got = obs.lib("total_dose_load", ioutils.total_dose_load, os.path.abspath("d.csv"))
        want = [float(sp(v)) for i, v in enumerate(vals) if not (removed and removed[i])]
        obs.check(len(np.atleast_1d(got)) == len(want) and np.allclose(np.asarray(got, dtype=float), np.float32(want), rtol=1e-6, atol=0), "total_dose_load",
                  "dose-values-in-file-order", lambda: f"{got} vs {want}", cls="csv-file")
        obs.outcome = tuple(np.asarray(got, dtype=float).round(4).tolist())
        return
    if kind in ("tlt-sorted", "tlt-unsorted", "tlt-repeated", "dose"):
        vals = values(n, seed, -30.0, 7.5) if kind != "dose" else values(n, seed, 1.5, 3.0)
        if kind == "tlt-unsorted":
            vals = vals[1::2] + vals[0::2][::-1]
        if kind == "tlt-repeated":
            # a bidirectional series records the starting angle twice: the file holds n+1 numbers, one of them repeated
            vals = vals[: (n + 1) // 2] + [vals[(n - 1) // 2]] + vals[(n + 1) // 2:]
        if kind == "dose":
            vals = vals[::-1]  # doses come in acquisition order, any order
        with open("v.txt", "w") as f:
            f.write("\n".join(sp(v) for v in vals) + end)
        written = [float(sp(v)) for v in vals]
        if kind == "dose":
            got = obs.lib("total_dose_load", ioutils.total_dose_load, os.path.abspath("v.txt"))
            obs.check(np.allclose(np.asarray(got, dtype=float), np.float32(written), rtol=1e-6, atol=0), "total_dose_load", "dose-values-in-file-order",
                      lambda: f"{got} vs {written}", cls="text-file")
        else:
            got = obs.lib("tlt_load", ioutils.tlt_load, os.path.abspath("v.txt"))
            want = np.sort(np.float32(written))
            same_n = obs.check(len(np.atleast_1d(got)) == len(written), "tlt_load", "tilt-angle-count",
                               lambda: f"{len(np.atleast_1d(got))} numbers returned, the file holds {len(written)}", cls="text-file")
            if same_n:
                obs.check(np.allclose(np.asarray(got, dtype=float), want, rtol=1e-6, atol=1e-6), "tlt_load", "tilt-angles-ascending", lambda: f"{got} vs {want}", cls="text-file")
            if kind == "tlt-unsorted":
                got2 = obs.lib("tlt_load", ioutils.tlt_load, os.path.abspath("v.txt"), sort_angles=False)
                obs.check(np.allclose(np.asarray(got2, dtype=float), np.float32(written), rtol=1e-6, atol=1e-6), "tlt_load", "tilt-angles-file-order",
                          lambda: f"{got2} vs {written}", cls="text-file")
        obs.outcome = tuple(np.asarray(got, dtype=float).round(4).tolist())
        return
    if kind == "array":
        vals = values(n, seed, -30.0, 7.5)
        got = obs.lib("tlt_load", ioutils.tlt_load, np.array(vals))
        obs.check(np.array_equal(got, np.array(vals)), "tlt_load", "array-passthrough", "array changed")
        got = obs.lib("tlt_load", ioutils.tlt_load, list(vals))
        obs.check(np.array_equal(got, np.array(vals)), "tlt_load", "array-passthrough", "list changed")
        got = obs.lib("total_dose_load", ioutils.total_dose_load, np.array(vals))
        obs.check(np.array_equal(got, np.array(vals)), "total_dose_load", "array-passthrough", "array changed")
        obs.outcome = tuple(vals)
        return
    if kind.startswith("mdoc"):
        angles = values(n, seed, -9.0, 3.0)
        angles = angles[1::2] + angles[0::2][::-1]
        imgs = [{"ZValue": z, "TiltAngle": a, "ExposureDose": 2.5 + 0.25 * z, "PriorRecordDose": 1.5 * ((z * 3) % n)} for z, a in enumerate(angles)]
        with open("d.mdoc", "w") as f:
            f.write(mdoc_text([("Voltage", 300)], [], imgs))
        got = obs.lib("total_dose_load", ioutils.total_dose_load, os.path.abspath("d.mdoc"))
        order = np.argsort(angles)
        want = np.array([imgs[i]["ExposureDose"] + imgs[i]["PriorRecordDose"] for i in order])
        obs.check(np.allclose(np.asarray(got, dtype=float), want, atol=1e-9), "total_dose_load", "mdoc-dose-prior-plus-exposure", lambda: f"{got} vs {want}", cls="mdoc-input")
        got2 = obs.lib("total_dose_load", ioutils.total_dose_load, os.path.abspath("d.mdoc"), sort_mdoc=False)
        want2 = np.array([i["ExposureDose"] + i["PriorRecordDose"] for i in imgs])
        obs.check(np.allclose(np.asarray(got2, dtype=float), want2, atol=1e-9), "total_dose_load", "mdoc-dose-prior-plus-exposure", lambda: f"{got2} vs {want2}", cls="mdoc-input-unsorted")
        obs.outcome = tuple(np.asarray(got, dtype=float).round(4).tolist())
        return
    # defocus files
    U = values(n, seed, 25000.0, 1234.5)
    V = values(n, seed + 1, 24000.0, 987.25)
    A = values(n, seed, 10.0, 15.0)
    PH = values(n, seed, 0.0, 0.25)
    if kind == "ctffind4":
        lines = ["# Output from CTFFind version 4.1.14", "# Input file: x.mrc ; Number of micrographs: %d" % n, "# Pixel size: 1.35 Angstroms",
                 "# Columns: #1 - micrograph number; #2 - defocus 1 [Angstroms]; #3 - defocus 2; #4 - azimuth of astigmatism; #5 - additional phase shift [radians]; #6 - cross correlation; #7 - spacing",
                 ]
        for i in range(n):
            lines.append("  ".join([sp(float(i + 1)), sp(U[i]), sp(V[i]), sp(A[i]), sp(PH[i]), sp(0.125), sp(4.5)]))
        with open("c.txt", "w") as f:
            f.write("\n".join(lines) + end)
        got = obs.lib("defocus_load", ioutils.defocus_load, os.path.abspath("c.txt"), "ctffind4")
        site = "ctffind4_read"
        tol = 2e-6  # float32 parsing
        phase = PH
    else:
        labels = ["rlnMicrographName", "rlnDefocusU", "rlnDefocusV", "rlnDefocusAngle"]
        cols = [[f"ts_{i:03d}.mrc" for i in range(n)], [sp(u).strip() for u in U], [sp(v).strip() for v in V], [sp(a).strip() for a in A]]
        phase = [0.0] * n
        if kind == "gctf-phase":
            labels.append("rlnPhaseShift")
            cols.append([sp(p).strip() for p in PH])
            phase = PH
        if kind == "gctf-extra":
            labels = ["rlnVoltage"] + labels + ["rlnFinalResolution"]
            cols = [["300.000000"] * n] + cols + [[sp(3.5 + i).strip() for i in range(n)]]
        if kind == "gctf-names-unordered":   # rows are taken in FILE order: names without zero padding, listed descending
            cols[0] = [f"ts_sec{n - i}.mrc" for i in range(n)]
        if kind == "gctf-reordered":   # columns are found by label: angle and phase shift BEFORE the two defocus values, V before U
            labels = ["rlnDefocusAngle", "rlnPhaseShift", "rlnMicrographName", "rlnDefocusV", "rlnDefocusU"]
            cols = [cols[3], [sp(p).strip() for p in PH], cols[0], cols[2], cols[1]]
            phase = PH
        rows = [[c[i] for c in cols] for i in range(n)]
        with open("g.star", "w") as f:
            f.write(star_text(labels, rows, numbered=(spell % 2 == 0)) if nl else star_text(labels, rows, numbered=(spell % 2 == 0)).rstrip("\n"))
        got = obs.lib("defocus_load", ioutils.defocus_load, os.path.abspath("g.star"), "gctf")
        site = "gctf_read"
        tol = 1e-9
    Uw = np.array([float(sp(u)) for u in U])
    Vw = np.array([float(sp(v)) for v in V])
    ok_shape = list(got.columns) == ["defocus1", "defocus2", "astigmatism", "phase_shift", "defocus_mean"] and len(got) == n
    obs.check(ok_shape, site, "defocus-table-shape", lambda: f"{list(got.columns)} x {len(got)}")
    if ok_shape:
        g = got.to_numpy(dtype=float)
        obs.check(np.allclose(g[:, 0], Uw * 1e-4, rtol=tol, atol=0) and np.allclose(g[:, 1], Vw * 1e-4, rtol=tol, atol=0), site, "defocus-angstrom-to-micrometre",
                  lambda: f"{g[:, :2].tolist()} vs {(Uw * 1e-4).tolist()} {(Vw * 1e-4).tolist()}")
        obs.check(np.allclose(g[:, 4], (Uw + Vw) / 2 * 1e-4, rtol=tol, atol=0), site, "defocus-mean", lambda: f"{g[:, 4].tolist()}")
        obs.check(np.allclose(g[:, 2], [float(sp(a)) for a in A], rtol=max(tol, 1e-6), atol=1e-6), site, "astigmatism-angle", lambda: f"{g[:, 2].tolist()}")
        obs.check(np.allclose(g[:, 3], [float(sp(p)) if kind in ("ctffind4", "gctf-phase", "gctf-reordered") else 0.0 for p in phase], rtol=max(tol, 1e-6), atol=1e-6), site, "phase-shift",
                  lambda: f"{g[:, 3].tolist()}")
        obs.outcome = tuple(np.round(g[0], 5).tolist()) + (n,)


# =====================================================================================================
# wedge lists

def wedge_cases(tier):
    nt = [1, 2, 3] if tier == "quick" else [1, 2, 3, 5]
    cases = []
    for ntomo in nt:
        for ntilt in ([1, 2, 3] if tier == "quick" else [1, 2, 3, 41]):
            for dims in ("one-list", "one-array", "table-array", "table-file", "per-tomo-files"):
                for zs in ("scalar", "table", "per-tomo-files"):
                    for ctf in (None, "gctf", "ctffind4"):
                        for dose in (False, True):
                            cases.append((ntomo, ntilt, dims, zs, ctf, dose))
    return cases


def exec_wedge(case, obs):
    from cryocat import wedgeutils
    from ..oracles import startok

    ntomo, ntilt, dims_kind, zs_kind, ctf, dose, seed = case
    tomos = [3, 11, 7, 20, 5][:ntomo]
    obs.nontrivial = ntomo >= 2 and ntilt >= 2
    px = 1.35 + 0.5 * (seed % 2)
    tilts, defs, doses, dim, zsh = {}, {}, {}, {}, {}
    for k, t in enumerate(tomos):
        nt_ = ntilt + (k % 2 if ntilt < 10 else 0)  # tomograms may have different numbers of tilts
        tilts[t] = [round(-30.0 + 7.5 * i + k, 3) for i in range(nt_)]
        defs[t] = ([round(25000.0 + 1000 * i + 10 * k, 1) for i in range(nt_)], [round(24000.0 + 900 * i + 10 * k, 1) for i in range(nt_)])
        doses[t] = [round(3.0 * ((i * 2 + 1) % nt_) + 1.5, 3) for i in range(nt_)]
        dim[t] = (1000 + 10 * k, 900 + k, 300 + 5 * k) if dims_kind in ("table-array", "table-file", "per-tomo-files") else (1000, 900, 300)
        zsh[t] = (2.5 * k - 1.0) if zs_kind != "scalar" else 4.0
        with open(f"ts_{t:03d}.tlt", "w") as f:
            f.write("\n".join(repr(a) for a in tilts[t]) + "\n")
        with open(f"ts_{t:03d}_dose.txt", "w") as f:
            f.write("\n".join(repr(a) for a in doses[t]) + "\n")
        if ctf == "gctf":
            rows = [[f"m{i}.mrc", repr(defs[t][0][i]), repr(defs[t][1][i]), repr(12.5 + i)] for i in range(nt_)]
            with open(f"ts_{t:03d}_ctf.star", "w") as f:
                f.write(star_text(["rlnMicrographName", "rlnDefocusU", "rlnDefocusV", "rlnDefocusAngle"], rows))
        elif ctf == "ctffind4":
            with open(f"ts_{t:03d}_ctf.txt", "w") as f:
                f.write("# header 1\n# header 2\n" + "\n".join(" ".join([repr(float(i + 1)), repr(defs[t][0][i]), repr(defs[t][1][i]), "12.5", "0.0", "0.1", "4.0"]) for i in range(nt_)) + "\n")
        with open(f"ts_{t:03d}_dim.txt", "w") as f:
            f.write(" ".join(str(v) for v in dim[t]) + "\n")
        with open(f"ts_{t:03d}_zs.txt", "w") as f:
            f.write(f"{zsh[t]}\n")
    kw = {}
    if dims_kind == "one-list":
        kw["tomo_dim"] = [1000, 900, 300]
    elif dims_kind == "one-array":
        kw["tomo_dim"] = np.array([1000, 900, 300])
    elif dims_kind == "table-array":
        kw["tomo_dim"] = np.array([[t, *dim[t]] for t in reversed(tomos)], dtype=float)
    elif dims_kind == "table-file":
        with open("dims.txt", "w") as f:
            f.write("\n".join(" ".join(str(v) for v in (t, *dim[t])) for t in tomos) + "\n")
        kw["tomo_dim"] = os.path.abspath("dims.txt")
    else:
        kw["tomo_dim_file_format"] = os.path.abspath("ts_$xxx_dim.txt")
    if zs_kind == "scalar":
        kw["z_shift"] = 4.0
    elif zs_kind == "table":
        kw["z_shift"] = np.array([[t, zsh[t]] for t in reversed(tomos)], dtype=float)
    else:
        kw["z_shift_file_format"] = os.path.abspath("ts_$xxx_zs.txt")
    if ctf == "gctf":
        kw["ctf_file_format"] = os.path.abspath("ts_$xxx_ctf.star")
        kw["ctf_file_type"] = "gctf"
    elif ctf == "ctffind4":
        kw["ctf_file_format"] = os.path.abspath("ts_$xxx_ctf.txt")
        kw["ctf_file_type"] = "ctffind4"
    if dose:
        kw["dose_file_format"] = os.path.abspath("ts_$xxx_dose.txt")
    out = os.path.abspath("wl.star")
    site = "create_wedge_list_sg_batch"
    cls = ("ctf-" + ctf if ctf else "no-ctf") + ("+dose" if dose else "")
    df = obs.lib(site, wedgeutils.create_wedge_list_sg_batch, np.array(tomos), px, os.path.abspath("ts_$xxx.tlt"), output_file=out, voltage=200.0, amp_contrast=0.1, cs=2.2, **kw)
    # expected rows
    want = []
    for t in tomos:
        sorted_tilts = sorted(tilts[t])
        for i, a in enumerate(sorted_tilts):
            row = {"tomo_num": t, "pixelsize": px, "tomo_x": dim[t][0], "tomo_y": dim[t][1], "tomo_z": dim[t][2], "z_shift": zsh[t], "tilt_angle": a,
                   "voltage": 200.0, "amp_contrast": 0.1, "cs": 2.2}
            if ctf:
                row["defocus"] = (defs[t][0][i] + defs[t][1][i]) / 2 * 1e-4
            if dose:
                row["exposure"] = doses[t][i]
            want.append(row)

    def cmp_rows(rows_got, label, tol):
        ok = len(rows_got) == len(want)
        detail = f"{len(rows_got)} rows, expected {len(want)} (one per tilt per tomogram)"
        obs.check(ok, site, f"{label}-one-row-per-tilt", detail, cls=cls)
        if not ok:
            return
        for g, w in zip(rows_got, want):
            for k, v in w.items():
                if k not in g:
                    obs.check(False, site, f"{label}-column-missing", f"{k} missing; have {list(g)}", cls=cls)
                    return
                if abs(float(g[k]) - float(v)) > tol * max(1.0, abs(float(v))):
                    obs.check(False, site, f"{label}-field-{k}", f"tomo {w['tomo_num']} tilt {w['tilt_angle']}: {k} = {g[k]} expected {v}", cls=cls)
                    return
        obs.fire(*[f"{label}-field-{k}" for k in want[0]])

    cmp_rows([{c: df[c].iloc[i] for c in df.columns} for i in range(len(df))], "table", 2e-6)
    # the written STOPGAP file, parsed independently
    with open(out) as f:
        text = f.read()
    blocks = startok.parse(text)
    okb = len(blocks) == 1 and blocks[0]["name"] == "data_stopgap_wedgelist"
    obs.check(okb, site, "file-one-stopgap-block", lambda: f"blocks {[b['name'] for b in blocks]}", cls=cls)
    if okb:
        b = blocks[0]
        rows = [dict(zip(b["labels"], r)) for r in b["rows"]]
        cmp_rows(rows, "file", 2e-6)
        # star -> em conversion and em wedge list
        em_df = obs.lib("wedge_list_sg_to_em", wedgeutils.wedge_list_sg_to_em, out, os.path.abspath("wl_conv.em"))
        pe = emfmt.parse(os.path.abspath("wl_conv.em"))
        arr = np.asarray(pe["flat"], dtype=float).reshape(-1, 3)
        want_em = sorted((float(t), float(np.float32(min(tilts[t]))), float(np.float32(max(tilts[t])))) for t in tomos)
        obs.check(pe["code"] == 5 and sorted(map(tuple, arr.tolist())) == want_em, "wedge_list_sg_to_em", "em-min-max-per-tomogram", lambda: f"{arr.tolist()} vs {want_em}", cls=cls)
    em2 = obs.lib("create_wedge_list_em_batch", wedgeutils.create_wedge_list_em_batch, np.array(tomos), os.path.abspath("ts_$xxx.tlt"), output_file=os.path.abspath("wl.em"))
    pe = emfmt.parse(os.path.abspath("wl.em"))
    arr = np.asarray(pe["flat"], dtype=float).reshape(-1, 3)
    want_em = [(float(t), float(np.float32(min(tilts[t]))), float(np.float32(max(tilts[t])))) for t in tomos]
    obs.check(pe["code"] == 5 and (pe["nx"], pe["ny"], pe["nz"]) == (3, len(tomos), 1) and list(map(tuple, arr.tolist())) == want_em, "create_wedge_list_em_batch",
              "em-min-max-per-tomogram", lambda: f"{arr.tolist()} vs {want_em}", cls=cls)
    obs.outcome = (len(df), tuple(df.columns), round(float(df["tilt_angle"].sum()), 3))


def unsorted_wedge_cases(tier):
    cases = []
    for ntomo in ([1, 2, 3] if tier == "quick" else [1, 2, 3, 5]):
        for ntilt in ([2, 3, 5] if tier == "quick" else [2, 3, 5, 41]):
            for order in ("dose-symmetric", "descending", "ascending"):
                for ctf in (False, True):
                    cases.append((ntomo, ntilt, order, ctf))
    return cases


def exec_wedge_unsorted(case, obs):
    """Tilt series in ACQUISITION order (array inputs are used as given): the STOPGAP list pairs the i-th tilt with the
    i-th defocus / exposure, and the EM list holds min and max whatever the order."""
    from cryocat import wedgeutils
    from ..oracles import startok

    ntomo, ntilt, order, ctf, seed = case
    tomos = [12, 4, 9, 30, 1][:ntomo]
    obs.nontrivial = ntilt >= 3 and order != "ascending"
    blocks_rows = []
    want_minmax = []
    for k, t in enumerate(tomos):
        asc = [round(-18.0 + 36.0 * i / max(1, ntilt - 1) + 0.5 * k + 0.01 * seed, 4) for i in range(ntilt)]
        if order == "ascending":
            tl = asc
        elif order == "descending":
            tl = asc[::-1]
        else:  # dose-symmetric: start in the middle, alternate outwards
            mid = ntilt // 2
            idx = [mid]
            for d in range(1, ntilt):
                for sgn in (1, -1):
                    j = mid + sgn * d
                    if 0 <= j < ntilt and j not in idx:
                        idx.append(j)
            tl = [asc[j] for j in idx]
        tl = np.array(tl)
        dose = np.array([1.5 * (i + 1) for i in range(ntilt)])
        defoc = np.column_stack([3.0 + 0.01 * np.arange(ntilt), 2.9 + 0.01 * np.arange(ntilt), np.zeros(ntilt), np.zeros(ntilt), 2.95 + 0.01 * np.arange(ntilt)])
        kw = dict(tomo_id=t, tomo_dim=[100 + k, 90, 30], pixel_size=2.0, tlt_file=tl.copy(), z_shift=1.5 * k, dose_file=dose.copy())
        if ctf:
            kw["ctf_file"] = defoc.copy()
        df = obs.lib("create_wedge_list_sg", wedgeutils.create_wedge_list_sg, **kw)
        ok = len(df) == ntilt and np.allclose(df["tilt_angle"].to_numpy(dtype=float), tl) and np.allclose(df["exposure"].to_numpy(dtype=float), dose)
        if ok and ctf:
            ok = np.allclose(df["defocus"].to_numpy(dtype=float), defoc[:, 4])
        obs.check(ok, "create_wedge_list_sg", "array-inputs-paired-in-given-order",
                  lambda: f"tilts {df['tilt_angle'].tolist()} exposure {df['exposure'].tolist()} for inputs {tl.tolist()} {dose.tolist()}", cls=order)
        for a in tl:
            blocks_rows.append([str(t), "2.0", repr(float(a))])
        want_minmax.append((float(t), float(np.float32(tl.min())), float(np.float32(tl.max()))))
    text = startok.build([{"name": "data_stopgap_wedgelist", "labels": ["tomo_num", "pixelsize", "tilt_angle"], "rows": blocks_rows}], numbered=False)
    with open("wl_unsorted.star", "w") as f:
        f.write(text)
    em_df = obs.lib("wedge_list_sg_to_em", wedgeutils.wedge_list_sg_to_em, os.path.abspath("wl_unsorted.star"), os.path.abspath("wl_unsorted.em"))
    pe = emfmt.parse(os.path.abspath("wl_unsorted.em"))
    arr = np.asarray(pe["flat"], dtype=float).reshape(-1, 3)
    obs.check(sorted(map(tuple, arr.tolist())) == sorted(want_minmax), "wedge_list_sg_to_em", "em-min-max-per-tomogram",
              lambda: f"{arr.tolist()} vs {sorted(want_minmax)}", cls="tilts-" + order)
    got_df = sorted((float(r[0]), float(np.float32(r[1])), float(np.float32(r[2]))) for r in em_df.to_numpy(dtype=float))
    obs.check(got_df == sorted(want_minmax), "wedge_list_sg_to_em", "table-min-max-per-tomogram", lambda: f"{got_df} vs {sorted(want_minmax)}", cls="tilts-" + order)
    obs.outcome = tuple(map(tuple, arr.round(3).tolist()))


def families(tier, seed):
    depth = 4 if tier == "quick" else 6
    fams = [
        BFSFamily("mdoc-histories", MdocSpec(seed), max_depth=depth,
                  expect=("sort-only-reorders", "remove-only-flags", "reread-same-table", "text-sections-exactly-kept", "header-same", "fn-remove-result", "fn-sort-result")),
        Family("mdoc-grammar", Mapped(Listed(grammar_docs(tier, seed)), lambda c: c + (seed,)), exec_grammar,
               expect=("read-image-values", "reread-same-table", "text-sections-exactly-kept", "tilt-angles-ascending"),
               describe=lambda c: {"header_kinds": c[0], "image_kinds": c[1], "titles": c[2], "angles": c[3] if len(c[3]) < 8 else f"{len(c[3])} angles"}),
        Family("loaders", Mapped(Listed(loader_cases(tier)), lambda c: c + (seed,)), exec_loader,
               expect=("tilt-angles-ascending", "dose-values-in-file-order", "defocus-angstrom-to-micrometre", "defocus-mean", "mdoc-dose-prior-plus-exposure"),
               describe=lambda c: {"kind": c[0], "n": c[1], "number_spelling": c[2], "final_newline": c[3]}),
        Family("wedge-lists", Mapped(Listed(wedge_cases(tier)), lambda c: c + (seed,)), exec_wedge,
               expect=("table-one-row-per-tilt", "file-one-row-per-tilt", "em-min-max-per-tomogram", "table-field-z_shift", "file-field-defocus"),
               describe=lambda c: {"tomograms": c[0], "tilts": c[1], "dims": c[2], "z_shift": c[3], "ctf": c[4], "dose": c[5]}),
        Family("wedge-lists-acquisition-order", Mapped(Listed(unsorted_wedge_cases(tier)), lambda c: c + (seed,)), exec_wedge_unsorted,
               expect=("array-inputs-paired-in-given-order", "em-min-max-per-tomogram", "table-min-max-per-tomogram"),
               describe=lambda c: {"tomograms": c[0], "tilts": c[1], "tilt_order": c[2], "ctf": c[3]}),
    ]
    return fams
