"""C01 — EM particle-list files round-trip losslessly for any table column order."""
import os

import numpy as np
import pandas as pd

from ..engine import Family
from ..space import Listed, Product, neighbourhood_swaps
from ..motlgen import COLS, PALETTE
from ..oracles import emfmt

RULE = (
    "cases = column order (deviation-bounded neighbourhood of the canonical order under transpositions, plus all "
    "rotations and the reversal) x N x NaN-hole pattern x construction path x write path; each case runs the chain "
    "build -> write -> parse bytes independently -> load -> write again -> load.  Non-trivial = the column order is "
    "not canonical or the table has a NaN hole; distinct = distinct case descriptions."
)
BOUNDS = {
    "quick": "N in {19,20,21} x 4 orders (transposition-invisible square case); all orders within 1 transposition (191) + 19 rotations + reversal; N in 1..3; N=1: every single-cell NaN; 6 construction x 2 write paths",
    "thorough": "N in {19,20,21} x 4 orders; all orders within 1 transposition + rotations + reversal x N in 1..5 x all NaN patterns x 6 construction x 2 write paths; all ~17.7k orders at exactly 2 transpositions x N=2 x 2 NaN patterns x 2 construction x 2 write paths",
}
ASSUMPTIONS = [
    "values are finite float64 inside float32 range (palette: non-representable doubles, denormals, -0.0, 3e38) or NaN",
    "EM format as documented in the TOM toolbox (512-byte header, type byte 3, int32 dims at 4/8/12)",
]
BUDGET_S = {"quick": 400, "thorough": 3000}


def cell_value(r, c, seed):
    k = r * 20 + c
    p = PALETTE[(k + 7 * seed) % len(PALETTE)]
    if abs(p) > 1e30:
        return p * (1.0 + k / 4096.0)
    return p * (1.0 + k / 1024.0) if p != 0 else p


def table(order, n, nan_cells, seed):
    """Table with columns in `order`; the value of FIELD f in row r depends on (r, canonical index of f)."""
    data = {}
    for f in order:
        c = COLS.index(f)
        col = np.array([cell_value(r, c, seed) for r in range(n)], dtype=np.float64)
        data[f] = col
    df = pd.DataFrame(data, columns=list(order))
    for (r, c) in nan_cells:
        df.loc[r, COLS[c]] = np.nan
    # identifiers/group fields must stay usable by subset/merge construction paths
    return df


def expected_rows(df):
    """Truth by column NAME: float32 rounding, NaN -> 0."""
    out = np.zeros((len(df), 20), dtype=np.float32)
    for j, f in enumerate(COLS):
        a = np.asarray(df[f], dtype=np.float64)
        a = np.where(np.isnan(a), 0.0, a)
        out[:, j] = a.astype(np.float32)
    return out


CONSTRUCT = ["Motl(df)", "Motl.load(df)", "EmMotl(df)", "EmMotl(EmMotl)", "subset-of", "merge-of"]
WRITE = ["Motl.write_out", "EmMotl.write_out"]


def build(df, how, obs):
    from cryocat import cryomotl as cm

    if how == "Motl(df)":
        return obs.lib("Motl.__init__", cm.Motl, df.copy())
    if how == "Motl.load(df)":
        return obs.lib("Motl.load", cm.Motl.load, df.copy())
    if how == "EmMotl(df)":
        return obs.lib("EmMotl.__init__", cm.EmMotl, df.copy())
    if how == "EmMotl(EmMotl)":
        return obs.lib("EmMotl.__init__", cm.EmMotl, obs.lib("EmMotl.__init__", cm.EmMotl, df.copy()))
    if how == "subset-of":
        m = obs.lib("Motl.__init__", cm.Motl, df.copy())
        feat = next(f for f in ("tomo_id", "object_id", "class", "geom1") if not df[f].isna().any())
        vals = [float(v) for v in pd.unique(df[feat])]
        return obs.lib("get_motl_subset", m.get_motl_subset, vals, feat)
    if how == "merge-of":
        m = obs.lib("Motl.__init__", cm.Motl, df.copy())
        return obs.lib("merge_and_drop_duplicates", cm.Motl.merge_and_drop_duplicates, [m])
    raise ValueError(how)


def execute(case, obs):
    from cryocat import cryomotl as cm

    order, n, nan_cells, how, wpath, seed = case[:6]
    index_kind = case[6] if len(case) > 6 else "default"
    df = table(order, n, nan_cells, seed)
    if len(case) > 7 and case[7] == "float32-range-end":
        big = [3.4028234663852886e38, -3.4028234663852886e38, 3.4028e38, -3.40281e38, 3.4e38, 3.3999999e38, 3.402823e38]
        for r in range(n):
            for j, f in enumerate(("score", "geom1", "x", "shift_z", "phi", "geom5", "class")):
                df.loc[r, f] = big[(j + 3 * r) % len(big)]
    if index_kind != "default":
        # what sort_values / boolean filtering / iloc[::2] leave behind: row labels that are not 0..N-1 in order
        labels = {"reversed": list(range(n - 1, -1, -1)), "gapped": [3 * i + 2 for i in range(n)],
                  "shuffled": [(7 * i + 3) % n for i in range(n)] if n > 1 else [5]}[index_kind]
        df.index = labels
    obs.nontrivial = (list(order) != COLS) or bool(nan_cells)
    m = build(df, how, obs)
    site_c = how
    # the constructor must present the same particles by NAME (subset/merge may regroup: skip for those)
    if how in ("Motl(df)", "Motl.load(df)", "EmMotl(df)", "EmMotl(EmMotl)"):
        got = expected_rows(m.df) if set(m.df.columns) == set(COLS) else None
        want = expected_rows(df)
        obs.check(got is not None and got.shape == want.shape and np.array_equal(got, want), site_c, "construct-by-name",
                  "object's table (by field name) differs from the input table")
    if set(m.df.columns) != set(COLS) or len(m.df) == 0:
        obs.fail(site_c, "construct-shape", f"columns {list(m.df.columns)} rows {len(m.df)}")
        obs.outcome = ("bad-construct",)
        return
    if nan_cells:
        # the holes are (also) punched into the live list: a value that went missing after construction must still be
        # written as 0 (the constructor's own clean-up of the input table was judged just above)
        for (r, c) in nan_cells:
            if r < len(m.df):
                m.df.iloc[r, m.df.columns.get_loc(COLS[c])] = np.nan
    want = expected_rows(m.df)  # the particle list that is being written, by field name
    nrows = want.shape[0]
    p1 = os.path.abspath("c01_a.em")
    p2 = os.path.abspath("c01_b.em")
    if wpath == "Motl.write_out":
        obs.lib("Motl.write_out", cm.Motl.write_out, m, p1, "emmotl")
        wsite = "Motl.write_out"
    else:
        em = m if isinstance(m, cm.EmMotl) else obs.lib("EmMotl.__init__", cm.EmMotl, m.df)
        obs.lib("EmMotl.write_out", em.write_out, p1)
        wsite = "EmMotl.write_out"
    with open(p1, "rb") as f:
        b1 = f.read()
    try:
        em1 = emfmt.parse(b1)
    except emfmt.EMError as e:
        obs.fail(wsite, "file-valid-em", str(e))
        obs.outcome = ("invalid-em",)
        return
    ok_hdr = obs.check(
        em1["code"] == 5 and (em1["nx"], em1["ny"], em1["nz"]) == (20, nrows, 1), wsite, "file-header",
        lambda: f"type code {em1['code']} dims {(em1['nx'], em1['ny'], em1['nz'])}, expected float32 (5) and (20,{nrows},1)")
    if ok_hdr:
        disk = np.asarray(em1["flat"]).reshape(nrows, 20)
        eq = np.array_equal(disk, want)
        if not eq:
            bad = np.argwhere(disk != want)
            r, c = bad[0]
            scr = sorted(disk[r].tolist()) == sorted(want[r].tolist())
            obs.check(False, wsite, "file-field-order" if scr else "file-values",
                      f"row {r} field {COLS[c]}: on disk {disk[r, c]!r}, expected float32 {want[r, c]!r}; {len(bad)} cells differ",
                      cls="permuted-columns" if list(m.df.columns) != COLS else "canonical-columns")
        else:
            obs.fire("file-field-order", "file-values")
    # load back
    m2 = obs.lib("Motl.load(path)", cm.Motl.load, p1)
    ok = list(m2.df.columns) == COLS and len(m2.df) == nrows
    obs.check(ok, "Motl.load(path)", "load-shape", lambda: f"columns {list(m2.df.columns)} rows {len(m2.df)}")
    if ok:
        got = m2.df.to_numpy(dtype=np.float64)
        obs.check(np.array_equal(got, want.astype(np.float64)), "Motl.load(path)", "load-values",
                  "re-loaded table differs from float32 rounding of the written list",
                  cls="permuted-columns" if list(m.df.columns) != COLS else "canonical-columns")
        # second generation
        obs.lib("Motl.write_out", cm.Motl.write_out, m2, p2, "emmotl")
        with open(p2, "rb") as f:
            b2 = f.read()
        obs.check(b1 == b2, "Motl.write_out", "second-generation-identical", "file written from the re-loaded list differs from the first file")
        m3 = obs.lib("Motl.load(path)", cm.Motl.load, p2)
        obs.check(list(m3.df.columns) == COLS and np.array_equal(m3.df.to_numpy(dtype=np.float64), got), "Motl.load(path)",
                  "second-generation-load", "second re-load differs")
    import hashlib

    obs.outcome = hashlib.blake2b(b1, digest_size=8).hexdigest()


def orders(tier):
    base = tuple(COLS)
    lst = list(neighbourhood_swaps(base, 1))
    seen = set(lst)
    extra = [base[k:] + base[:k] for k in range(1, 20)] + [tuple(reversed(base))]
    for o in extra:
        if o not in seen:
            seen.add(o)
            lst.append(o)
    return lst


def nan_patterns(n, tier):
    pats = [()]
    if n == 1:
        pats += [((0, c),) for c in range(20)]
        pats += [tuple((0, c) for c in range(20) if c not in (3, 4, 5))]
    elif n == 2:
        pats += [tuple((0, c) for c in range(20) if c not in (3, 4, 5))]
        pats += [((1, c),) for c in range(20)] if tier == "thorough" else [((1, c),) for c in (0, 3, 7, 12, 19)]
    else:
        pats += [tuple((r, (r * 7) % 20) for r in range(n))]
        pats += [tuple((n - 1, c) for c in range(20) if c not in (3, 4, 5))]
    return pats


def families(tier, seed):
    ords = orders(tier)
    ns = [1, 2, 3] if tier == "quick" else [1, 2, 3, 4, 5]
    cases = []
    for n in ns:
        for pat in nan_patterns(n, tier):
            cases.append((n, pat))
    shapes = Listed(cases)

    def mk(c):
        (order, (n, pat), how, w) = c
        return (order, n, pat, how, w, seed)

    from ..space import Mapped

    sp = Mapped(Product(ords, shapes, CONSTRUCT, WRITE), mk)

    def describe(case):
        order, n, pat, how, w, s = case
        dev = [f for f, g in zip(order, COLS) if f != g]
        return {"column_order": list(order) if dev else "canonical", "N": n, "nan_cells": [list(x) for x in pat], "construct": how, "write": w}

    # list lengths that collide with the structural constant 20 (the number of fields): a 20 x 20 table is the one
    # shape on which a transposed read or write is not caught by any shape check
    base = tuple(COLS)
    few_orders = [base, tuple([base[1], base[0]] + list(base[2:])), base[7:] + base[:7], tuple(reversed(base))]
    coll = []
    for n in (19, 20, 21):
        coll.append((n, ()))
        coll.append((n, ((n - 1, 0), (0, 19), (n // 2, 7))))
    sp2 = Mapped(Product(few_orders, Listed(coll), CONSTRUCT, WRITE), mk)
    # rows that are entirely missing / zero (also as the LAST particle), and values at the very end of the float32 range
    edge = []
    for n in (1, 2, 3):
        edge.append((n, tuple((n - 1, c) for c in range(20))))                        # last particle: every field missing
        edge.append((n, tuple((0, c) for c in range(20))))                            # first particle: every field missing
        edge.append((n, tuple((r, c) for r in range(n) for c in range(20))))          # every particle all-missing
    sp_edge = Mapped(Product(few_orders, Listed(edge), ["Motl(df)", "Motl.load(df)", "EmMotl(df)", "EmMotl(EmMotl)"], WRITE), mk)
    fam_edge = Family("all-missing-rows", sp_edge, execute, describe=describe, expect=("file-header", "file-values", "load-shape", "load-values"), min_outcomes=1)

    def mk_big(c):
        (order, n, how, w) = c
        return (order, n, (), how, w, seed, "default", "float32-range-end")

    sp_big = Mapped(Product(few_orders, [1, 2], ["Motl(df)", "EmMotl(df)"], WRITE), mk_big)
    fam_big = Family("float32-range-end", sp_big, execute, describe=lambda c: dict(describe(c[:6]), values="+-float32 max and neighbours"),
                     expect=("file-values", "load-values"), min_outcomes=1)
    # hidden representation state: the same tables with a non-default row index, with and without NaN holes
    idx_cases = []
    for n in (2, 3, 5):
        idx_cases.append((n, ()))
        idx_cases.append((n, ((0, 7), (n - 1, 0))))
        idx_cases.append((n, tuple((r, (5 * r + 1) % 20) for r in range(n))))

    def mk_idx(c):
        (order, (n, pat), how, w, ik) = c
        return (order, n, pat, how, w, seed, ik)

    sp_idx = Mapped(Product(few_orders, Listed(idx_cases), CONSTRUCT, WRITE, ["reversed", "gapped", "shuffled"]), mk_idx)
    extra = [Family("non-default-row-index", sp_idx, execute, describe=lambda c: dict(describe(c[:6]), row_index=c[6]),
                    expect=("file-header", "file-field-order", "file-values", "load-values", "second-generation-identical"))]
    extra += [fam_edge, fam_big]
    if tier == "thorough":
        # deviation bound 2: every order reachable by two transpositions, on a reduced pattern/path alphabet
        two = [o for o in neighbourhood_swaps(base, 2)][191:]
        pats2 = Listed([(2, ()), (2, ((0, 3), (1, 17)))])
        sp3 = Mapped(Product(two, pats2, ["Motl(df)", "EmMotl(df)"], WRITE), mk)
        extra.append(Family("two-swap-orders", sp3, execute, describe=describe,
                            expect=("file-header", "file-field-order", "load-values", "second-generation-identical")))
    return extra + [
        Family("n-collides-with-field-count", sp2, execute, describe=describe,
               expect=("file-header", "file-field-order", "load-values", "second-generation-identical")),
        Family("em-roundtrip", sp, execute, describe=describe,
               expect=("file-header", "file-field-order", "load-values", "second-generation-identical", "construct-by-name")),
    ]
