"""Finite, indexable spaces with exact cardinalities.

Every space enumerates in a fixed simplest-first order, knows len() analytically and
supports random access by index, so that the driver can shard the space by index over
worker processes and compare "cases executed" with "cases that exist".
"""
import itertools
import math


class Space:
    def __len__(self):
        raise NotImplementedError

    def __getitem__(self, i):
        raise NotImplementedError

    def __iter__(self):
        for i in range(len(self)):
            yield self[i]


class Listed(Space):
    """An explicitly listed finite set (materialised)."""

    def __init__(self, items):
        self.items = list(items)

    def __len__(self):
        return len(self.items)

    def __getitem__(self, i):
        return self.items[i]


class Product(Space):
    """Cartesian product; the LAST factor varies fastest (like itertools.product)."""

    def __init__(self, *factors):
        self.factors = [f if isinstance(f, Space) else Listed(f) for f in factors]
        self.sizes = [len(f) for f in self.factors]
        self.n = math.prod(self.sizes)

    def __len__(self):
        return self.n

    def __getitem__(self, i):
        if not 0 <= i < self.n:
            raise IndexError(i)
        out = []
        for f, s in zip(reversed(self.factors), reversed(self.sizes)):
            i, r = divmod(i, s)
            out.append(f[r])
        return tuple(reversed(out))


class Union(Space):
    """Disjoint union, in the order given."""

    def __init__(self, *parts):
        self.parts = [p if isinstance(p, Space) else Listed(p) for p in parts]
        self.offsets = [0]
        for p in self.parts:
            self.offsets.append(self.offsets[-1] + len(p))

    def __len__(self):
        return self.offsets[-1]

    def __getitem__(self, i):
        if not 0 <= i < len(self):
            raise IndexError(i)
        for k, p in enumerate(self.parts):
            if i < self.offsets[k + 1]:
                return p[i - self.offsets[k]]


class Mapped(Space):
    def __init__(self, base, fn):
        self.base = base if isinstance(base, Space) else Listed(base)
        self.fn = fn

    def __len__(self):
        return len(self.base)

    def __getitem__(self, i):
        return self.fn(self.base[i])


def subsets(items, kmin, kmax):
    """All subsets (as tuples, order of `items` kept) with kmin <= size <= kmax, smallest first."""
    items = list(items)
    out = []
    for k in range(kmin, kmax + 1):
        out.extend(itertools.combinations(items, k))
    return Listed(out)


def n_subsets(n, kmin, kmax):
    return sum(math.comb(n, k) for k in range(kmin, kmax + 1))


def ordered_selections(items, kmin, kmax):
    """All ordered selections without repetition (k-permutations), shortest first."""
    items = list(items)
    out = []
    for k in range(kmin, kmax + 1):
        out.extend(itertools.permutations(items, k))
    return Listed(out)


def sequences(alphabet, kmin, kmax):
    """All sequences over `alphabet` with kmin <= length <= kmax, shortest first."""
    alphabet = list(alphabet)
    out = []
    for k in range(kmin, kmax + 1):
        out.extend(itertools.product(alphabet, repeat=k))
    return Listed(out)


def permutations(items):
    return Listed(itertools.permutations(list(items)))


def neighbourhood_swaps(base, bound):
    """All distinct orders of `base` reachable by at most `bound` transpositions (bound in 0..2).

    Deviation-bounded neighbourhood of a canonical order: bound 0 = identity, 1 = all single
    swaps, 2 = all results of two swaps (de-duplicated).  Simplest first.
    """
    base = tuple(base)
    n = len(base)
    seen = {base: None}
    frontier = [base]
    for _ in range(bound):
        nxt = []
        for order in frontier:
            for a in range(n):
                for b in range(a + 1, n):
                    o = list(order)
                    o[a], o[b] = o[b], o[a]
                    o = tuple(o)
                    if o not in seen:
                        seen[o] = None
                        nxt.append(o)
        frontier = nxt
    return Listed(seen.keys())
