"""Reference formulae for Fourier-space operators – numpy only, never cryocat.

Conventions
-----------
An image is a 2-D array ``img[y, x]`` with ``h`` rows and ``w`` columns.  The integer frequency ``(kx, ky)`` of the
``h x w`` DFT lattice lives at ``np.fft.fft2(img)[ky % h, kx % w]``.  Its *signed* representative is
``s(k, n) = k if k <= n // 2 else k - n`` taken modulo ``n`` (so for even ``n`` the Nyquist index ``n/2`` is its own
negative and ``|s|`` is ``n/2`` whichever sign is chosen).  The spatial frequency in cycles per Angstrom is

    f(kx, ky) = sqrt( (s(kx, w) / (w * px))**2 + (s(ky, h) / (h * px))**2 )

with ``px`` the pixel size in Angstrom.

Dose filter (Grant & Grigorieff, eLife 2015, eq. 5-6 as quoted by property C16)
--------------------------------------------------------------------------------
The critical exposure is ``Nc(f) = 0.245 * f**(-1.665) + 2.81`` and an image that has accumulated ``dose`` e/A^2 is
multiplied, component by component, by

    gain(dose, f) = exp( -dose / (2 * Nc(f)) ),            gain(dose, 0) = 1      (Nc -> infinity for f -> 0).

A real plane wave cos/sin(2 pi (kx x / w + ky y / h)) has its two components at +-(kx, ky), which share ``f``; hence the
filtered wave is simply ``gain * wave``.
"""
import math

import numpy as np

GG_A = 0.245
GG_B = -1.665
GG_C = 2.81


def signed(k, n):
    """Signed representative of DFT index k on an n-point axis (|.| minimal)."""
    k = k % n
    return k if k <= n // 2 else k - n


def spatial_frequency(kx, ky, w, h, px):
    """Cycles per Angstrom of lattice frequency (kx, ky) of an h x w image with pixel size px."""
    return math.sqrt((signed(kx, w) / (w * px)) ** 2 + (signed(ky, h) / (h * px)) ** 2)


def gg_critical_exposure(f):
    if f == 0:
        return math.inf
    return GG_A * f ** GG_B + GG_C


def gg_gain(dose, f):
    """exp(-dose / (2 (0.245 f^-1.665 + 2.81))); 1 at f = 0."""
    if f == 0:
        return 1.0
    return math.exp(-float(dose) / (2.0 * (GG_A * f ** GG_B + GG_C)))


def gg_gain_table(w, h, px, dose):
    """(h, w) float64 table in numpy's fft2 layout: entry [ky, kx] is the gain of lattice frequency (kx, ky)."""
    t = np.empty((h, w), dtype=np.float64)
    for ky in range(h):
        for kx in range(w):
            t[ky, kx] = gg_gain(dose, spatial_frequency(kx, ky, w, h, px))
    return t


def plane_wave(w, h, kx, ky, phase):
    """Real plane wave img[y, x]; phase 'cos' or 'sin'.  Built from exact integer phases (no accumulated error)."""
    y, x = np.mgrid[0:h, 0:w]
    # phase fraction num/den with den = w*h : kx*x/w + ky*y/h = (kx*x*h + ky*y*w)/(w*h); reduce modulo den first
    num = (kx * x * h + ky * y * w) % (w * h)
    arg = 2.0 * np.pi * num.astype(np.float64) / float(w * h)
    return np.cos(arg) if phase == "cos" else np.sin(arg)


def is_self_conjugate(kx, ky, w, h):
    """True when (kx, ky) == -(kx, ky) on the lattice (DC and the Nyquist corners): the sin wave vanishes there."""
    return (2 * kx) % w == 0 and (2 * ky) % h == 0


def half_space(w, h):
    """One representative of every +-(kx, ky) pair, DC first, sorted by squared signed radius (simplest first)."""
    seen = set()
    out = []
    for ky in range(h):
        for kx in range(w):
            neg = ((-kx) % w, (-ky) % h)
            if (kx, ky) in seen or neg in seen:
                continue
            seen.add((kx, ky))
            out.append((kx, ky))
    out.sort(key=lambda k: (signed(k[0], w) ** 2 + signed(k[1], h) ** 2, k))
    return out
