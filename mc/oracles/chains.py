"""Invariant checker for traced chains (C19) – plain Python, no cryocat.

Input: what was given to the tracer (per particle: id, tomogram, entry site, exit site) and what came back
(per output row: id, tomogram, chain number, order number, recorded distance).  Nothing is predicted; the
statement's invariants are evaluated literally.
"""
import collections
import math


def dist(a, b):
    return math.sqrt(sum((float(x) - float(y)) ** 2 for x, y in zip(a, b)))


def min_margin(entries, exits, thresholds):
    """Smallest | d(exit_i, entry_j) - t | over all i, j (i == j included) and all thresholds (brute force)."""
    best = math.inf
    for x in exits:
        for e in entries:
            d = dist(x, e)
            for t in thresholds:
                best = min(best, abs(d - t))
    return best


def _reorder_hint(inputs, members, dmax, dmin, tol):
    """Diagnosis only: is there another order of the same members in which every link is in range and recorded?"""
    import itertools

    if len(members) > 7:
        return ""
    for perm in itertools.permutations(members):
        ok = True
        for a, b in zip(perm, perm[1:]):
            d = dist(inputs[a[0]][2], inputs[b[0]][1])
            if not (dmin < d <= dmax) or not abs(a[4] - d) <= tol:
                ok = False
                break
        if ok:
            return f"; the same members in the order {[r[0] for r in perm]} satisfy every link and recorded distance (order numbers scrambled)"
    return ""


def judge(inputs, rows, dmax, dmin, tol=1e-9):
    """inputs: {id: (tomo, entry_xyz, exit_xyz)}; rows: [(id, tomo, chain, order, recorded)].

    Returns (problems, chains): problems = [(clause, detail)], chains = {(tomo, chain): [ids in order]} for the
    groups whose order numbers are well formed.
    """
    problems = []
    got = sorted(r[0] for r in rows)
    want = sorted(inputs)
    if got != want:
        cnt = collections.Counter(got)
        missing = [i for i in want if cnt[i] == 0]
        dup = sorted(i for i, c in cnt.items() if c > 1 and i in inputs)
        foreign = sorted(i for i in cnt if i not in inputs)
        problems.append(("every-particle-exactly-once", f"missing ids {missing}, duplicated {dup}, unknown {foreign}"))
    wrong_t = [(r[0], r[1], inputs[r[0]][0]) for r in rows if r[0] in inputs and r[1] != inputs[r[0]][0]]
    if wrong_t:
        problems.append(("particle-keeps-its-tomogram", f"(id, output tomogram, input tomogram): {wrong_t[:4]}"))
    groups = collections.defaultdict(list)
    for r in rows:
        groups[(r[1], r[2])].append(r)
    by_number = collections.defaultdict(list)
    for r in rows:
        by_number[r[2]].append(r)
    spanning = set()
    chains = {}
    for key in sorted(groups):
        members = sorted(groups[key], key=lambda r: r[3])
        orders = [r[3] for r in members]
        k = len(members)
        if orders != [float(i) for i in range(1, k + 1)]:
            # diagnosis: the order numbers are broken within the tomogram but form 1..K over several tomograms
            # -> one chain was traced through particles of different tomograms
            allm = sorted(by_number[key[1]], key=lambda r: r[3])
            if len({r[1] for r in allm}) > 1 and [r[3] for r in allm] == [float(i) for i in range(1, len(allm) + 1)]:
                if key[1] not in spanning:
                    spanning.add(key[1])
                    problems.append(("chain-within-one-tomogram", f"chain {key[1]} runs through tomograms {[r[1] for r in allm]} (ids {[r[0] for r in allm]}, "
                                                                  f"order numbers {[r[3] for r in allm]})"))
                continue
            problems.append(("order-numbers-1..k", f"tomogram {key[0]} chain {key[1]}: order numbers {orders} for ids {[r[0] for r in members]}"))
            continue
        # a chain lives in one tomogram: every member must be an input particle of that tomogram
        if any(r[0] in inputs and inputs[r[0]][0] != key[0] for r in members):
            problems.append(("chain-within-one-tomogram", f"tomogram {key[0]} chain {key[1]} holds ids {[r[0] for r in members]} from tomograms "
                                                          f"{[inputs[r[0]][0] for r in members if r[0] in inputs]}"))
            continue
        if any(r[0] not in inputs for r in members):
            continue
        chains[key] = [r[0] for r in members]
        hint = None
        for a, b in zip(members, members[1:]):
            d = dist(inputs[a[0]][2], inputs[b[0]][1])
            bad_range = not (dmin < d <= dmax)
            bad_rec = not abs(a[4] - d) <= tol
            if (bad_range or bad_rec) and hint is None:
                hint = _reorder_hint(inputs, members, dmax, dmin, tol)
            if bad_range:
                problems.append(("link-distance-in-range", f"tomogram {key[0]} chain {key[1]}: exit of id {a[0]} (order {a[3]}) to entry of id {b[0]} "
                                                           f"is {d:.6f}, not in ({dmin}, {dmax}]{hint}"))
            if bad_rec:
                problems.append(("link-distance-recorded", f"tomogram {key[0]} chain {key[1]}: id {a[0]} (order {a[3]}) records {a[4]!r}, "
                                                           f"distance to the entry of its successor id {b[0]} is {d!r}{hint}"))
    return problems, chains
