"""Independent EM (TOM toolbox) file parser/writer – struct + numpy only.

Header: 512 bytes.  byte 0 machine code (6 = little-endian PC; 3/5 = big-endian), byte 3 data type code
(1 int8, 2 int16, 4 int32, 5 float32, 9 float64), int32 xdim, ydim, zdim at offsets 4, 8, 12.
Data follow the header, x fastest, then y, then z.
"""
import struct

import numpy as np

_CODES = {1: "i1", 2: "i2", 4: "i4", 5: "f4", 9: "f8"}
_REV = {"i1": 1, "i2": 2, "i4": 4, "f4": 5, "f8": 9}


class EMError(Exception):
    pass


def parse(path_or_bytes):
    """-> dict(machine, code, dtype, nx, ny, nz, data) with data[x, y, z] (x fastest on disk)."""
    b = path_or_bytes
    if not isinstance(b, (bytes, bytearray)):
        with open(b, "rb") as f:
            b = f.read()
    if len(b) < 512:
        raise EMError(f"file shorter than the 512-byte header: {len(b)}")
    machine, code = b[0], b[3]
    if machine in (6,):
        bo = "<"
    elif machine in (0, 3, 5):
        bo = ">"
    else:
        raise EMError(f"unknown machine code {machine}")
    nx, ny, nz = struct.unpack(bo + "iii", b[4:16])
    if code not in _CODES:
        raise EMError(f"unknown data type code {code}")
    dt = np.dtype(bo + _CODES[code])
    n = nx * ny * nz
    if nx < 0 or ny < 0 or nz < 0:
        raise EMError(f"negative dimension {(nx, ny, nz)}")
    if len(b) - 512 != n * dt.itemsize:
        raise EMError(f"payload {len(b) - 512} bytes, header says {nx}x{ny}x{nz} of {dt}")
    flat = np.frombuffer(b, dtype=dt, offset=512, count=n)
    # element (x, y, z) sits at x + nx*(y + ny*z)
    data = flat.reshape((nz, ny, nx)).transpose(2, 1, 0)
    return {"machine": machine, "code": code, "dtype": _CODES[code], "nx": nx, "ny": ny, "nz": nz, "data": data, "flat": flat}


def build(data_xyz):
    """Bytes of an EM file for data indexed [x, y, z]."""
    a = np.asarray(data_xyz)
    if a.ndim != 3:
        raise EMError("need 3-D data")
    kind = a.dtype.newbyteorder("=").str[1:]
    if kind not in _REV:
        raise EMError(f"unsupported dtype {a.dtype}")
    nx, ny, nz = a.shape
    hdr = bytearray(512)
    hdr[0] = 6
    hdr[3] = _REV[kind]
    hdr[4:16] = struct.pack("<iii", nx, ny, nz)
    flat = np.ascontiguousarray(a.transpose(2, 1, 0)).astype("<" + kind).tobytes()
    return bytes(hdr) + flat


def write(path, data_xyz):
    with open(path, "wb") as f:
        f.write(build(data_xyz))
