"""Independent STAR tokenizer and writer (oracle) – `re` only; never imports cryocat or pandas.

Written from the STAR conventions used by RELION and STOPGAP files, line oriented:

* a `#` starts a comment that runs to the end of the line (tokens of the judged inputs never contain `#`);
* tokens are separated by arbitrary runs of blanks/tabs (any white space); leading/trailing white space and a
  trailing `\\r` (CRLF files) are insignificant; lines without a token (blank, comment only) carry no data;
* a line whose single token starts with `data_` opens a block with that name;
* `loop_` opens the label list of the block; every following line whose token starts with `_` is one label
  (the leading `_` is not part of the label); a label line may carry a `#n` comment (RELION numbering), which is
  reported separately in `numbers`;
* every following line with tokens is one row (its tokens, in order) until the next `data_` line or the end;
* a block without `loop_` holds `_label value` pairs; it is reported as a one-row block with `loop: False`.

parse(text)  -> [ {"name", "labels", "numbers", "rows", "loop", "comments"} , ... ]   (rows = list of token lists)
build(blocks, numbered=True, **layout) -> text      (an independent generator of STAR inputs)
"""
import re

_INT = re.compile(r"^[+-]?\d+$")
_NUM = re.compile(r"^[+-]?(?:\d+\.?\d*|\.\d+)(?:[eE][+-]?\d+)?$")


class StarError(Exception):
    pass


def is_int(tok):
    return bool(_INT.match(tok))


def is_numeric(tok):
    """Plain decimal integer / fixed / scientific literal.  (`nan`, `inf`, hex, `1_0` are not numeric here.)"""
    return bool(_NUM.match(tok))


def number(tok):
    """Value of a numeric token: python int for integer literals, float otherwise."""
    if is_int(tok):
        return int(tok)
    if is_numeric(tok):
        return float(tok)
    raise StarError(f"not a numeric token: {tok!r}")


def column_is_numeric(tokens):
    """A column is numeric iff it has at least one token and every token is a numeric literal."""
    tokens = list(tokens)
    return len(tokens) > 0 and all(is_numeric(t) for t in tokens)


def split_line(line):
    """-> (tokens, comment or None) of one physical line."""
    if line.endswith("\r"):
        line = line[:-1]
    k = line.find("#")
    if k >= 0:
        return line[:k].split(), line[k + 1:].strip()
    return line.split(), None


def parse(text):
    if isinstance(text, (bytes, bytearray)):
        text = bytes(text).decode("utf-8")
    blocks = []
    cur = None
    state = "top"  # top | block | labels | rows | pairs
    for lineno, raw in enumerate(text.split("\n"), 1):
        toks, comment = split_line(raw)
        if not toks:
            if comment is not None and cur is not None:
                cur["comments"].append(comment)
            continue
        t0 = toks[0]
        if t0.startswith("data_"):
            if len(toks) != 1:
                raise StarError(f"line {lineno}: tokens after the block name {t0!r}")
            cur = {"name": t0, "labels": [], "numbers": [], "rows": [], "loop": False, "comments": []}
            blocks.append(cur)
            state = "block"
        elif cur is None:
            raise StarError(f"line {lineno}: {t0!r} before any data_ block")
        elif t0 == "loop_":
            if state != "block" or len(toks) != 1:
                raise StarError(f"line {lineno}: unexpected loop_")
            cur["loop"] = True
            state = "labels"
        elif t0.startswith("_"):
            if state == "labels":
                if len(toks) != 1:
                    raise StarError(f"line {lineno}: tokens after the label {t0!r}")
                cur["labels"].append(t0[1:])
                cur["numbers"].append(int(comment) if comment is not None and comment.isdigit() else None)
            elif state in ("block", "pairs"):
                if len(toks) != 2:
                    raise StarError(f"line {lineno}: expected '_label value'")
                cur["labels"].append(t0[1:])
                cur["numbers"].append(None)
                if not cur["rows"]:
                    cur["rows"].append([])
                cur["rows"][0].append(toks[1])
                state = "pairs"
            else:
                raise StarError(f"line {lineno}: label {t0!r} after data rows")
        else:
            if state not in ("labels", "rows") or not cur["labels"]:
                raise StarError(f"line {lineno}: data {t0!r} outside a loop")
            cur["rows"].append(toks)
            state = "rows"
    return blocks


def columns(block):
    """Block -> list of (label, [tokens of that column]); demands rectangular rows."""
    k = len(block["labels"])
    for r in block["rows"]:
        if len(r) != k:
            raise StarError(f"block {block['name']}: row with {len(r)} tokens for {k} labels")
    return [(lab, [r[j] for r in block["rows"]]) for j, lab in enumerate(block["labels"])]


# ------------------------------------------------------------------------------------------------------------
# writer

DEFAULT_LAYOUT = {
    "pre": ("",),  # lines before the first block
    "name_gap": ("",),  # lines between the block name and loop_
    "suffix": " #",  # label numbering: "_label" + suffix + n   (only if numbered)
    "number_order": "ascending",  # "descending": the #n comments count down (they are comments, not column positions)
    "post_labels": (),  # lines between the labels and the first row
    "between": ("",),  # lines between two blocks
    "sep": "\t",  # token separator inside a row
    "row_lead": "",  # white space before the first token of a row
    "row_trail": "",  # white space after the last token of a row
    "kw_trail": "",  # white space after block names, loop_ and label lines
    "eol": "\n",
    "final_newline": True,
}


def build(blocks, numbered=True, **layout):
    """Text of a STAR file.

    blocks: list of dicts with "name", "labels", "rows" (token lists; tokens are written verbatim via str()).
            A block may override the numbering with its own "numbered" key.
    numbered: RELION style `_label #n` (True) or STOPGAP style `_label` (False).
    layout: see DEFAULT_LAYOUT; `pre`, `name_gap`, `post_labels`, `between` are sequences of complete lines
            ("" = blank line, "# text" = comment line).
    """
    lay = dict(DEFAULT_LAYOUT)
    unknown = set(layout) - set(lay)
    if unknown:
        raise StarError(f"unknown layout keys {sorted(unknown)}")
    lay.update(layout)
    lines = list(lay["pre"])
    for bi, b in enumerate(blocks):
        if bi:
            lines.extend(lay["between"])
        kw = lay["kw_trail"]
        lines.append(str(b["name"]) + kw)
        lines.extend(lay["name_gap"])
        lines.append("loop_" + kw)
        num = b.get("numbered", numbered)
        nlab = len(b["labels"])
        for j, lab in enumerate(b["labels"], 1):
            jj = (nlab + 1 - j) if lay.get("number_order") == "descending" else j
            lines.append((f"_{lab}{lay['suffix']}{jj}" if num else f"_{lab}") + kw)
        lines.extend(lay["post_labels"])
        for r in b["rows"]:
            lines.append(lay["row_lead"] + lay["sep"].join(str(t) for t in r) + lay["row_trail"])
    text = lay["eol"].join(lines)
    if lay["final_newline"]:
        text += lay["eol"]
    return text
