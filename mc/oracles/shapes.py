"""Analytic voxel membership of the mask solids (C13) - integer / rational arithmetic on numpy int64 only.

Never imports cryocat.  Everything is decided by an inequality between integers, so there is no rounding:

* sphere      : d2 <= r^2                    (radius may be a rational num/den:  den^2 * d2 <= num^2)
* cylinder    : planar d2 <= r^2  and  |k - cz| <= h // 2
* ellipsoid   : sum_a (i_a-c_a)^2 / r_a^2 <= 1   <=>   sum_a (i_a-c_a)^2 * prod_{b!=a} r_b^2 <= prod_a r_a^2
* shells      : outer solid and not inner solid (radii r +- t/2, compared in exact halves)

Voxel (i, j, k) of an array of shape (sx, sy, sz) is array[i, j, k]; the centre is given in the same index space.
"""
import re

import numpy as np


def _axes(shape, centre):
    sx, sy, sz = (int(s) for s in shape)
    cx, cy, cz = (int(c) for c in centre)
    i = np.arange(sx, dtype=np.int64).reshape(sx, 1, 1) - cx
    j = np.arange(sy, dtype=np.int64).reshape(1, sy, 1) - cy
    k = np.arange(sz, dtype=np.int64).reshape(1, 1, sz) - cz
    return i, j, k


def dist2(shape, centre):
    """Integer squared distance of every voxel from `centre`."""
    i, j, k = _axes(shape, centre)
    return i * i + j * j + k * k + np.zeros(tuple(int(s) for s in shape), dtype=np.int64)


def planar_dist2(shape, centre):
    i, j, k = _axes(shape, centre)
    return i * i + j * j + 0 * k


def axial_offset(shape, centre):
    i, j, k = _axes(shape, centre)
    return np.abs(k) + 0 * i + 0 * j


def sphere(shape, centre, num, den=1):
    """Voxels with distance <= num/den  (num < 0: empty)."""
    d2 = dist2(shape, centre)
    if num < 0:
        return np.zeros(d2.shape, dtype=bool)
    return (int(den) * int(den)) * d2 <= int(num) * int(num)


def sphere_surface(shape, centre, num, den=1):
    """Voxels exactly on the surface (the ones that decide `<=` against `<`)."""
    return (int(den) * int(den)) * dist2(shape, centre) == int(num) * int(num)


def cylinder(shape, centre, radius, height):
    """planar distance <= radius and |k - cz| <= floor(height / 2)."""
    p2 = planar_dist2(shape, centre)
    return (p2 <= int(radius) * int(radius)) & (axial_offset(shape, centre) <= int(height) // 2)


def ellipsoid_lhs_rhs(shape, centre, radii):
    rx, ry, rz = (int(r) for r in radii)
    i, j, k = _axes(shape, centre)
    a, b, c = rx * rx, ry * ry, rz * rz
    lhs = (i * i) * (b * c) + (j * j) * (a * c) + (k * k) * (a * b)
    return lhs + np.zeros(tuple(int(s) for s in shape), dtype=np.int64), a * b * c


def ellipsoid(shape, centre, radii):
    """sum ((i-c)/r)^2 <= 1 in exact integer arithmetic; radii must be positive integers."""
    if min(int(r) for r in radii) <= 0:
        raise ValueError("ellipsoid oracle needs positive radii")
    lhs, rhs = ellipsoid_lhs_rhs(shape, centre, radii)
    return lhs <= rhs


def ellipsoid_surface(shape, centre, radii):
    lhs, rhs = ellipsoid_lhs_rhs(shape, centre, radii)
    return lhs == rhs


def spherical_shell(shape, centre, radius, thickness):
    """Sphere of radius r + t/2 minus sphere of radius r - t/2 (exact halves); needs r - t/2 >= 0."""
    r, t = int(radius), int(thickness)
    if 2 * r - t < 0:
        raise ValueError("inner radius negative: not defined by the statement")
    return sphere(shape, centre, 2 * r + t, 2) & ~sphere(shape, centre, 2 * r - t, 2)


def ellipsoid_shell(shape, centre, radii, thickness):
    """Ellipsoid radii + t/2 minus ellipsoid radii - t/2; even t only, inner radii >= 1."""
    t = int(thickness)
    if t % 2:
        raise ValueError("odd thickness: the two solids are not defined by the statement")
    h = t // 2
    outer = [int(r) + h for r in radii]
    inner = [int(r) - h for r in radii]
    if min(inner) < 1:
        raise ValueError("inner radius < 1")
    return ellipsoid(shape, centre, outer) & ~ellipsoid(shape, centre, inner)


# ---------------------------------------------------------------------------------------------
# shape names (independent re-implementation of the documented grammar)

_NAME = [
    ("sphere", re.compile(r"sphere_r([0-9]+)\Z")),
    ("cylinder", re.compile(r"cylinder_r([0-9]+)_h([0-9]+)\Z")),
    ("s_shell", re.compile(r"s_shell_r([0-9]+)_s([0-9]+)\Z")),
    ("ellipsoid", re.compile(r"ellipsoid_rx([0-9]+)_ry([0-9]+)_rz([0-9]+)\Z")),
    ("e_shell", re.compile(r"e_shell_rx([0-9]+)_ry([0-9]+)_rz([0-9]+)_s([0-9]+)\Z")),
]


def parse_name(name):
    for kind, rx in _NAME:
        m = rx.match(name)
        if m:
            return kind, [int(g) for g in m.groups()]
    raise ValueError(name)


def make_name(kind, specs):
    s = list(specs)
    return {
        "sphere": "sphere_r{}",
        "cylinder": "cylinder_r{}_h{}",
        "s_shell": "s_shell_r{}_s{}",
        "ellipsoid": "ellipsoid_rx{}_ry{}_rz{}",
        "e_shell": "e_shell_rx{}_ry{}_rz{}_s{}",
    }[kind].format(*s)


def solid(kind, shape, centre, specs):
    """The hard solid named by (kind, specs) around `centre`."""
    if kind == "sphere":
        return sphere(shape, centre, specs[0])
    if kind == "cylinder":
        return cylinder(shape, centre, specs[0], specs[1])
    if kind == "s_shell":
        return spherical_shell(shape, centre, specs[0], specs[1])
    if kind == "ellipsoid":
        return ellipsoid(shape, centre, specs[0:3])
    if kind == "e_shell":
        return ellipsoid_shell(shape, centre, specs[0:3], specs[3])
    raise ValueError(kind)


# ---------------------------------------------------------------------------------------------
# set algebra: complete truth tables

_TABLE_SHAPES = {1: (1, 1, 1), 2: (2, 1, 1), 4: (1, 2, 2), 8: (2, 1, 4), 16: (4, 2, 2), 32: (2, 4, 4), 64: (4, 2, 8),
                 256: (4, 8, 8), 1024: (8, 16, 8)}


def table_shape(n):
    """A fixed non-cubic 3-D shape with exactly n voxels."""
    return _TABLE_SHAPES[n]


def truth_table(k):
    """k boolean volumes with 2^k voxels: voxel v of mask j holds bit j of v - every combination exactly once."""
    n = 1 << k
    v = np.arange(n, dtype=np.int64)
    return [(((v >> j) & 1) == 1).reshape(table_shape(n)) for j in range(k)]


def level_table(k, levels):
    """k volumes with len(levels)^k voxels holding every combination of `levels` exactly once (float64)."""
    L = len(levels)
    n = L ** k
    v = np.arange(n, dtype=np.int64)
    lv = np.asarray(levels, dtype=np.float64)
    return [lv[(v // (L ** j)) % L].reshape(table_shape(n)) for j in range(k)]


def expected_algebra(op, bools):
    """Voxel-wise truth of the four operations on a list of boolean volumes."""
    acc_or = np.zeros(bools[0].shape, dtype=bool)
    acc_and = np.ones(bools[0].shape, dtype=bool)
    for b in bools:
        acc_or = acc_or | b
        acc_and = acc_and & b
    if op == "union":
        return acc_or
    if op == "intersection":
        return acc_and
    if op == "subtraction":
        rest = np.zeros(bools[0].shape, dtype=bool)
        for b in bools[1:]:
            rest = rest | b
        return bools[0] & ~rest
    if op == "difference":
        # pairs: XOR; more than two: the documented union minus intersection (identical for pairs)
        return acc_or & ~acc_and
    raise ValueError(op)
