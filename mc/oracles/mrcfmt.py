"""Independent MRC2014 parser/writer – struct + numpy only.

Header 1024 bytes: int32 nx, ny, nz at 0/4/8, mode at 12 (0 int8, 1 int16, 2 float32, 6 uint16, 12 float16),
nsymbt (extended header bytes) at 92, map 'MAP ' at 208, machine stamp at 212 (0x44 0x44 / 0x44 0x41 little endian,
0x11 0x11 big endian).  Data after header + extended header, x fastest, then y, then z.
"""
import struct

import numpy as np

_MODES = {0: "i1", 1: "i2", 2: "f4", 6: "u2", 12: "f2"}
_REV = {v: k for k, v in _MODES.items()}


class MRCError(Exception):
    pass


def parse(path_or_bytes):
    b = path_or_bytes
    if not isinstance(b, (bytes, bytearray)):
        with open(b, "rb") as f:
            b = f.read()
    if len(b) < 1024:
        raise MRCError(f"file shorter than the 1024-byte header: {len(b)}")
    stamp = b[212:214]
    if stamp[0] == 0x44:
        bo = "<"
    elif stamp[0] == 0x11:
        bo = ">"
    else:
        raise MRCError(f"bad machine stamp {stamp!r}")
    if b[208:212] != b"MAP ":
        raise MRCError(f"missing 'MAP ' identifier: {b[208:212]!r}")
    nx, ny, nz, mode = struct.unpack(bo + "iiii", b[0:16])
    (nsymbt,) = struct.unpack(bo + "i", b[92:96])
    if mode not in _MODES:
        raise MRCError(f"unsupported mode {mode}")
    dt = np.dtype(bo + _MODES[mode])
    n = nx * ny * nz
    off = 1024 + nsymbt
    if len(b) - off != n * dt.itemsize:
        raise MRCError(f"payload {len(b) - off} bytes, header says {nx}x{ny}x{nz} mode {mode}")
    flat = np.frombuffer(b, dtype=dt, offset=off, count=n)
    data = flat.reshape((nz, ny, nx)).transpose(2, 1, 0)
    mx, my, mz = struct.unpack(bo + "iii", b[28:40])
    cella = struct.unpack(bo + "fff", b[40:52])
    (ispg,) = struct.unpack(bo + "i", b[88:92])
    return {"nx": nx, "ny": ny, "nz": nz, "mode": mode, "dtype": _MODES[mode], "nsymbt": nsymbt, "data": data,
            "flat": flat, "mxyz": (mx, my, mz), "cella": cella, "ispg": ispg}


def build(data_xyz, voxel=1.0, ispg=1):
    """Bytes of an MRC2014 file for data indexed [x, y, z].  ispg=1: volume (default); ispg=0: image stack (IMOD tilt series)."""
    a = np.asarray(data_xyz)
    if a.ndim != 3:
        raise MRCError("need 3-D data")
    kind = a.dtype.newbyteorder("=").str[1:]
    if kind not in _REV:
        raise MRCError(f"unsupported dtype {a.dtype}")
    nx, ny, nz = a.shape
    h = bytearray(1024)
    h[0:16] = struct.pack("<iiii", nx, ny, nz, _REV[kind])
    mz = 1 if ispg == 0 else nz  # image stacks: one section per "cell" along z
    h[28:40] = struct.pack("<iii", nx, ny, mz)
    h[40:52] = struct.pack("<fff", nx * voxel, ny * voxel, mz * voxel)
    h[52:64] = struct.pack("<fff", 90.0, 90.0, 90.0)
    h[64:76] = struct.pack("<iii", 1, 2, 3)
    af = a.astype("f8")
    h[76:88] = struct.pack("<fff", float(af.min()) if a.size else 0.0, float(af.max()) if a.size else 0.0, float(af.mean()) if a.size else 0.0)
    h[88:92] = struct.pack("<i", ispg)
    h[104:108] = b"\x00\x00\x00\x00"
    h[108:112] = struct.pack("<i", 20140)
    h[208:212] = b"MAP "
    h[212:216] = b"\x44\x44\x00\x00"
    h[216:220] = struct.pack("<f", float(af.std()) if a.size else 0.0)
    flat = np.ascontiguousarray(a.transpose(2, 1, 0)).astype("<" + kind).tobytes()
    return bytes(h) + flat


def write(path, data_xyz, voxel=1.0, ispg=1):
    with open(path, "wb") as f:
        f.write(build(data_xyz, voxel, ispg))
