"""Reference for C12 (numpy / math / fractions only): the integer frequency lattice of a real 3-D DFT, exact plane
waves, and the documented radial gains.  Never imports cryocat.

A real map of shape (N0, N1, N2) is spanned by the plane waves cos/sin(2*pi*sum_a k_a r_a / N_a) with integer
frequency k taken from one half of the lattice (k and -k give the same two waves).  The "integer frequency radius"
of the property is |k| with every component folded into [-(N_a//2), N_a//2]; all radius comparisons are done on
k2 = sum k_a^2 against rational thresholds, so there is no rounding in the classification of a frequency.
"""
import itertools
import math
from fractions import Fraction

import numpy as np


def fold(k, n):
    """Representative of k modulo n with the smallest absolute value (+n/2 for the Nyquist component)."""
    k = int(k) % int(n)
    return k - n if k > n // 2 else k


def k_squared(k, shape):
    return sum(fold(x, n) ** 2 for x, n in zip(k, shape))


def self_conjugate(k, shape):
    """k == -k modulo the box: only the cosine wave exists (the sine wave is identically zero)."""
    return all((2 * int(x)) % int(n) == 0 for x, n in zip(k, shape))


def half_space(shape):
    """One representative of every {k, -k} pair of the frequency lattice, simplest (smallest radius) first."""
    seen = set()
    out = []
    axes = [[fold(i, n) for i in range(n)] for n in shape]
    for k in itertools.product(*axes):
        neg = tuple(fold(-x, n) for x, n in zip(k, shape))
        if neg in seen:
            continue
        seen.add(k)
        out.append(k)
    out.sort(key=lambda k: (k_squared(k, shape), tuple(abs(x) for x in k), k))
    return out


def waves(shape):
    """Every basis wave (k, phase) of the real maps of this shape: len == N0*N1*N2."""
    out = []
    for k in half_space(shape):
        out.append((k, "cos"))
        if not self_conjugate(k, shape):
            out.append((k, "sin"))
    return out


def plane_wave(shape, k, phase, amplitude=1.0):
    """amplitude * cos|sin(2*pi*sum k_a r_a/N_a); the angle is reduced in exact integer arithmetic first."""
    L = 1
    for n in shape:
        L = L * n // math.gcd(L, n)
    idx = np.zeros(tuple(shape), dtype=np.int64)
    for a, (x, n) in enumerate(zip(k, shape)):
        sh = [1, 1, 1]
        sh[a] = n
        idx = idx + (np.arange(n, dtype=np.int64) * (int(x) * (L // n))).reshape(sh)
    idx %= L
    table = 2.0 * math.pi * np.arange(L, dtype=np.float64) / L
    tab = np.cos(table) if phase == "cos" else np.sin(table)
    return amplitude * tab[idx]


def gain_of(y, x):
    """Least-squares factor g with y ~ g*x, and the max-norm of the remainder."""
    xx = float(np.vdot(x, x).real)
    g = float(np.vdot(x, y).real) / xx
    return g, float(np.max(np.abs(y - g * x)))


def k2_grid(shape):
    """k2 of every DFT bin in numpy's fftn layout (int64)."""
    axes = [np.array([fold(i, n) for i in range(n)], dtype=np.int64) for n in shape]
    return (axes[0] ** 2).reshape(-1, 1, 1) + (axes[1] ** 2).reshape(1, -1, 1) + (axes[2] ** 2).reshape(1, 1, -1)


def hard_lowpass(k2, cutoff):
    """Documented gain without a soft edge: 1 up to the cutoff radius (inclusive), 0 beyond."""
    return (np.asarray(k2) <= int(cutoff) ** 2).astype(np.float64)


def plateau(k2, cutoff, sigma):
    """(inside, outside) boolean classification for a Gaussian edge: |k| <= cutoff-4s-1 / |k| >= cutoff+4s+1."""
    k2 = np.asarray(k2)
    s = Fraction(sigma).limit_denominator(1000)
    inner = Fraction(int(cutoff)) - 4 * s - 1
    outer = Fraction(int(cutoff)) + 4 * s + 1
    if inner >= 0:
        inside = k2 * inner.denominator ** 2 <= inner.numerator ** 2
    else:
        inside = np.zeros(k2.shape, dtype=bool)
    outside = k2 * outer.denominator ** 2 >= outer.numerator ** 2
    return inside, outside


def directions():
    """The 13 lattice directions (26 rays modulo sign) with components in {-1, 0, 1}."""
    out = []
    for d in itertools.product((0, 1, -1), repeat=3):
        if d == (0, 0, 0) or tuple(-x for x in d) in out:
            continue
        out.append(d)
    return out


def ray(shape, d):
    """Frequencies m*d, m = 0, 1, ... as long as every component stays within the Nyquist limit of its axis."""
    lim = min((n // 2) // abs(x) for x, n in zip(d, shape) if x)
    return [tuple(m * x for x in d) for m in range(lim + 1)]


def bin_index(k, shape):
    return tuple(int(x) % int(n) for x, n in zip(k, shape))


def expected_pixels(edge, pixel_size, resolution, tie_margin=1e-6):
    """round(edge*pixel_size/resolution) decided in exact rational arithmetic; None if within tie_margin of a tie."""
    v = Fraction(int(edge)) * Fraction(pixel_size) / Fraction(resolution)
    f = v - math.floor(v)
    if abs(f - Fraction(1, 2)) <= Fraction(tie_margin):
        return None
    return int(math.floor(v + Fraction(1, 2)))
