"""Reference code for score-ranked distance suppression (C07) – plain Python/numpy, no cryocat.

The property pins the result only through two predicates (survivors separated, every removed point dominated
by a survivor within the radius).  For DISTINCT scores and no distance equal to the radius these two predicates
have exactly one solution – the greedy one – because by induction over the score order a point must be dropped
iff a better survivor lies within the radius.  `greedy` computes it; `separated` / `dominated` evaluate the
predicates literally.
"""
import itertools
import math


def dist(a, b):
    return math.sqrt(sum((float(x) - float(y)) ** 2 for x, y in zip(a, b)))


def pair_distances(points):
    """[(i, j, d)] for all i < j."""
    return [(i, j, dist(points[i], points[j])) for i, j in itertools.combinations(range(len(points)), 2)]


def min_margin(points, radii, points_b=None):
    """Smallest | d(p, q) - r | over all pairs and all radii (brute force): the tie-exclusion proof.
    With points_b: pairs (p in points, q in points_b), including equal indices."""
    best = math.inf
    if points_b is None:
        ds = [d for (_i, _j, d) in pair_distances(points)]
    else:
        ds = [dist(p, q) for p in points for q in points_b]
    for d in ds:
        for r in radii:
            best = min(best, abs(d - r))
    return best


def better_or_equal(a, b, greater=True):
    return a >= b if greater else a <= b


def separated(points, kept, radius, inclusive=False):
    """Pairs of kept points that are too close: d < radius (inclusive=False) or d <= radius (inclusive=True)."""
    bad = []
    for i, j in itertools.combinations(sorted(kept), 2):
        d = dist(points[i], points[j])
        if d < radius or (inclusive and d <= radius):
            bad.append((i, j, d))
    return bad


def undominated(points, scores, kept, candidates, radius, greater=True):
    """Members of `candidates` that have NO kept point within `radius` whose score is equal or better."""
    bad = []
    for r in candidates:
        ok = False
        for k in kept:
            if k == r:
                ok = True
                break
            if dist(points[r], points[k]) <= radius and better_or_equal(scores[k], scores[r], greater):
                ok = True
                break
        if not ok:
            bad.append(r)
    return bad


def greedy(points, scores, members, radius, greater=True):
    """The unique separated + dominating subset of `members` for distinct scores (None if scores tie)."""
    vals = [scores[m] for m in members]
    if len(set(vals)) != len(vals):
        return None
    order = sorted(members, key=lambda m: scores[m], reverse=greater)
    kept = []
    for m in order:
        if all(dist(points[m], points[k]) > radius for k in kept):
            kept.append(m)
    return set(kept)
