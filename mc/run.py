"""./check <ID> quick|thorough   |   ./check <ID> --replay <file>

Exit 0: the property held on everything explored (known findings are printed as KNOWN-FINDING lines).
Exit 1: at least one violation that known_findings.json does not list; `VIOLATION property=<id> replay=<path>`.
Exit 2: harness error (import problem, cardinality mismatch, non-determinism, vacuous exploration).
"""
import collections
import hashlib
import importlib
import json
import os
import subprocess
import sys
import time

VERIF = os.path.dirname(os.path.dirname(os.path.abspath(__file__)))


def _import_cryocat():
    from . import engine

    import cryocat

    path = os.path.realpath(os.path.dirname(cryocat.__file__))
    if not path.startswith(engine.REPO + os.sep):
        raise engine.HarnessError(f"cryocat imported from {path}, expected under {engine.REPO}")
    return path


def load_findings(pid):
    p = os.path.join(VERIF, "known_findings.json")
    if not os.path.exists(p):
        return []
    with open(p) as f:
        data = json.load(f)
    return [e for e in data.get("findings", []) if e.get("property") == pid and e.get("status") == "open"]


def match_finding(findings, v):
    for f in findings:
        m = f["match"]
        if m.get("site") is not None and m["site"] != v["site"]:
            continue
        if m.get("clause") is not None and m["clause"] != v["clause"]:
            continue
        if m.get("cls") is not None and m["cls"] != v["cls"]:
            continue
        if m.get("family") is not None and m["family"] != v.get("family"):
            continue
        return f
    return None


def write_replay(pid, tier, seed, v):
    os.makedirs(os.path.join(VERIF, "replays"), exist_ok=True)
    body = {
        "property": pid,
        "tier": tier,
        "seed": seed,
        "family": v.get("family"),
        "index": v.get("index"),
        "chunk_start": v.get("chunk_start"),
        "prev_chunks": v.get("prev_chunks"),
        "first_chunk": v.get("first_chunk"),
        "history": v.get("history"),
        "case": v.get("case"),
        "violation": {k: v[k] for k in ("site", "clause", "cls", "detail")},
    }
    hsh = hashlib.blake2b(json.dumps([pid, v.get("family"), v["site"], v["clause"], v["cls"]], sort_keys=True).encode(), digest_size=5).hexdigest()
    path = os.path.join(VERIF, "replays", f"{pid}-{hsh}.json")
    with open(path, "w") as f:
        json.dump(body, f, indent=1, default=str)
    return path


def _replay_plans(body):
    prev = body.get("prev_chunks") or []
    first = body.get("first_chunk")
    plans = [prev[len(prev) - d:] for d in range(0, len(prev) + 1)]
    if first is not None:
        plans += [[first] + [c for c in pl if c != first] for pl in plans]
    return plans


def replay(pid, path, plan=None):
    from . import engine

    with open(path) as f:
        body = json.load(f)
    _import_cryocat()
    mod = importlib.import_module(f"mc.props.{pid}")
    fams = mod.families(body["tier"], body["seed"])
    fam = {f.name: f for f in fams}.get(body["family"])
    if fam is None:
        print(f"replay: family {body['family']} not found")
        return 2
    engine._FAMS = fams
    engine._SEED = body["seed"]
    engine._worker_init()
    want = body["violation"]
    if plan is not None:
        chunks = _replay_plans(body)[plan]
        for pfi, pstart, pstop in chunks:
            pf = fams[pfi]
            if pf.kind == "bfs":
                continue
            for i in range(pstart, pstop):
                pf.run_index(i, body["seed"])
        last = None
        for i in range(min(body["chunk_start"], body["index"]), body["index"] + 1):
            _case, last = fam.run_index(i, body["seed"])
        for v in last.violations:
            if (v["site"], v["clause"], v["cls"]) == (want["site"], want["clause"], want["cls"]):
                print(f"  reproduced only after the calls that preceded it in its worker process (chunks {chunks} + indices "
                      f"{body['chunk_start']}..{body['index']}): the library carries state between calls")
                print("PLAN-REPRODUCED")
                return 1
        return 0
    if want["clause"] == "repeated-call-differs":
        if fam.kind == "bfs":
            differs = fam.replay_repeat(body["history"])
        else:
            case, o1 = fam.run_index(body["index"], body["seed"])
            _, o2 = fam.run_index(body["index"], body["seed"])
            print("case:", json.dumps(fam.describe(case), default=str)[:2000])
            print("first :", repr(o1.outcome)[:400])
            print("second:", repr(o2.outcome)[:400])
            differs = engine.h64(o1.outcome) != engine.h64(o2.outcome) or sorted(
                (v["site"], v["clause"]) for v in o1.violations) != sorted((v["site"], v["clause"]) for v in o2.violations)
        if differs:
            print(f"REPLAY-REPRODUCED property={pid} replay={path}")
            return 1
        print(f"REPLAY-NOT-REPRODUCED property={pid}")
        return 0
    if fam.kind == "bfs":
        obs_list = fam.replay(body["history"])
        viol = [v for o in obs_list for v in o.violations]
    else:
        case, obs = fam.run_index(body["index"], body["seed"])
        print("case:", json.dumps(fam.describe(case), default=str)[:2000])
        viol = obs.violations
    hit = False
    for v in viol:
        print(f"  violation site={v['site']} clause={v['clause']} cls={v['cls']} :: {v['detail'][:400]}")
        if (v["site"], v["clause"], v["cls"]) == (want["site"], want["clause"], want["cls"]):
            hit = True
    if hit:
        print(f"REPLAY-REPRODUCED property={pid} replay={path}")
        return 1
    # The single case is clean in a fresh process.  If the library carries state from earlier calls, the failure needs
    # its predecessors: re-execute, each time in a FRESH process, the worker's chunk prefix alone, then with 1..3 of
    # the chunks the same worker ran just before, then additionally with the very first chunk that worker ever ran
    # (a cache filled on first use).
    cs = body.get("chunk_start")
    if fam.kind != "bfs" and cs is not None and body.get("index") is not None and plan is None:
        for k in range(len(_replay_plans(body))):
            rc = subprocess.run([sys.executable, "-W", "ignore", "-m", "mc.run", pid, "--replay", path, "--plan", str(k)], cwd=VERIF, capture_output=True, text=True)
            if rc.returncode == 1:
                print(rc.stdout.strip().splitlines()[-2] if len(rc.stdout.strip().splitlines()) >= 2 else "")
                print(f"REPLAY-REPRODUCED property={pid} replay={path}")
                return 1
    print(f"REPLAY-NOT-REPRODUCED property={pid} ({len(viol)} other violations)")
    return 0


def main(argv):
    if len(argv) < 2:
        print(__doc__)
        return 2
    pid = argv[0]
    if argv[1] == "--replay":
        plan = int(argv[4]) if len(argv) > 4 and argv[3] == "--plan" else None
        return replay(pid, argv[2], plan)
    tier = argv[1]
    if tier not in ("quick", "thorough"):
        print(__doc__)
        return 2
    seed = int(os.environ.get("VERIF_SEED", "0"))
    t0 = time.time()
    from . import engine, bfs, evidence

    try:
        cpath = _import_cryocat()
        mod = importlib.import_module(f"mc.props.{pid}")
        fams = mod.families(tier, seed)
        budget = float(os.environ.get("VERIF_BUDGET_S", getattr(mod, "BUDGET_S", {}).get(tier, 600 if tier == "quick" else 3600)))
        deadline = t0 + budget
        results = []
        pool = engine.make_pool(fams, seed)
        for fi, fam in enumerate(fams):
            if fam.kind == "bfs":
                fr = bfs.explore_bfs(pool, fi, fam, deadline)
            else:
                fr = engine.explore_family(pool, fi, fam, deadline)
            results.append((fam, fr))
            print(f"[{pid}] {fam.name}: {fr.n}/{fr.size} cases, {fr.transitions} transitions, "
                  f"{len(fr.outcomes) if fr.states is None else fr.states} states/outcomes, "
                  f"{fr.n_viol_cases} violating, {fr.wall_s:.1f}s" + (" CAPPED" if fr.capped else ""), flush=True)
            if fr.capped and pool is not None:
                pool.terminate()
                pool = engine.make_pool(fams, seed)
        if pool is not None:
            pool.close()
            pool.terminate()
    except engine.HarnessError as e:
        print(f"HARNESS-ERROR property={pid}: {e}")
        return 2

    # ---- classify violations -----------------------------------------------------------------
    findings = load_findings(pid)
    known_hits = collections.OrderedDict()
    unknown = collections.OrderedDict()
    n_unknown_sig = 0
    for fam, fr in results:
        seen_sigs = set()
        for v in fr.violations:
            sig = (v["family"], v["site"], v["clause"], v["cls"])
            f = match_finding(findings, v)
            if f is not None:
                known_hits.setdefault(f["id"], [f, 0])
                continue
            if sig not in unknown:
                unknown[sig] = v
        for (site, clause, cls), cnt in fr.sigs.items():
            v = {"site": site, "clause": clause, "cls": cls, "family": fam.name}
            f = match_finding(findings, v)
            if f is not None:
                known_hits.setdefault(f["id"], [f, 0])
                known_hits[f["id"]][1] += cnt
            else:
                n_unknown_sig += cnt
                if (fam.name, site, clause, cls) not in unknown:
                    # signature seen by a worker but its example was dropped by a cap: still a violation
                    unknown[(fam.name, site, clause, cls)] = dict(v, detail="(example dropped by per-chunk cap)", index=None)

    # ---- vacuity guards ----------------------------------------------------------------------
    vac = []
    for fam, fr in results:
        if fr.capped:
            continue
        for c in fam.expect:
            if fr.fired.get(c, 0) == 0:
                vac.append(f"{fam.name}: oracle clause '{c}' never fired")
        nout = len(fr.outcomes) if fr.states is None else fr.states
        if nout < fam.min_outcomes and fr.n >= fam.min_outcomes:
            vac.append(f"{fam.name}: only {nout} distinct outcome(s) from {fr.n} executions")

    anchor_rep = {}
    if os.environ.get("VERIF_NO_ANCHORS") != "1":
        try:
            from . import anchors

            engine._worker_init()
            anchor_rep = anchors.probe(pid, fams, seed, engine.REPO)
            engine._clean_tmp()
        except Exception as e:  # noqa: BLE001
            anchor_rep = {"error": repr(e)}
    mod.ANCHOR_REPORT = anchor_rep
    wall = time.time() - t0
    ev_path = evidence.write(pid, tier, seed, results, known_hits, unknown, vac, wall, mod, cpath)

    for fid, (f, cnt) in known_hits.items():
        print(f"KNOWN-FINDING: property={pid} {f['what']} [{fid}; {cnt} occurrences in this run]")
    if vac and not unknown:
        for m in vac:
            print(f"HARNESS-ERROR property={pid}: vacuous: {m}")
        return 2
    if unknown:
        confirmed = 0
        items = list(unknown.items())
        # a call-history dependence explains (and invalidates single-case replays of) everything else: try it first
        items.sort(key=lambda kv: 0 if kv[0][2] == "repeated-call-differs" else 1)
        history_dependent = False
        for sig, v in items[:8]:
            path = write_replay(pid, tier, seed, v)
            ok = True
            if os.environ.get("VERIF_NO_CONFIRM") != "1" and (v.get("index") is not None or v.get("history")):
                # reproduce in a fresh process before trusting the failure
                rc = subprocess.run([sys.executable, "-W", "ignore", "-m", "mc.run", pid, "--replay", path], cwd=VERIF, capture_output=True, text=True)
                ok = rc.returncode == 1
            if ok and sig[2] == "repeated-call-differs":
                history_dependent = True
            if not ok and history_dependent:
                # the library carries state between calls (confirmed above): a single-case replay in a fresh process
                # cannot reproduce a failure that needs the preceding calls; the violation was observed in the run
                ok = True
            print(f"  site={v['site']} clause={v['clause']} cls={v['cls']} family={v.get('family')} :: {v.get('detail','')[:300]}")
            if ok:
                confirmed += 1
                print(f"VIOLATION property={pid} replay={path}")
            else:
                print(f"  (not reproduced in a fresh process: {path})")
        print(f"[{pid}] {len(unknown)} distinct unlisted violation signatures, {n_unknown_sig} violation records; evidence {ev_path}")
        if confirmed == 0:
            print(f"HARNESS-ERROR property={pid}: no violation reproduced in a fresh process")
            return 2
        return 1
    print(f"[{pid}] OK tier={tier} seed={seed} wall={wall:.1f}s evidence={ev_path}")
    return 0


if __name__ == "__main__":
    sys.exit(main(sys.argv[1:]))
