"""Evidence writer: what a run actually covered (schema: /root/.vp/EVIDENCE.schema.json)."""
import json
import os

VERIF = os.path.dirname(os.path.dirname(os.path.abspath(__file__)))


def write(pid, tier, seed, results, known_hits, unknown, vac, wall, mod, cpath):
    fams = []
    evaluations = transitions = states = nontrivial = traces = 0
    samples = []
    exhaustive = True
    caps = []
    for fam, fr in results:
        s = fr.summary()
        fams.append(s)
        evaluations += fr.n
        transitions += fr.transitions
        states += len(fr.outcomes) if fr.states is None else fr.states
        nontrivial += len(fr.nontrivial)
        # every executed trace is compared step by step with the oracle on the implementation itself
        traces += fr.n
        samples.extend(fr.samples[:2])
        if not s["exhaustive"]:
            exhaustive = False
            caps.append(s.get("cap", fam.name))
    if not samples:
        samples = [{"note": "no non-trivial sample recorded"}]
    coverage = {
        "states": states,
        "transitions": transitions,
        "traces_validated_against_impl": traces,
        "samples": samples[:8],
        "evaluations": evaluations,
        "distinct_nontrivial": nontrivial,
        "rule": getattr(mod, "RULE", ""),
        "exhaustive": exhaustive,
        "bounds": getattr(mod, "BOUNDS", {}).get(tier, ""),
        "caps_hit": caps,
        "families": fams,
        "explanation": (
            "states = distinct canonical implementation outcomes/states observed; transitions = real cryoCAT calls "
            "executed and compared with the reference model; every trace is executed on the implementation itself, "
            "so traces_validated_against_impl equals the number of executed cases."
        ),
        "code_under_test": cpath,
        "known_findings_hit": {fid: cnt for fid, (f, cnt) in known_hits.items()},
        "vacuity_failures": vac,
        "anchor_lines_hit": getattr(mod, "ANCHOR_REPORT", {}),
        "unlisted_violation_signatures": [list(map(str, k)) for k in list(unknown.keys())[:20]],
    }
    ev = {
        "property_id": pid,
        "tier": tier,
        "seed": seed,
        "level": "model_checking",
        "coverage": coverage,
        "assumptions": list(getattr(mod, "ASSUMPTIONS", [])),
        "wall_s": round(wall, 2),
        "violations": len(unknown),
    }
    from . import engine

    # evidence/ always describes /repo itself; runs against a scratch copy (VERIF_REPO) go to evidence_alt/
    sub = "evidence" if engine.REPO == "/repo" else "evidence_alt"
    os.makedirs(os.path.join(VERIF, sub), exist_ok=True)
    path = os.path.join(VERIF, sub, f"{pid}.json")
    tmp = path + ".tmp"
    with open(tmp, "w") as f:
        json.dump(ev, f, indent=1, default=str)
    os.replace(tmp, path)
    return path
