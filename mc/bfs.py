"""Explicit-state breadth-first search over the REAL implementation (history mode).

A state is a picklable Python object holding the live cryoCAT object(s) and the reference-model
state.  A transition calls one real method with one argument tuple from the alphabet, applies
the same step to the model and compares.  States are de-duplicated by a canonical key of the
implementation's complete observable state (over-fine rather than coarse), level by level,
until the frontier is empty (fixpoint) or the depth bound is reached.
"""
import collections
import pickle
import time

import numpy as np

from . import engine
from .engine import Family, FamilyResult, HarnessError, Obs, h64, jsonable


class BFSSpec:
    """Interface a history property implements."""

    def initial(self):  # -> list of (label, state)
        raise NotImplementedError

    def ops(self, state):  # -> list of jsonable op descriptors enabled in `state`
        raise NotImplementedError

    def step(self, state, op, obs):  # -> successor state (or None if the op yields no state)
        raise NotImplementedError

    def key(self, state):  # -> bytes/str canonical key of the implementation state
        raise NotImplementedError

    def mkey(self, state):  # -> canonical key of the model state
        return None

    def invariant(self, state, obs):  # evaluated in every reached state
        pass


class BFSFamily(Family):
    kind = "bfs"

    def __init__(self, name, spec, max_depth, expect=(), note="", min_outcomes=2, budget_s=None):
        self.name = name
        self.spec = spec
        self.max_depth = max_depth
        self.expect = tuple(expect)
        self.note = note
        self.min_outcomes = min_outcomes
        self.budget_s = budget_s
        self.space = None

    def __len__(self):
        return 0

    # -- replay of one history without the explorer -------------------------------------------
    def replay_repeat(self, history):
        """Apply the last op of `history` twice to (copies of) the same pre-state; do the results differ?"""
        label = history[0]
        ops = [_thaw(o) for o in history[1:]]
        state = dict(self.spec.initial())[label]
        for op in ops[:-1]:
            state = self.spec.step(pickle.loads(pickle.dumps(state)), op, Obs())
        blob = pickle.dumps(state)
        k1 = self.spec.key(self.spec.step(pickle.loads(blob), ops[-1], Obs()))
        k2 = self.spec.key(self.spec.step(pickle.loads(blob), ops[-1], Obs()))
        return k1 != k2

    def replay(self, history):
        label = history[0]
        ops = history[1:]
        state = dict(self.spec.initial())[label]
        obs_all = []
        for op in ops:
            op = _thaw(op)
            obs = Obs()
            try:
                state = self.spec.step(pickle.loads(pickle.dumps(state)), op, obs)
                if state is not None:
                    self.spec.invariant(state, obs)
            except engine.LibError as le:
                e = le.exc
                obs.fail(le.site, f"exception:{type(e).__name__}", str(e), cls=engine._exc_site(e) or "")
                state = None
            obs_all.append(obs)
            if state is None:
                break
        return obs_all


def _thaw(op):
    """JSON round trip turns tuples into lists; ops are compared structurally as tuples."""
    if isinstance(op, list):
        return tuple(_thaw(o) for o in op)
    return op


_SPEC = None


def _expand_chunk(task):
    """Expand a chunk of frontier states: apply every enabled op to (a fresh copy of) each."""
    fi, items = task
    fam = engine._FAMS[fi]
    spec = fam.spec
    out = {
        "succ": [],
        "transitions": 0,
        "calls": 0,
        "fired": collections.Counter(),
        "violations": [],
        "sigs": collections.Counter(),
        "n_viol": 0,
        "nontrivial": set(),
        "mkeys": set(),
        "nondet": None,
    }
    local_seen = set()
    for pk, blob in items:
        state0 = pickle.loads(blob)
        for oi, op in enumerate(spec.ops(state0)):
            np.random.seed(h64((engine._SEED, pk, repr(op))) & 0x7FFFFFFF)
            state = pickle.loads(blob)
            obs = Obs()
            nxt = None
            try:
                nxt = spec.step(state, op, obs)
                if nxt is not None:
                    spec.invariant(nxt, obs)
            except HarnessError:
                raise
            except engine.LibError as le:
                e = le.exc
                inner = engine._exc_site(e)
                obs.fail(le.site, f"exception:{type(e).__name__}", f"{inner}: {e}", cls=inner or "")
                nxt = None
            except Exception as e:  # noqa: BLE001
                import traceback

                inner = engine._exc_site(e)
                obs.fail(inner or "harness", f"exception:{type(e).__name__}", f"{e} | {traceback.format_exc(limit=-4)}", cls="oracle-path")
                nxt = None
            out["transitions"] += 1
            out["calls"] += obs.transitions
            for c in obs.fired:
                out["fired"][c] += 1
            if obs.nontrivial:
                out["nontrivial"].add(h64((pk, repr(op))))
            if obs.violations:
                out["n_viol"] += 1
                for v in obs.violations:
                    sig = (v["site"], v["clause"], v["cls"])
                    out["sigs"][sig] += 1
                    if out["sigs"][sig] <= 2 and len(out["violations"]) < engine.MAX_VIOL_PER_CHUNK:
                        out["violations"].append(dict(v, family=fam.name, parent=pk, op=jsonable(op)))
            if nxt is None or obs.violations:
                continue  # error states are reported, not expanded (their futures would only repeat the defect)
            k = h64(spec.key(nxt))
            mk = spec.mkey(nxt)
            if mk is not None:
                out["mkeys"].add(h64(mk))
            # determinism self-check: re-run a fixed slice of transitions and compare keys
            if (h64((pk, oi)) % 97) == 0:
                obs2 = Obs()
                try:
                    n2 = spec.step(pickle.loads(blob), op, obs2)
                    k2 = h64(spec.key(n2)) if n2 is not None else None
                except Exception:  # noqa: BLE001
                    k2 = None
                if k2 != k:
                    # see engine._run_chunk: decided by the fresh-process replay (exit 2 if it does not reproduce)
                    v = {"site": fam.name, "clause": "repeated-call-differs", "cls": "", "detail": f"op {op!r} applied twice to the same state gave two different states"}
                    sig = (v["site"], v["clause"], v["cls"])
                    out["sigs"][sig] += 1
                    out["n_viol"] += 1
                    if out["sigs"][sig] <= 2:
                        out["violations"].append(dict(v, family=fam.name, parent=pk, op=jsonable(op)))
            if k in local_seen:
                out["succ"].append((k, None, pk, op))
                continue
            local_seen.add(k)
            out["succ"].append((k, pickle.dumps(nxt, protocol=pickle.HIGHEST_PROTOCOL), pk, op))
    engine._clean_tmp()
    return out


def explore_bfs(pool, fi, fam, deadline):
    spec = fam.spec
    fr = FamilyResult(fam)
    t0 = time.time()
    fam_deadline = deadline if fam.budget_s is None else min(deadline, t0 + fam.budget_s)
    seen = {}  # key -> (parent key, op)  (for path reconstruction)
    mkeys = set()
    frontier = []
    obs0 = Obs()
    for label, st in spec.initial():
        spec.invariant(st, obs0)
        k = h64(spec.key(st))
        if k in seen:
            continue
        seen[k] = (None, label)
        mk = spec.mkey(st)
        if mk is not None:
            mkeys.add(h64(mk))
        frontier.append((k, pickle.dumps(st, protocol=pickle.HIGHEST_PROTOCOL)))
    if obs0.violations:
        for v in obs0.violations:
            fr.violations.append(dict(v, family=fam.name, history=["<initial>"]))
            fr.sigs[(v["site"], v["clause"], v["cls"])] += 1
        fr.n_viol_cases += 1
    depth = 0
    per_level = [len(frontier)]
    fixpoint = False
    raw_viol = []
    while frontier and depth < fam.max_depth:
        depth += 1
        chunk = max(1, min(64, len(frontier) // (engine.NPROC * 4) or 1))
        tasks = [(fi, frontier[s : s + chunk]) for s in range(0, len(frontier), chunk)]
        it = pool.imap(_expand_chunk, tasks) if pool is not None else map(_expand_chunk, tasks)
        nxt_frontier = []
        for r in it:
            fr.n += r["transitions"]
            fr.transitions += r["transitions"]
            fr.extra["library_calls"] = fr.extra.get("library_calls", 0) + r["calls"]
            fr.fired.update(r["fired"])
            fr.n_viol_cases += r["n_viol"]
            fr.sigs.update(r["sigs"])
            fr.nontrivial |= r["nontrivial"]
            mkeys |= r["mkeys"]
            if r["nondet"] is not None:
                raise HarnessError(f"non-deterministic transition: {r['nondet']}")
            if len(raw_viol) < 200:
                raw_viol.extend(r["violations"])
            for k, blob, pk, op in r["succ"]:
                if k in seen:
                    continue
                if blob is None:
                    continue  # duplicate inside the chunk; its first occurrence carries the blob
                seen[k] = (pk, op)
                nxt_frontier.append((k, blob))
            if time.time() > fam_deadline:
                fr.capped = True
                break
        if fr.capped:
            break
        frontier = nxt_frontier
        per_level.append(len(frontier))
        if not frontier:
            fixpoint = True

    def history_of(k):
        path = []
        while k is not None:
            pk, op = seen[k]
            path.append(op)
            k = pk
        return list(reversed(path))

    for v in raw_viol:
        pk = v.pop("parent")
        op = v.pop("op")
        v["history"] = jsonable(history_of(pk)) + [op]
        v["case"] = {"history": v["history"]}
        fr.violations.append(v)
    # samples: a few of the longest histories reached
    ks = list(seen.keys())
    for k in ks[-3:]:
        fr.samples.append({"family": fam.name, "history": jsonable(history_of(k))})
    fr.states = len(seen)
    fr.model_states = len(mkeys)
    fr.size = fr.n
    fr.extra.update(
        {
            "bfs_depth_reached": depth,
            "bfs_fixpoint": fixpoint,
            "bfs_states_per_level": per_level,
            "distinct_model_states": len(mkeys),
            "max_depth_bound": fam.max_depth,
        }
    )
    if fr.capped:
        fr.covered_prefix = depth - 1
        fr.extra["cap_note"] = f"time budget hit inside level {depth}; levels < {depth} fully expanded"
    fr.wall_s = time.time() - t0
    return fr
