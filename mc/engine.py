"""Bounded-exhaustive exploration driver (small-scope mode) and shared plumbing.

A property module provides `families(tier, seed)`; every Family is a finite indexable space
plus an `execute(case) -> Obs` function that drives the REAL cryoCAT code on that case and
judges it with an independent oracle.  The driver enumerates every index of every family
(sharded over forked worker processes), never samples, and reports exactly what it covered.
"""
import collections
import hashlib
import json
import multiprocessing
import os
import sys
import tempfile
import time
import traceback

import numpy as np

NPROC = int(os.environ.get("VERIF_NPROC", "16"))
REPO = os.path.realpath(os.environ.get("VERIF_REPO", "/repo"))
MAX_VIOL_PER_CHUNK = 20


class HarnessError(Exception):
    """Infrastructure failure: never reported as a pass, never as a VIOLATION (exit 2)."""


class LibError(Exception):
    """The library raised on an input inside the quantifier's domain."""

    def __init__(self, site, exc):
        super().__init__(f"{site}: {type(exc).__name__}: {exc}")
        self.site = site
        self.exc = exc


def h64(x):
    if not isinstance(x, bytes):
        x = repr(x).encode()
    return int.from_bytes(hashlib.blake2b(x, digest_size=8).digest(), "big")


def jsonable(x):
    if isinstance(x, (str, int, bool)) or x is None:
        return x
    if isinstance(x, float):
        if x != x:
            return "NaN"
        if x in (float("inf"), float("-inf")):
            return repr(x)
        return x
    if isinstance(x, (np.integer,)):
        return int(x)
    if isinstance(x, (np.floating,)):
        return jsonable(float(x))
    if isinstance(x, np.ndarray):
        return jsonable(x.tolist())
    if isinstance(x, (list, tuple)):
        return [jsonable(v) for v in x]
    if isinstance(x, (set, frozenset)):
        return sorted(jsonable(v) for v in x)
    if isinstance(x, dict):
        return {str(k): jsonable(v) for k, v in x.items()}
    return repr(x)


ARG_SNAPSHOT = os.environ.get("VERIF_NO_ARG_SNAPSHOT") != "1"
FORCE_LAYOUT = None  # None | "F" | "view": memory layout forced on every >= 2-D array argument handed to the library


def _relayout(x):
    """Same values, other memory layout: Fortran order (what cryomap.read returns) or a strided, non-contiguous view."""
    if isinstance(x, np.ndarray) and x.ndim >= 2 and x.size > 0 and x.dtype != object:
        if FORCE_LAYOUT == "F":
            return np.asfortranarray(x)
        if FORCE_LAYOUT == "view":
            big = np.zeros(tuple(2 * d for d in x.shape), dtype=x.dtype)
            sl = tuple(slice(None, None, 2) for _ in x.shape)
            big[sl] = x
            return big[sl]
    return x


class force_layout:
    def __init__(self, layout):
        self.layout = layout

    def __enter__(self):
        global FORCE_LAYOUT
        self.old = FORCE_LAYOUT
        FORCE_LAYOUT = self.layout

    def __exit__(self, *a):
        global FORCE_LAYOUT
        FORCE_LAYOUT = self.old
        return False


def with_array_layouts(fam, select=None, layouts=("F", "view"), name=None, expect=()):
    """A second family over (a selection of) the cases of `fam` in which every >= 2-D array argument reaches the library
    Fortran-ordered or as a strided view (same values).  The oracle of the family is unchanged."""
    from .space import Listed, Product

    base = fam.space if select is None else Listed([c for c in fam.space if select(c)])
    execute = fam.execute

    def ex(case, obs):
        with force_layout(case[1]):
            return execute(case[0], obs)

    return Family(name or fam.name + "@array-layout", Product(base, list(layouts)), ex, expect=expect,
                  describe=lambda c: {"case": fam.describe(c[0]), "array_layout": c[1]})
_SNAP_MAX = 200000


def _snap_value(x):
    try:
        import pandas as pd
    except Exception:  # noqa: BLE001
        pd = None
    if isinstance(x, np.ndarray):
        if x.size > _SNAP_MAX or x.dtype == object:
            return None
        return (x.shape, x.dtype.str, x.tobytes())
    if pd is not None and isinstance(x, pd.DataFrame):
        if x.size > _SNAP_MAX:
            return None
        try:
            return (x.shape, x.to_numpy(dtype=float).tobytes())
        except (TypeError, ValueError):
            return (x.shape, repr(x.to_numpy().tolist()))
    return None


def _snapshot_args(a, k):
    out = []
    items = [(f"#{i}", v) for i, v in enumerate(a)] + [(f"{key}=", v) for key, v in k.items()]
    for label, v in items:
        cand = [(label, v)]
        if isinstance(v, (list, tuple)) and len(v) <= 16:
            cand = [(f"{label}[{j}]", w) for j, w in enumerate(v)]
        for lab, w in cand:
            sv = _snap_value(w)
            if sv is not None:
                out.append((lab, w, sv))
    return out


class Obs:
    """What one execution observed."""

    __slots__ = ("violations", "transitions", "nontrivial", "outcome", "fired", "skipped")

    def __init__(self):
        self.violations = []
        self.transitions = 0
        self.nontrivial = False
        self.outcome = None
        self.fired = set()
        self.skipped = False

    def fail(self, site, clause, detail="", cls=""):
        """Record a violation.  (site, clause, cls) is the signature used for known findings."""
        self.violations.append({"site": site, "clause": clause, "cls": cls, "detail": str(detail)[:600]})

    def fire(self, *clauses):
        """Mark oracle clauses as having been evaluated non-vacuously on this case."""
        self.fired.update(clauses)

    def check(self, cond, site, clause, detail="", cls=""):
        self.fired.add(clause)
        if not cond:
            self.fail(site, clause, detail() if callable(detail) else detail, cls)
        return bool(cond)

    def lib(self, site, fn, *a, **k):
        """Call the real library; an exception is a violation of the property at `site`.

        Array and table arguments are the caller's own objects: a user script passes them again to the next call, so
        a call that modifies one in place breaks every later use.  Their values are snapshotted before the call and
        compared afterwards (clause `argument-untouched`; labels of a DataFrame are not part of the snapshot)."""
        self.transitions += 1
        outs = k.pop("_outputs", ())  # positional indices of documented OUTPUT buffers (filled in place by design)
        if FORCE_LAYOUT is not None:
            a = tuple(v if i in outs else _relayout(v) for i, v in enumerate(a))
            k = {key: _relayout(v) for key, v in k.items()}
        snaps = [t for t in _snapshot_args(a, k) if not any(t[0] == f"#{i}" or t[0].startswith(f"#{i}[") for i in outs)] if ARG_SNAPSHOT else None
        try:
            r = fn(*a, **k)
        except HarnessError:
            raise
        except Exception as e:  # noqa: BLE001
            raise LibError(site, e) from e
        if snaps:
            for label, obj, before in snaps:
                if _snap_value(obj) != before:
                    self.fail(site, "argument-untouched", f"argument {label} ({type(obj).__name__}) was modified in place by the call")
            self.fired.add("argument-untouched")
        return r


class Family:
    """A finite space + an execute function.

    expect: oracle clauses that MUST fire at least once in this family (vacuity guard).
    """

    kind = "small-scope"

    def __init__(self, name, space, execute, expect=(), note="", describe=None, min_outcomes=2, budget_s=None):
        self.name = name
        self.space = space
        self.execute = execute
        self.expect = tuple(expect)
        self.note = note
        self._describe = describe
        self.min_outcomes = min_outcomes
        self.budget_s = budget_s

    def __len__(self):
        return len(self.space)

    def describe(self, case):
        if self._describe is not None:
            return jsonable(self._describe(case))
        return jsonable(case)

    def run_index(self, i, seed):
        case = self.space[i]
        np.random.seed((h64((seed, self.name, i))) & 0x7FFFFFFF)
        return case, run_case(self.execute, case)


def _exc_site(tb_exc):
    """Innermost cryocat frame of an exception (function name), else 'harness'."""
    site = None
    for fr in traceback.extract_tb(tb_exc.__traceback__):
        if os.path.realpath(fr.filename).startswith(REPO + os.sep):
            site = f"{os.path.basename(fr.filename)}:{fr.name}"
    return site


def run_case(execute, case):
    """Run one case; every exception becomes a violation (library crash inside the domain)."""
    obs = Obs()
    try:
        r = execute(case, obs)
        if isinstance(r, Obs):
            obs = r
    except HarnessError:
        raise
    except LibError as le:
        e = le.exc
        inner = _exc_site(e)
        obs.fail(le.site, f"exception:{type(e).__name__}", f"{inner}: {e}", cls=inner or "")
        obs.outcome = ("exc", le.site, type(e).__name__)
    except Exception as e:  # noqa: BLE001
        inner = _exc_site(e)
        tb = traceback.format_exc(limit=-4)
        obs.fail(inner or "harness", f"exception:{type(e).__name__}", f"{e} | {tb}", cls="oracle-path")
        obs.outcome = ("exc", inner or "harness", type(e).__name__)
    return obs


# ----------------------------------------------------------------------------------------------
# worker side

_FAMS = None
_SEED = 0
_TMP = None
_PREV_CHUNKS = []  # chunks this worker process executed before the current one (for history-dependent replays)


def _worker_init():
    global _TMP
    import gc

    _TMP = tempfile.mkdtemp(prefix="mcw_", dir=os.environ.get("VERIF_TMP", "/tmp"))
    os.chdir(_TMP)
    gc.freeze()
    import atexit
    import shutil

    atexit.register(lambda: shutil.rmtree(_TMP, ignore_errors=True))


def _clean_tmp():
    """Remove files the library dropped into the worker cwd (e.g. band.em)."""
    if _TMP and os.path.isdir(_TMP):
        for f in os.listdir(_TMP):
            p = os.path.join(_TMP, f)
            try:
                if os.path.isdir(p):
                    import shutil

                    shutil.rmtree(p, ignore_errors=True)
                else:
                    os.unlink(p)
            except OSError:
                pass


def _run_chunk(task):
    fi, start, stop = task
    fam = _FAMS[fi]
    res = {
        "fi": fi,
        "start": start,
        "stop": stop,
        "n": 0,
        "transitions": 0,
        "nontrivial": set(),
        "outcomes": set(),
        "fired": collections.Counter(),
        "violations": [],
        "n_viol_cases": 0,
        "sigs": collections.Counter(),
        "sample": None,
        "det_checked": 0,
        "skipped": 0,
        "nondet": None,
    }
    for i in range(start, stop):
        case, obs = fam.run_index(i, _SEED)
        res["n"] += 1
        res["transitions"] += obs.transitions
        if obs.skipped:
            res["skipped"] += 1
        oh = h64(obs.outcome)
        res["outcomes"].add(oh)
        if obs.nontrivial:
            res["nontrivial"].add(h64(fam.describe(case)))
        for c in obs.fired:
            res["fired"][c] += 1
        if res["sample"] is None and obs.nontrivial:
            res["sample"] = {"family": fam.name, "index": i, "case": fam.describe(case)}
        if obs.violations:
            res["n_viol_cases"] += 1
            for v in obs.violations:
                sig = (v["site"], v["clause"], v["cls"])
                res["sigs"][sig] += 1
                if res["sigs"][sig] <= 2 and len(res["violations"]) < MAX_VIOL_PER_CHUNK:
                    res["violations"].append(dict(v, family=fam.name, index=i, chunk_start=start, prev_chunks=list(_PREV_CHUNKS[-3:]), first_chunk=(list(_PREV_CHUNKS[0]) if _PREV_CHUNKS else None),
                                                  case=fam.describe(case)))
        # determinism self-check on a fixed 1/97 slice
        if i % 97 == 0:
            _case2, obs2 = fam.run_index(i, _SEED)
            res["det_checked"] += 1
            sig1 = (oh, sorted((v["site"], v["clause"], v["cls"]) for v in obs.violations))
            sig2 = (h64(obs2.outcome), sorted((v["site"], v["clause"], v["cls"]) for v in obs2.violations))
            if sig1 != sig2:
                # The same case, executed twice in a row in one process, gave two different results.  Either the
                # harness is non-deterministic (exit 2) or the library carries state from one call to the next - which
                # violates every property here (they are all statements about values).  It is reported as a candidate
                # violation and decided by the fresh-process replay: two back-to-back executions must differ again.
                v = {"site": fam.name, "clause": "repeated-call-differs", "cls": "",
                     "detail": f"first {repr(obs.outcome)[:250]} second {repr(obs2.outcome)[:250]}"}
                sig = (v["site"], v["clause"], v["cls"])
                res["sigs"][sig] += 1
                if res["sigs"][sig] <= 2:
                    res["violations"].append(dict(v, family=fam.name, index=i, case=fam.describe(case)))
                res["n_viol_cases"] += 1
    _clean_tmp()
    _PREV_CHUNKS.append([fi, start, stop])
    return res


class FamilyResult:
    def __init__(self, fam):
        self.name = fam.name
        self.kind = fam.kind
        self.size = len(fam)
        self.n = 0
        self.transitions = 0
        self.nontrivial = set()
        self.outcomes = set()
        self.fired = collections.Counter()
        self.violations = []
        self.n_viol_cases = 0
        self.sigs = collections.Counter()
        self.samples = []
        self.det_checked = 0
        self.skipped = 0
        self.capped = False
        self.covered_prefix = 0
        self.wall_s = 0.0
        self.extra = {}
        self.states = None  # BFS families set these explicitly
        self.model_states = None

    def summary(self):
        d = {
            "family": self.name,
            "kind": self.kind,
            "space_size": self.size,
            "executed": self.n,
            "exhaustive": (not self.capped) and self.n == self.size,
            "transitions": self.transitions,
            "distinct_nontrivial": len(self.nontrivial),
            "distinct_outcomes": len(self.outcomes) if self.states is None else self.states,
            "clauses_fired": dict(sorted(self.fired.items())),
            "violating_cases": self.n_viol_cases,
            "determinism_rechecks": self.det_checked,
            "skipped_not_judged": self.skipped,
            "wall_s": round(self.wall_s, 2),
        }
        if self.capped:
            d["cap"] = f"time budget hit; indices [0,{self.covered_prefix}) fully covered"
        d.update(self.extra)
        return d


def explore_family(pool, fi, fam, deadline):
    """Enumerate every index of `fam` over the pool.  Returns FamilyResult."""
    fr = FamilyResult(fam)
    t0 = time.time()
    n = len(fam)
    if n == 0:
        raise HarnessError(f"family {fam.name}: empty space")
    chunk = max(1, min(500, n // (NPROC * 6) or 1))
    tasks = [(fi, s, min(n, s + chunk)) for s in range(0, n, chunk)]
    done = {}
    it = pool.imap(_run_chunk, tasks) if pool is not None else map(_run_chunk, tasks)
    fam_deadline = deadline
    if fam.budget_s is not None:
        fam_deadline = min(deadline, t0 + fam.budget_s)
    for r in it:
        done[r["start"]] = r["stop"]
        fr.n += r["n"]
        fr.transitions += r["transitions"]
        fr.nontrivial |= r["nontrivial"]
        fr.outcomes |= r["outcomes"]
        fr.fired.update(r["fired"])
        fr.n_viol_cases += r["n_viol_cases"]
        fr.sigs.update(r["sigs"])
        fr.det_checked += r["det_checked"]
        fr.skipped += r["skipped"]
        if len(fr.violations) < 200:
            fr.violations.extend(r["violations"])
        if r["sample"] is not None and len(fr.samples) < 3:
            fr.samples.append(r["sample"])
        if r["nondet"] is not None:
            raise HarnessError(f"non-deterministic execution: {r['nondet']}")
        if time.time() > fam_deadline:
            fr.capped = True
            break
    # contiguous prefix covered (imap is ordered, so it is simply the last stop)
    fr.covered_prefix = max(done.values()) if done else 0
    if not fr.capped and fr.n != n:
        raise HarnessError(f"family {fam.name}: executed {fr.n} of {n} cases without a cap")
    fr.wall_s = time.time() - t0
    return fr


def make_pool(fams, seed):
    global _FAMS, _SEED
    _FAMS = fams
    _SEED = seed
    if NPROC <= 1:
        _worker_init()
        return None
    ctx = multiprocessing.get_context("fork")
    return ctx.Pool(NPROC, initializer=_worker_init)
