"""Anchor-line probe: which anchored source lines of the property did a sample of the explored cases execute?

A single-process pass over an evenly strided sample of every family, under sys.settrace restricted to the anchor files
of the property (properties.jsonl: anchors.mechanism[].where = "path:a-b,c-d").  It is a vacuity guard (the harness
reaches the code the property is anchored in), not part of the deciding step.
"""
import json
import os
import re
import sys

VERIF = os.path.dirname(os.path.dirname(os.path.abspath(__file__)))


def load_anchors(pid):
    out = []
    with open(os.path.join(VERIF, "properties.jsonl")) as f:
        for line in f:
            p = json.loads(line)
            if p["id"] != pid:
                continue
            for m in p["anchors"].get("mechanism", []):
                w = m.get("where", "")
                mo = re.match(r"([^:]+):(.+)$", w)
                if not mo:
                    continue
                ranges = []
                for part in mo.group(2).split(","):
                    a, _, b = part.partition("-")
                    try:
                        ranges.append((int(a), int(b or a)))
                    except ValueError:
                        pass
                out.append({"name": m.get("name", w), "file": mo.group(1), "ranges": ranges})
    return out


def probe(pid, fams, seed, repo, per_family=60):
    anchors = load_anchors(pid)
    if not anchors:
        return {}
    files = {os.path.realpath(os.path.join(repo, a["file"])): a["file"] for a in anchors}
    hit = {f: set() for f in files}

    known = {}

    def tracer(frame, event, arg):
        fn = frame.f_code.co_filename
        tgt = known.get(fn, 0)
        if tgt == 0:
            rp = os.path.realpath(fn)
            tgt = rp if rp in hit else None
            known[fn] = tgt
        if tgt is None:
            return None
        lines = hit[tgt]

        def local(frame, event, arg):
            if event == "line":
                lines.add(frame.f_lineno)
            return local

        lines.add(frame.f_lineno)
        return local

    sys.settrace(tracer)
    try:
        for fam in fams:
            if fam.kind == "bfs":
                from .engine import Obs
                import pickle

                for label, st in fam.spec.initial():
                    for op in fam.spec.ops(st)[:per_family]:
                        try:
                            fam.spec.step(pickle.loads(pickle.dumps(st)), op, Obs())
                        except Exception:  # noqa: BLE001
                            pass
                continue
            n = len(fam)
            step = max(1, n // per_family)
            for i in range(0, n, step):
                try:
                    fam.run_index(i, seed)
                except Exception:  # noqa: BLE001
                    pass
    finally:
        sys.settrace(None)
    rep = {}
    for a in anchors:
        fp = os.path.realpath(os.path.join(repo, a["file"]))
        lines = hit.get(fp, set())
        got = sum(1 for (lo, hi) in a["ranges"] for ln in lines if lo <= ln <= hi)
        span = sum(hi - lo + 1 for lo, hi in a["ranges"])
        rep[a["name"]] = {"where": f"{a['file']}:{','.join(f'{lo}-{hi}' for lo, hi in a['ranges'])}", "lines_hit": got, "lines_in_range": span}
    return rep
