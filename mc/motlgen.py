"""Helpers to build particle tables (always float64 columns) for the property modules."""
import numpy as np
import pandas as pd

COLS = [
    "score", "geom1", "geom2", "subtomo_id", "tomo_id", "object_id", "subtomo_mean", "x", "y", "z",
    "shift_x", "shift_y", "shift_z", "geom3", "geom4", "geom5", "phi", "psi", "theta", "class",
]

# adversarial value palette: not representable in float32, ties, tiny, huge, negative zero, long decimals
PALETTE = [0.1, 1.0 / 3.0, -2.5, 16777217.0, 1e-7, -0.0, 3.0e38, 1e-40, 123456.789012345, -7.0, 0.5, 2.5, 1e16 + 2]


def frame(rows, columns=None):
    """rows: list of dicts (missing fields -> 0.0).  columns: column order of the produced table."""
    columns = list(columns) if columns is not None else COLS
    data = {c: np.array([float(r.get(c, 0.0)) for r in rows], dtype=np.float64) for c in columns}
    return pd.DataFrame(data, columns=columns)


def df_rows(df):
    """Table -> list of dicts by column NAME (python floats), in row order."""
    cols = list(df.columns)
    vals = df.to_numpy(dtype=float, na_value=np.nan) if len(df) else np.zeros((0, len(cols)))
    return [{c: float(vals[i, j]) for j, c in enumerate(cols)} for i in range(vals.shape[0])]


def df_key(df):
    """Canonical key of EVERYTHING a later operation could read from a DataFrame: column order, dtypes,
    index labels, row order and exact cell bit patterns (NaN canonicalised)."""
    parts = [repr(list(df.columns)), repr([str(t) for t in df.dtypes.values]), repr(df.index.tolist())]
    try:
        a = df.to_numpy()
        if a.dtype == np.float64:
            a = a.copy()
            a[np.isnan(a)] = np.nan
            parts.append(a.tobytes().hex())
        else:
            raise TypeError
    except (ValueError, TypeError):
        for c in df.columns:
            col = df[c]
            try:
                a = np.asarray(col, dtype=np.float64).copy()
                a[np.isnan(a)] = np.nan
                parts.append(a.tobytes().hex())
            except (ValueError, TypeError):
                parts.append(repr(list(col)))
    return "|".join(parts)
