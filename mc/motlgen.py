"""Helpers to build particle tables (always float64 columns) for the property modules."""
import numpy as np
import pandas as pd

COLS = [
    "score", "geom1", "geom2", "subtomo_id", "tomo_id", "object_id", "subtomo_mean", "x", "y", "z",
    "shift_x", "shift_y", "shift_z", "geom3", "geom4", "geom5", "phi", "psi", "theta", "class",
]

# adversarial value palette: not representable in float32, ties, tiny, huge, negative zero, long decimals
PALETTE = [0.1, 1.0 / 3.0, -2.5, 16777217.0, 1e-7, -0.0, 3.0e38, 1e-40, 123456.789012345, -7.0, 0.5, 2.5, 1e16 + 2]


INDEX_KINDS = ("default", "gapped", "reversed")
_FORCED = None


class force_index:
    """Context manager: every table built by frame() inside carries the given kind of row index."""

    def __init__(self, kind):
        self.kind = kind

    def __enter__(self):
        global _FORCED
        self.old = _FORCED
        _FORCED = self.kind

    def __exit__(self, *a):
        global _FORCED
        _FORCED = self.old
        return False


def with_row_index_kinds(fam, select=None, kinds=("gapped", "reversed"), name=None, expect=()):
    """A second family over (a selection of) the cases of `fam`, crossed with non-default row-index kinds: the same
    particle lists as they look after sort_values / remove_feature / boolean filtering (hidden representation state)."""
    from .engine import Family
    from .space import Listed, Product

    base = fam.space if select is None else Listed([c for c in fam.space if select(c)])
    execute = fam.execute

    def ex(case, obs):
        with force_index(case[1]):
            return execute(case[0], obs)

    return Family(name or fam.name + "@row-index", Product(base, list(kinds)), ex, expect=expect,
                  describe=lambda c: {"case": fam.describe(c[0]), "row_index": c[1]})


def index_labels(n, kind):
    """Row labels a particle table carries after earlier operations: default 0..n-1, gapped (remove_feature, boolean
    filtering), reversed (sort_values)."""
    if kind == "default":
        return list(range(n))
    if kind == "gapped":
        return [3 * i + 2 for i in range(n)]
    if kind == "reversed":
        return list(range(n - 1, -1, -1))
    if kind == "repeated":   # per-tomogram tables glued with pd.concat without ignore_index: labels restart
        return [i % 2 for i in range(n)]
    raise ValueError(kind)


def frame(rows, columns=None, index_kind=None):
    """rows: list of dicts (missing fields -> 0.0).  columns: column order of the produced table.
    index_kind: one of INDEX_KINDS (default: VERIF_FORCE_INDEX or "default")."""
    import os

    columns = list(columns) if columns is not None else COLS
    data = {c: np.array([float(r.get(c, 0.0)) for r in rows], dtype=np.float64) for c in columns}
    df = pd.DataFrame(data, columns=columns)
    kind = index_kind or _FORCED or os.environ.get("VERIF_FORCE_INDEX", "default")
    if kind != "default":
        df.index = index_labels(len(df), kind)
    return df


def df_rows(df):
    """Table -> list of dicts by column NAME (python floats), in row order."""
    cols = list(df.columns)
    vals = df.to_numpy(dtype=float, na_value=np.nan) if len(df) else np.zeros((0, len(cols)))
    return [{c: float(vals[i, j]) for j, c in enumerate(cols)} for i in range(vals.shape[0])]


def df_key(df):
    """Canonical key of EVERYTHING a later operation could read from a DataFrame: column order, dtypes,
    index labels, row order and exact cell bit patterns (NaN canonicalised)."""
    parts = [repr(list(df.columns)), repr([str(t) for t in df.dtypes.values]), repr(df.index.tolist())]
    try:
        a = df.to_numpy()
        if a.dtype == np.float64:
            a = a.copy()
            a[np.isnan(a)] = np.nan
            parts.append(a.tobytes().hex())
        else:
            raise TypeError
    except (ValueError, TypeError):
        for c in df.columns:
            col = df[c]
            try:
                a = np.asarray(col, dtype=np.float64).copy()
                a[np.isnan(a)] = np.nan
                parts.append(a.tobytes().hex())
            except (ValueError, TypeError):
                parts.append(repr(list(col)))
    return "|".join(parts)
